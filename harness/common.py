"""Shared machinery for every property check.

One check = one `Ctx`.  The per-property module (harness/props/Cxx.py) exposes
`run(ctx)` and uses the helpers below:

  ctx.require_proofs("C09")           build the .vo closure of props/C09_Properties.v,
                                      re-run coqc on the property file, parse every
                                      `Print Assumptions`, check the axiom allow-list
  ctx.coq_eval(name, preamble, exprs) evaluate Gallina expressions with vm_compute
                                      (sharded over coqc processes), return parsed values
  ctx.count(...) / ctx.sample(...)    coverage bookkeeping for the evidence file
  ctx.disagree(...)                   model and implementation differ on a case
  ctx.violation(key, what, replay)    the property fails on the implementation (or a proof
                                      obligation / correspondence broke): consult
                                      known_findings.json, print KNOWN-FINDING or VIOLATION
  ctx.finish()                        write evidence/<id>.json, return exit status
"""
from __future__ import annotations

import ast
import hashlib
import json
import os
import random
import re
import subprocess
import sys
import time
from concurrent.futures import ThreadPoolExecutor
from pathlib import Path

VERIF = Path(__file__).resolve().parent.parent
COQ = VERIF / "coq"
REPO = Path(os.environ.get("QUANTEM_REPO") or "/repo")
SRC = REPO / "src"
# VERIF_OUT redirects build scratch and evidence (used when a check is pointed at a scratch
# worktree through QUANTEM_REPO, so that /verif/evidence always describes /repo itself)
_OUT = Path(os.environ.get("VERIF_OUT") or VERIF)
BUILD = _OUT / "build"
EVID = _OUT / "evidence"
NPROC = int(os.environ.get("VERIF_JOBS", "0")) or (os.cpu_count() or 4)
COQ_FLAGS = ["-Q", str(COQ), "QV"]

# ------------------------------------------------------------------------------------------
# axioms a theorem may depend on (all declared by the Coq standard library itself)
ALLOWED_AXIOMS = [
    r"ClassicalDedekindReals\.sig_forall_dec",
    r"ClassicalDedekindReals\.sig_not_dec",
    r"Classical_Prop\.classic",
    r"FunctionalExtensionality\.functional_extensionality_dep",
    r"functional_extensionality_dep",
    r"Eqdep\.Eq_rect_eq\.eq_rect_eq",
    r"ProofIrrelevance\.proof_irrelevance",
    r"JMeq\.JMeq_eq",
    r"PropExtensionality\.propositional_extensionality",
    r"ClassicalEpsilon\.constructive_indefinite_description",
    r"FloatAxioms\.\w+",
    r"Uint63\.\w+",
    r"Uint63Axioms\.\w+",
    r"PrimFloat\.\w+",
    r"PrimInt63\.\w+",
    r"FloatOps\.\w+",
    r"Sint63\.\w+",
    r"PArray\.\w+",
    # primitive types / operations are listed by Print Assumptions but are not axioms of ours
    r"float", r"int",
]
_ALLOWED_RE = re.compile(r"^(?:%s)$" % "|".join(ALLOWED_AXIOMS))

_PRIM_TOK = {"float", "PrimInt63.int", "int", "bool", "Set", "*", "->", "comparison", "float_comparison",
             "float_class", "FloatClass.float_class", "PrimFloat.float_comparison", "(", ")",
             "PrimFloat.float", "carry", "PrimInt63.carry", "Uint63.carry", "Type"}


def _is_primitive_type(ty: str) -> bool:
    """Print Assumptions lists the native int/float primitives (e.g. `mul : float -> float ->
    float`); they are kernel primitives, not axioms: recognised by a type built only from the
    primitive types."""
    toks = re.findall(r"[\w.']+|->|\*|\(|\)", ty)
    return bool(toks) and all(t in _PRIM_TOK for t in toks)


FORBIDDEN = re.compile(
    r"\b(Admitted|admit|Axiom|Axioms|Parameter|Parameters|Conjecture|Conjectures|Admit\s+Obligations)\b"
    r"|Unset\s+Guard|bypass_check|type-in-type|impredicative-set|Unset\s+Positivity|Unset\s+Universe"
)


def sh(cmd, timeout=600, cwd=None, env=None, input=None):
    """run a command, return (rc, stdout+stderr)"""
    try:
        p = subprocess.run(
            cmd, cwd=cwd, env=env, input=input, timeout=timeout,
            stdout=subprocess.PIPE, stderr=subprocess.STDOUT, text=True,
        )
        return p.returncode, p.stdout
    except subprocess.TimeoutExpired as e:
        out = e.stdout.decode() if isinstance(e.stdout, bytes) else (e.stdout or "")
        return 124, out + "\n[timeout after %ss]" % timeout


# ------------------------------------------------------------------------------------------
# Python value -> Coq literal printers


def cz(n) -> str:
    n = int(n)
    return "(%d)%%Z" % n


def cnat(n) -> str:
    n = int(n)
    assert 0 <= n < 5000, "nat literal too large: %r" % n
    return "%d%%nat" % n


def cnl(xs) -> str:
    """list of nat, written as a Z list (fast to parse): Prelude.nl"""
    return "(nl [%s]%%Z)" % "; ".join(str(int(x)) for x in xs)


def cN(n) -> str:
    n = int(n)
    assert n >= 0
    return "%d%%N" % n


def cbool(b) -> str:
    return "true" if b else "false"


def clist(xs, f=str) -> str:
    return "[" + "; ".join(f(x) for x in xs) + "]"


def cpair(a, b) -> str:
    return "(%s, %s)" % (a, b)


def copt(x, f=str) -> str:
    return "None" if x is None else "(Some %s)" % f(x)


def cstr(s: str) -> str:
    assert all(32 <= ord(c) < 127 for c in s), "non-ascii string literal %r" % s
    return '"%s"%%string' % s.replace('"', '""')


def cq(fr) -> str:
    """fractions.Fraction / int -> Q literal (num # den)"""
    from fractions import Fraction
    fr = Fraction(fr)
    return "(Qmake (%d)%%Z %d%%positive)" % (fr.numerator, fr.denominator)


def cfloat(x: float) -> str:
    """Python float -> PrimFloat literal, exact (hex)."""
    import math
    if math.isnan(x):
        return "nan%float"
    if math.isinf(x):
        return "infinity%float" if x > 0 else "neg_infinity%float"
    h = float(x).hex()
    if h.startswith("-"):
        return "(-%s)%%float" % h[1:]
    return "(%s)%%float" % h


def float_to_fraction(x: float):
    from fractions import Fraction
    return Fraction(*float(x).as_integer_ratio())


# ------------------------------------------------------------------------------------------
# parser for the values Coq prints (lists, tuples, Z/nat/N numerals, bools, strings,
# option, constructor applications)


class CoqParseError(Exception):
    pass


_TOK = re.compile(
    r"\s*(?:(?P<num>-?\d+)(?:%\w+)?|(?P<str>\"(?:[^\"]|\"\")*\")(?:%\w+)?|(?P<id>[A-Za-z_][\w.']*)|(?P<sym>[\[\];(),#]))"
)


_SCOPE = re.compile(r"\s*%\w+")


def _tokens(s):
    pos = 0
    out = []
    s = s.strip()
    while pos < len(s):
        ms = _SCOPE.match(s, pos)
        if ms:  # a scope annotation after a closing parenthesis, e.g. `(-5)%Z`
            pos = ms.end()
            continue
        m = _TOK.match(s, pos)
        if not m:
            raise CoqParseError("cannot tokenise at %r" % s[pos:pos + 40])
        pos = m.end()
        if m.group("num") is not None:
            out.append(("num", int(m.group("num"))))
        elif m.group("str") is not None:
            out.append(("str", m.group("str")[1:-1].replace('""', '"')))
        elif m.group("id") is not None:
            out.append(("id", m.group("id")))
        else:
            out.append(("sym", m.group("sym")))
    return out


def parse_coq_value(s):
    """Parse a printed Coq value into Python: list -> list, tuple -> tuple, numerals -> int,
    true/false -> bool, None -> None, `Some x` -> ("Some", x), `C a b` -> ("C", a, b),
    `a # b` (Q) -> Fraction."""
    toks = _tokens(s)
    pos = [0]

    def peek():
        return toks[pos[0]] if pos[0] < len(toks) else (None, None)

    def take():
        t = peek()
        pos[0] += 1
        return t

    def atom():
        k, v = take()
        if k == "num":
            return v
        if k == "str":
            return v
        if k == "id":
            if v == "true":
                return True
            if v == "false":
                return False
            if v == "None":
                return None
            if v in ("nil",):
                return []
            return ("@id", v)
        if k == "sym" and v == "[":
            items = []
            if peek() == ("sym", "]"):
                take()
                return items
            while True:
                items.append(expr())
                k2, v2 = take()
                if (k2, v2) == ("sym", "]"):
                    return items
                if (k2, v2) != ("sym", ";"):
                    raise CoqParseError("expected ; or ] got %r" % (v2,))
        if k == "sym" and v == "(":
            items = [expr()]
            while peek() == ("sym", ","):
                take()
                items.append(expr())
            if take() != ("sym", ")"):
                raise CoqParseError("expected )")
            return items[0] if len(items) == 1 else tuple(items)
        raise CoqParseError("unexpected token %r" % (v,))

    def app():
        head = atom()
        if isinstance(head, tuple) and len(head) == 2 and head[0] == "@id":
            args = []
            while True:
                k, v = peek()
                if k in ("num", "str", "id") or (k == "sym" and v in "[("):
                    a = atom()
                    if isinstance(a, tuple) and len(a) == 2 and a[0] == "@id":
                        a = (a[1],)
                    args.append(a)
                else:
                    break
            return (head[1],) + tuple(args)
        return head

    def expr():
        a = app()
        if peek() == ("sym", "#"):
            take()
            b = app()
            from fractions import Fraction
            return Fraction(a, b)
        return a

    v = expr()
    if pos[0] != len(toks):
        raise CoqParseError("trailing tokens: %r" % (toks[pos[0]:pos[0] + 5],))
    return v


_EVAL_RE = re.compile(r"^\s*=\s*(.*?)\n\s*:\s", re.S | re.M)


def split_eval_outputs(out: str):
    """Split coqc stdout into the printed values of successive `Eval ... in` commands."""
    # each result has the shape "     = value\n     : type\n"
    vals = []
    for chunk in re.split(r"(?m)^(?=\s*= )", out):
        c = chunk.strip()
        if not c.startswith("="):
            continue
        # cut the trailing ": type" (last occurrence of newline + spaces + ':' at line start)
        m = re.search(r"\n\s*: ", c)
        body = c[1:m.start()] if m else c[1:]
        vals.append(body.strip())
    return vals


# ------------------------------------------------------------------------------------------


def ast_hash(path: Path, names: list[str] | None = None) -> dict:
    """Hash of the normalised AST (no positions / docstrings) of the named top-level or
    Class.method definitions of a source file: the drift guard of DESIGN 3.3."""
    try:
        tree = ast.parse(path.read_text())
    except Exception as e:  # noqa
        return {"__error__": repr(e)}

    def strip_doc(node):
        for n in ast.walk(node):
            body = getattr(n, "body", None)
            if isinstance(body, list) and body and isinstance(body[0], ast.Expr) and isinstance(
                getattr(body[0], "value", None), ast.Constant
            ) and isinstance(body[0].value.value, str):
                n.body = body[1:] or [ast.Pass()]
        return node

    out = {}
    index = {}
    for n in tree.body:
        if isinstance(n, (ast.FunctionDef, ast.AsyncFunctionDef, ast.ClassDef)):
            index[n.name] = n
            if isinstance(n, ast.ClassDef):
                for m in n.body:
                    if isinstance(m, (ast.FunctionDef, ast.AsyncFunctionDef)):
                        index.setdefault(n.name + "." + m.name, m)
    for name in names or sorted(index):
        n = index.get(name)
        if n is None:
            out[name] = "absent"
        else:
            out[name] = hashlib.sha256(ast.dump(strip_doc(n)).encode()).hexdigest()[:16]
    return out


def coqproject_text() -> str:
    files = []
    for d in ("lib", "model", "proof", "props"):
        files += sorted(str(p.relative_to(COQ)) for p in (COQ / d).glob("*.v"))
    return ("-Q . QV\n-arg -w -arg -notation-overridden,-deprecated-hint-without-locality,"
            "-deprecated-instance-without-locality,-deprecated-syntactic-definition,-ambiguous-paths\n"
            + "\n".join(files) + "\n")


ESCALATE = 4
_BASELINE = None


def _baseline_hashes() -> dict:
    global _BASELINE
    if _BASELINE is None:
        p = VERIF / "harness" / "baseline_hashes.json"
        try:
            _BASELINE = json.loads(p.read_text())
            # the baseline describes one commit of the repository: after a new commit (a `fix:`) it is stale
            # until regenerated (python3 -m harness.gen_baseline) and the guard stays quiet; an uncommitted
            # edit or a scratch worktree at the same commit is compared against it
            rc, head = sh(["git", "-C", str(REPO), "rev-parse", "HEAD"], timeout=30)
            if rc != 0 or _BASELINE.get("__repo_head__") != head.strip():
                _BASELINE = {}
        except Exception:  # noqa
            _BASELINE = {}
    return _BASELINE


class Ctx:
    def __init__(self, prop: str, tier: str, seed: int):
        self.prop = prop
        self.tier = tier
        self.seed = seed
        self.rng = random.Random(seed * 1000003 + int(prop[1:]))
        self.t0 = time.time()
        self.dir = BUILD / prop
        self.dir.mkdir(parents=True, exist_ok=True)
        (self.dir / "replays").mkdir(exist_ok=True)
        self.cov = {
            "obligations": 0,
            "discharged": 0,
            "checker_cmd": "",
            "trusted_base": [],
            "evaluations": 0,
            "distinct_nontrivial": 0,
            "rule": "",
            "samples": [],
            "traces_validated_against_impl": 0,
            "disagreements_checked": 0,
            "theorems": {},
            "input_distribution": {},
            "source_ast_hashes": {},
            "known_findings_seen": [],
        }
        self.assumptions: list[str] = []
        self._distinct: set = set()
        self.n_violations = 0
        self.violation_lines: list[str] = []
        self.known_lines: list[str] = []
        self._kf = None
        self._seen_keys = set()
        self.log_lines: list[str] = []

    # -------------------------------------------------------------------- util
    def log(self, *a):
        msg = " ".join(str(x) for x in a)
        self.log_lines.append(msg)
        print("[%s %6.1fs] %s" % (self.prop, time.time() - self.t0, msg), flush=True)

    @property
    def quick(self):
        return self.tier == "quick"

    def budget(self, quick: int, thorough: int) -> int:
        if self.quick and self.escalated and thorough > quick:
            return min(thorough, quick * ESCALATE)
        return quick if self.quick else thorough

    def dist(self, key: str, n: int = 1):
        d = self.cov["input_distribution"]
        d[key] = d.get(key, 0) + n

    def count(self, case_key=None, nontrivial=True, n=1):
        """one evaluated case; `case_key` (hashable/str) identifies distinct cases"""
        self.cov["evaluations"] += n
        if nontrivial and case_key is not None:
            k = hashlib.sha1(repr(case_key).encode()).hexdigest()
            if k not in self._distinct:
                self._distinct.add(k)
                self.cov["distinct_nontrivial"] += 1

    def sample(self, obj, limit=6):
        if len(self.cov["samples"]) < limit:
            self.cov["samples"].append(obj)

    def hash_sources(self, rel: str, names: list[str] | None = None):
        """drift guard (DESIGN 3.3): hash the normalised AST of the anchored definitions; when it differs
        from the baseline recorded for the unchanged tree (harness/baseline_hashes.json) the quick tier
        spends a larger case budget — that is where a property-breaking edit would be"""
        h = ast_hash(SRC / "quantem" / rel, names)
        self.cov["source_ast_hashes"][rel] = h
        base = _baseline_hashes().get(self.prop, {}).get(rel)
        if base is not None:
            changed = sorted(k for k in h if base.get(k) != h[k])
            if changed:
                self.escalated = True
                self.cov.setdefault("drift", {})[rel] = changed
                self.log("drift guard: %s changed in %s -> quick budget escalated x%d" % (changed[:6], rel, ESCALATE))

    escalated = False

    # -------------------------------------------------------------------- Coq build
    def _ensure_makefile(self):
        """_CoqProject lists every .v under lib/ model/ proof/ props/ (regenerated when the set
        of files changes), Makefile regenerated with it"""
        mk = COQ / "Makefile"
        proj = COQ / "_CoqProject"
        want = coqproject_text()
        if (not proj.exists()) or proj.read_text() != want:
            proj.write_text(want)
        if (not mk.exists()) or mk.stat().st_mtime < proj.stat().st_mtime:
            rc, out = sh(["coq_makefile", "-f", "_CoqProject", "-o", "Makefile"], cwd=COQ)
            if rc != 0:
                raise RuntimeError("coq_makefile failed: " + out)

    def coq_make(self, targets: list[str], timeout=1500):
        """make the given .vo targets (paths relative to coq/), under a lock"""
        import fcntl
        self._ensure_makefile()
        BUILD.mkdir(exist_ok=True)
        with open(BUILD / ".coq.lock", "w") as lk:
            fcntl.flock(lk, fcntl.LOCK_EX)
            rc, out = sh(["timeout", str(timeout), "make", "-j%d" % NPROC] + targets, cwd=COQ,
                         timeout=timeout + 30)
        return rc, out

    def static_scan(self, files: list[Path]):
        """no Admitted/Axiom/... and no Variable/Hypothesis outside a Section"""
        bad = []
        for f in files:
            txt = f.read_text()
            # strip comments (non-nested is enough for our sources; nested handled by loop)
            prev = None
            while prev != txt:
                prev = txt
                txt = re.sub(r"\(\*(?:(?!\(\*|\*\)).)*\*\)", " ", txt, flags=re.S)
            depth = 0
            for ln, line in enumerate(txt.splitlines(), 1):
                if re.match(r"\s*(Section|Module)\s+\w+", line) and ":=" not in line:
                    if re.match(r"\s*Section", line):
                        depth += 1
                if re.match(r"\s*End\s+\w+\s*\.", line) and depth > 0:
                    depth -= 1
                m = FORBIDDEN.search(line)
                if m:
                    bad.append("%s:%d: %s" % (f.name, ln, m.group(0)))
                if depth == 0 and re.match(r"\s*(Variable|Variables|Hypothesis|Hypotheses|Context)\b", line):
                    bad.append("%s:%d: %s outside a Section" % (f.name, ln, line.strip()[:40]))
        return bad

    def coq_closure(self, vfile: Path) -> list[Path]:
        """.v files of our development that `vfile` transitively requires"""
        seen, todo = [], [vfile]
        while todo:
            f = todo.pop()
            if f in seen or not f.exists():
                continue
            seen.append(f)
            for m in re.finditer(r"QV\.(\w+)\.(\w+)", f.read_text()):
                todo.append(COQ / m.group(1) / (m.group(2) + ".v"))
            for m in re.finditer(r"From\s+QV\.(\w+)\s+Require\s+(?:Import|Export)?\s*([\w\s]+)\.", f.read_text()):
                for nm in m.group(2).split():
                    todo.append(COQ / m.group(1) / (nm + ".v"))
        return seen

    def require_proofs(self, props_name: str | None = None, extra_flags: list[str] | None = None,
                       props_path: Path | None = None, make_targets: list[str] | None = None):
        """Build the closure, then re-run coqc on the property file and check assumptions.
        Returns True when every obligation is discharged with allowed axioms only."""
        props_name = props_name or (self.prop + "_Properties")
        pfile = props_path or (COQ / "props" / (props_name + ".v"))
        flags = COQ_FLAGS + (extra_flags or [])
        self.cov["checker_cmd"] = (
            "make -C coq props/%s.vo && coqc %s %s  (Coq 8.16.1; full .vo build, Print Assumptions parsed)"
            % (props_name, " ".join(flags), pfile)
        )
        text = pfile.read_text()
        theorems = re.findall(r"(?m)^\s*Theorem\s+(\w+)", text)
        printed = re.findall(r"(?m)^\s*Print Assumptions\s+(\w+)\s*\.", text)
        self.cov["obligations"] += len(theorems)
        problems = []
        missing = [t for t in theorems if t not in printed]
        if missing:
            problems.append("theorems without Print Assumptions: %s" % missing)
        closure = self.coq_closure(pfile)
        bad = self.static_scan(closure)
        if bad:
            problems.append("forbidden declarations: %s" % bad[:5])
        if make_targets is None:
            make_targets = ["props/%s.vo" % props_name] if props_path is None else []
        if make_targets:
            rc, out = self.coq_make(make_targets)
            if rc != 0:
                tail = "\n".join(out.strip().splitlines()[-25:])
                (self.dir / "make_failure.log").write_text(out)
                problems.append("coq build failed (rc=%d):\n%s" % (rc, tail))
                self.cov["theorems"].update({t: "NOT CHECKED (build failed)" for t in theorems})
                self._proof_problems = problems
                return False
        rc, out = sh(["timeout", "900", "coqc"] + flags + ["-o", str(self.dir / (props_name + ".vo")),
                                                           str(pfile)], cwd=self.dir, timeout=930)
        (self.dir / (props_name + ".out")).write_text(out)
        if rc != 0:
            problems.append("property file does not compile:\n" + "\n".join(out.strip().splitlines()[-25:]))
            self._proof_problems = problems
            return False
        blocks = re.split(r"(?m)^(?=Closed under the global context|Axioms:)", out)
        blocks = [b for b in blocks if b.startswith("Closed under") or b.startswith("Axioms:")]
        if len(blocks) != len(printed):
            problems.append("expected %d assumption reports, got %d" % (len(printed), len(blocks)))
        tb = set()
        for name, b in zip(printed, blocks):
            if b.startswith("Closed under"):
                self.cov["theorems"][name] = "closed under the global context"
                if name in theorems:
                    self.cov["discharged"] += 1
                continue
            decls = re.findall(r"(?ms)^([A-Za-z_][\w.']*)\s*:\s*(.*?)(?=^\S|\Z)", b[len("Axioms:"):])
            axs = [d[0] for d in decls]
            notok = [a for a, ty in decls if not (_ALLOWED_RE.match(a) or _is_primitive_type(ty))]
            self.cov["theorems"][name] = "axioms: " + ", ".join(axs)
            tb.update(axs)
            if notok:
                problems.append("theorem %s depends on non-allow-listed axioms %s" % (name, notok))
            elif name in theorems:
                self.cov["discharged"] += 1
        if (not self.quick) and props_path is None and not problems and os.environ.get("VERIF_COQCHK", "1") != "0":
            self.run_coqchk(props_name)
            problems = problems + getattr(self, "_coqchk_problems", [])
        for a in sorted(tb):
            s = "stdlib axiom/primitive used: " + a
            if s not in self.cov["trusted_base"]:
                self.cov["trusted_base"].append(s)
        self._proof_problems = problems
        return not problems

    _proof_problems: list[str] = []

    def run_coqchk(self, props_name: str):
        """thorough tier: re-check the compiled closure with the independent checker coqchk and
        record the axioms it lists (every axiom of every loaded library file, so a superset of
        Print Assumptions); guard/positivity/type-in-type sections must be empty"""
        rc, out = sh(["timeout", "1500", "coqchk", "-o", "-silent"] + COQ_FLAGS + ["QV.props." + props_name],
                     cwd=COQ, timeout=1530)
        (self.dir / (props_name + ".coqchk")).write_text(out)
        self._coqchk_problems = []
        if rc != 0:
            self._coqchk_problems.append("coqchk failed (rc=%d): %s" % (rc, out[-600:]))
            return
        secs = {}
        cur = None
        for line in out.splitlines():
            m = re.match(r"\* (.*?):\s*(<none>)?\s*$", line.strip())
            if m:
                cur = m.group(1)
                secs[cur] = []
                continue
            if cur and line.strip():
                secs[cur].append(line.strip())
        ours = [a for a in secs.get("Axioms", []) if a.startswith("QV.")]
        for k, v in secs.items():
            if k != "Axioms" and v:
                self._coqchk_problems.append("coqchk: %s: %s" % (k, v[:5]))
        if ours:
            self._coqchk_problems.append("coqchk: axioms declared in our development: %s" % ours[:5])
        self.cov["coqchk"] = {
            "cmd": "coqchk -o -silent -Q /verif/coq QV QV.props." + props_name,
            "ok": not self._coqchk_problems,
            "axioms_listed_in_loaded_libraries": len(secs.get("Axioms", [])),
            "axioms_outside_primitive_int_float": sorted(
                a for a in secs.get("Axioms", [])
                if not re.match(r"Coq\.(Numbers\.Cyclic\.Int63|Floats)\.", a))[:40],
        }

    def proofs_or_violation(self, *a, **kw) -> bool:
        """require_proofs + report a broken obligation as a violation (no failing input known
        yet: the caller's correspondence/oracle phase may find one)."""
        ok = self.require_proofs(*a, **kw)
        if not ok:
            self.broken_obligation = "; ".join(self._proof_problems)
            self.log("PROOF OBLIGATION BROKEN:", self.broken_obligation[:2000])
        return ok

    broken_obligation: str | None = None

    # -------------------------------------------------------------------- running the model
    def coq_eval(self, name: str, preamble: str, exprs: list[str], shard: int = 250,
                 timeout: int = 600, extra_flags: list[str] | None = None, parse=True):
        """Evaluate each Gallina expression with vm_compute; returns the list of parsed values
        (or raw strings with parse=False).  Expressions are sharded into files of `shard`
        expressions, compiled in parallel.  Raises RuntimeError if coqc fails."""
        flags = COQ_FLAGS + (extra_flags or [])
        files = []
        for si in range(0, len(exprs), shard):
            chunk = exprs[si:si + shard]
            fn = self.dir / ("%s_%03d.v" % (name, si // shard))
            body = [preamble, ""]
            for e in chunk:
                body.append("Eval vm_compute in (%s)." % e)
            fn.write_text("\n".join(body) + "\n")
            files.append((fn, len(chunk)))

        def run(item):
            fn, n = item
            rc, out = sh(["timeout", str(timeout), "coqc"] + flags + [str(fn)], cwd=self.dir,
                         timeout=timeout + 20)
            return fn, n, rc, out

        results = []
        with ThreadPoolExecutor(max_workers=max(1, min(NPROC, len(files)))) as ex:
            for fn, n, rc, out in ex.map(run, files):
                if rc != 0:
                    raise RuntimeError("coqc failed on %s (rc=%d):\n%s" % (fn, rc, out[-3000:]))
                vals = split_eval_outputs(out)
                if len(vals) != n:
                    raise RuntimeError("%s: expected %d results, got %d\n%s" % (fn, n, len(vals), out[-2000:]))
                results.extend(vals)
        for fn, _ in files:
            for ext in (".vo", ".vok", ".vos", ".glob"):
                p = fn.with_suffix(ext)
                if p.exists():
                    p.unlink()
            aux = fn.parent / ("." + fn.stem + ".aux")
            if aux.exists():
                aux.unlink()
        if parse:
            return [parse_coq_value(re.sub(r"\s+", " ", v)) for v in results]
        return results

    # -------------------------------------------------------------------- findings
    def _known(self):
        if self._kf is None:
            p = VERIF / "known_findings.json"
            self._kf = json.loads(p.read_text()) if p.exists() else {"known": [], "fixed": []}
        return self._kf

    def write_replay(self, key: str, payload: dict) -> Path:
        h = hashlib.sha1((key + json.dumps(payload, sort_keys=True, default=str)).encode()).hexdigest()[:10]
        p = self.dir / "replays" / ("replay_%s_%s.json" % (re.sub(r"\W+", "_", key)[:40], h))
        payload = dict(payload)
        payload.setdefault("property", self.prop)
        payload.setdefault("key", key)
        payload.setdefault("seed", self.seed)
        payload.setdefault("tier", self.tier)
        p.write_text(json.dumps(payload, indent=1, default=str))
        return p

    def violation(self, key: str, what: str, replay: dict, found_input: bool = True):
        """Report that the property fails (key classifies the failure).  A key listed under
        `known` in known_findings.json is printed as KNOWN-FINDING and does not fail the run."""
        if key in self._seen_keys:
            return
        self._seen_keys.add(key)
        for k in self._known().get("known", []):
            if k.get("property") == self.prop and k.get("key") == key:
                line = "KNOWN-FINDING: property=%s %s [%s]" % (self.prop, k.get("what", what), key)
                print(line, flush=True)
                self.known_lines.append(line)
                self.cov["known_findings_seen"].append(key)
                return
        replay = dict(replay)
        replay["what"] = what
        replay["failing_input_found"] = bool(found_input)
        path = self.write_replay(key, replay)
        line = "VIOLATION property=%s replay=%s" % (self.prop, path)
        if not found_input:
            line += " no-failing-input-found"
        print("  what: %s [%s]" % (what, key), flush=True)
        print(line, flush=True)
        self.violation_lines.append(line)
        self.n_violations += 1

    def expect_known(self, key: str):
        """a listed known finding that this run did NOT reproduce is reported in the evidence
        (it does not fail the run: the finding may have been repaired)"""
        self.cov.setdefault("known_findings_not_reproduced", []).append(key)

    # -------------------------------------------------------------------- finish
    def finish(self, level="proof") -> int:
        # a broken proof obligation with no concrete violation found by the caller
        if self.broken_obligation and self.n_violations == 0:
            self.violation(
                "broken-obligation",
                "proof obligation no longer checks: " + self.broken_obligation[:1500],
                {"theorem_or_correspondence": self.broken_obligation[:4000]},
                found_input=False,
            )
        cov = self.cov
        if not cov["rule"]:
            cov["rule"] = "see input_distribution"
        ev = {
            "property_id": self.prop,
            "tier": self.tier,
            "seed": self.seed,
            "level": level,
            "coverage": cov,
            "assumptions": self.assumptions,
            "wall_s": round(time.time() - self.t0, 2),
            "violations": self.n_violations,
        }
        EVID.mkdir(exist_ok=True)
        (EVID / (self.prop + ".json")).write_text(json.dumps(ev, indent=1, default=str) + "\n")
        self.log("obligations %d discharged %d evaluations %d distinct_nontrivial %d violations %d known %d"
                 % (cov["obligations"], cov["discharged"], cov["evaluations"], cov["distinct_nontrivial"],
                    self.n_violations, len(self.known_lines)))
        return 1 if self.n_violations else 0
