"""C16 — the ARGUMENT FORMS of the operators' inputs (round 5).

The property quantifies over "all complex arrays/probe stacks, shift vectors, ... patch index sets, slice thicknesses ...":
nothing in it fixes the dtype / container / batching / memory layout in which a caller hands these over.  This module
generates, for each operator family, the forms the functions accept (found by calling them: a form that the UNCHANGED
operators reject with TypeError on every input -- Python lists as shift vectors -- is outside the domain and not generated):

translate  shift vectors as int64 / int32 / int16 / float32 / float64 arrays, numpy or torch, contiguous or a strided /
           column-sliced view; the array complex128 / complex64 / float64 / float32, contiguous / strided; the three
           calling forms: one (n1, n2) array x P shifts, a stack (M, n1, n2) x P shifts (expand_dim=True -> (P, M, n1, n2)),
           one shift per item (P, n1, n2) x (P, 2) with expand_dim=False
propagate  slice thicknesses as list / tuple / float64 / float32 / int64 numpy arrays / torch tensors, sampling as tuple /
           list / numpy array; waves (n1, n2), (B, n1, n2), (M, B, n1, n2), complex64 / complex128, contiguous / strided;
           the kernel as returned (complex64) or promoted to complex128
scatter    indices int32 / int64, contiguous / strided, shaped like the values or flat; values float32 / float64 /
           complex64 / complex128, (B, n1, n2) or flat; the object shape as tuple / list / torch.Size
fproj      measured amplitudes float32 / float64, exit waves complex64 / complex128, contiguous / strided, batch of one

and evaluates the identities of the property text on each: energy, additivity, integer translation = roll, inverse,
adjoint (<T_s x, y> = <x, T_-s y>, <P_dz x, y> = <x, P_-dz y>, <gather o, v> = <o, scatter v>), idempotence / exactness.
"""
from __future__ import annotations

import math
import warnings
from fractions import Fraction

POS_DTYPES = ["int64", "int32", "int16", "float32", "float64"]
ARR_DTYPES = ["c128", "c64", "f64", "f32"]
NPDT = {"c128": "complex128", "c64": "complex64", "f64": "float64", "f32": "float32"}

TOL_DOUBLE = 1e-10
TOL_SINGLE = 3e-5        # anything that went through a float32 / complex64 ramp, kernel or array
TOL_ROLL = 2e-5          # integer translation = roll: float32 frequency grid (measured <= 1.3e-6 for |s| <= 8)


def _n(t):
    import numpy as np
    if hasattr(t, "detach"):
        return t.detach().cpu().numpy()
    return np.asarray(t)


def _strided_np(np, a, axis=-1):
    """the same values as every other element (along `axis`) of a wider buffer"""
    a = np.asarray(a)
    axis = axis % a.ndim
    shp = list(a.shape)
    shp[axis] *= 2
    big = np.zeros(shp, dtype=a.dtype)
    sl = [slice(None)] * a.ndim
    sl[axis] = slice(None, None, 2)
    big[tuple(sl)] = a
    return big[tuple(sl)]


def _mk(E, a, backend, layout="contig", axis=-1):
    """hand `a` (numpy) over as numpy / torch, contiguous or as a strided view with the same values"""
    np, torch = E.np, E.torch
    a = np.asarray(a)
    if layout == "strided":
        v = _strided_np(np, a, axis)
    elif layout == "fortran":
        v = np.asfortranarray(a)          # for >= 2-d arrays a transposed memory order (a legal view of the same values)
    else:
        v = np.ascontiguousarray(a)
    return torch.as_tensor(v) if backend == "torch" else v


def _rel(np, got, want, scale):
    got, want = np.asarray(got), np.asarray(want)
    if got.shape != want.shape:
        return float("inf")
    if got.size == 0:
        return 0.0
    d = np.abs(got.astype(np.complex128) - want.astype(np.complex128))
    if not np.all(np.isfinite(d)):
        return float("inf")
    return float(d.max()) / max(float(scale), 1e-300)


def _c(rng, shape):
    return rng.standard_normal(shape) + 1j * rng.standard_normal(shape)


# ------------------------------------------------------------------------------------------ translate
def _translate(E, p):
    np, torch, pu = E.np, E.torch, E.pu
    rng = np.random.default_rng(p["seed"])
    n1, n2 = p["shape"]
    be, pdt, adt, form = p["backend"], p["pos_dtype"], p["arr_dtype"], p["form"]
    P = len(p["int_shifts"])
    M = p.get("stack", 2)
    real = adt in ("f64", "f32")
    int_dt = pdt.startswith("int")
    xshape = {"single": (n1, n2), "stack": (M, n1, n2), "peritem": (P, n1, n2)}[form]
    x = _c(rng, xshape)
    x = (x.real if real else x).astype(NPDT[adt])
    y = _c(rng, xshape)
    y = (y.real if real else y).astype(NPDT[adt])
    S_int = np.array(p["int_shifts"], dtype=pdt)                  # integer VALUES in the dtype under test
    # fractional values: only a float dtype can carry them; a real array is translated by the real part of the
    # operator, for which energy / additivity / inverse are claimed on odd x odd grids (no Nyquist row) only
    frac_ok = (not int_dt) and (not real or (n1 % 2 == 1 and n2 % 2 == 1))
    S_frac = np.array(p["frac_shifts"], dtype=pdt) if frac_ok else None
    T_f64 = np.array(p["second_shifts"], dtype=np.float64)        # the second step of the additivity clause
    single = not (pdt == "float64" and adt in ("c128", "f64"))
    tol = TOL_SINGLE if single else TOL_DOUBLE
    expand = form != "peritem"
    fails = []
    desc = "%s, %s %s array%s, form `%s` (array %s), shift vectors dtype %s%s" % (
        be, NPDT[adt], (n1, n2), " (non-contiguous)" if p["arr_layout"] != "contig" else "", form, xshape, pdt,
        " (non-contiguous view)" if p["pos_layout"] != "contig" else "")

    def arr(a):
        return _mk(E, a, be, p["arr_layout"])

    def pos(s):
        return _mk(E, s, be, p["pos_layout"], axis=0 if p["pos_layout"] == "strided" else -1)

    def T(a, s, lay=True):
        with torch.no_grad(), warnings.catch_warnings():
            warnings.simplefilter("ignore")
            aa = arr(a) if lay else _mk(E, a, be)
            return _n(pu.fourier_shift_expand(aa, pos(s), expand_dim=expand))

    def again(out, s):
        """translate out[i] by s[i] (out as returned by T for this form)"""
        if form == "peritem":
            return T(out, s, lay=False)
        return np.stack([T(out[i], s[i:i + 1], lay=False)[0] for i in range(len(s))])

    def rolled(a, s):
        if form == "peritem":
            return np.stack([np.roll(a[i], (int(s[i, 0]), int(s[i, 1])), axis=(-2, -1)) for i in range(len(s))])
        return np.stack([np.roll(a, (int(s[i, 0]), int(s[i, 1])), axis=(-2, -1)) for i in range(len(s))])

    def energy(a):
        return (np.abs(a.astype(np.complex128)) ** 2).sum(axis=(-2, -1))

    mx = float(np.abs(x).max())
    oshape = {"single": (P, n1, n2), "stack": (P, M, n1, n2), "peritem": (P, n1, n2)}[form]
    # ---- integer translation is a circular roll, whatever dtype carries the integers
    out_i = T(x, S_int)
    if out_i.shape != oshape:
        return {"fails": [("argform-translate-shape", "fourier_shift_expand returned shape %s, expected %s: %s"
                           % (out_i.shape, oshape, desc))], "coq": [], "info": {}}
    if real and np.iscomplexobj(out_i):
        fails.append(("argform-translate-real-dtype", "fourier_shift_expand of a real array returned a complex one: " + desc))
    want = rolled(x, S_int)
    r = _rel(np, out_i, want, mx)
    if not r <= TOL_ROLL + (TOL_SINGLE if adt in ("c64", "f32") else 0.0):
        fails.append(("argform-translate-integer-roll", "fourier_shift_expand by the integer vectors %s differs from np.roll by "
                      "%.3g of max|x|: %s" % (S_int.tolist(), r, desc)))
    # ... also through the operator itself: ifft2(fft2(x) * fourier_translation_operator(s, shape))
    with torch.no_grad():
        ramp = _n(pu.fourier_translation_operator(pos(S_int), xshape, expand_dim=expand))
    rshape = (P, 1, n1, n2) if form == "stack" else (P, n1, n2)
    if ramp.shape != rshape:
        fails.append(("argform-translate-shape", "fourier_translation_operator returned shape %s, expected %s: %s"
                      % (ramp.shape, rshape, desc)))
    else:
        man = np.fft.ifft2(np.fft.fft2(x.astype(np.complex128)) * ramp)
        r = _rel(np, man, want, mx)
        if not r <= TOL_ROLL:
            fails.append(("argform-translate-operator-roll", "ifft2(fft2(x) * fourier_translation_operator(%s)) differs from np.roll "
                          "by %.3g of max|x|: %s" % (S_int.tolist(), r, desc)))
        r = float(np.abs(np.abs(ramp) - 1.0).max())
        if not r <= (2e-6 if single else 1e-12):
            fails.append(("argform-translate-ramp-unit-modulus", "| |ramp| - 1 | = %.3g: %s" % (r, desc)))
    # ---- the other identities, on the integer vectors and (float dtypes) on fractional ones
    for tag, S in (("integer-valued", S_int), ("fractional", S_frac)):
        if S is None:
            continue
        out = out_i if S is S_int else T(x, S)
        Sf = S.astype(np.float64)
        e0 = energy(x)
        e1 = energy(out)
        eref = e0 if form == "peritem" else np.broadcast_to(e0, e1.shape)
        r = float(np.abs(e1 - eref).max() / max(float(np.max(eref)), 1e-300))
        if not r <= tol:
            fails.append(("argform-translate-energy", "translation by the %s vectors %s changes the total intensity (rel %.3g): %s"
                          % (tag, S.tolist(), r, desc)))
        # additivity: by s (dtype under test) then by t (float64) = by s + t; for a real array the second step must keep
        # the array real-translatable: integer t unless the grid is odd x odd
        Tt = T_f64 if (not real or (n1 % 2 == 1 and n2 % 2 == 1)) else np.round(T_f64)
        pdt_save = pdt
        two = _again_f64(E, p, out, Tt, form, be)
        one = _again_f64(E, p, x if form == "peritem" else None, Sf + Tt, form, be, base=x)
        r = _rel(np, two, one, mx)
        if not r <= 2 * tol:
            fails.append(("argform-translate-additive", "translating by the %s vectors %s (dtype %s) and then by %s differs from "
                          "translating once by the sum (%.3g of max|x|): %s" % (tag, S.tolist(), pdt_save, Tt.tolist(), r, desc)))
        # inverse: by s then by -s (same dtype) restores the array
        back = again(out, -S)
        xb = x if form == "peritem" else np.broadcast_to(x, out.shape)
        r = _rel(np, back, xb, mx)
        if not r <= 2 * tol:
            fails.append(("argform-translate-inverse", "translating by the %s vectors %s and then by their negatives does not restore "
                          "the array (%.3g of max|x|): %s" % (tag, S.tolist(), r, desc)))
        # adjoint: <T_s x, y> = <x, T_-s y>
        oy = T(y, -S)
        yb = y if form == "peritem" else np.broadcast_to(y, out.shape)
        lhs = (out.astype(np.complex128) * np.conj(yb)).sum(axis=(-2, -1))
        rhs = (xb.astype(np.complex128) * np.conj(oy)).sum(axis=(-2, -1))
        sc = float((np.abs(xb) * np.abs(yb)).sum(axis=(-2, -1)).max())
        r = float(np.abs(lhs - rhs).max()) / max(sc, 1e-300)
        if not r <= 2 * tol:
            fails.append(("argform-translate-adjoint", "<T_s x, y> != <x, T_-s y> for the %s vectors %s (%.3g of sum|x||y|): %s"
                          % (tag, S.tolist(), r, desc)))
    # ---- the phase of the operator against the model's exact rational exponent (C16K.ramp_phases_fix)
    coq, info = [], {}
    if p.get("phase") and ramp.shape == rshape:
        from .common import cq
        S = S_frac if S_frac is not None else S_int
        with torch.no_grad():
            rp = _n(pu.fourier_translation_operator(pos(S), (n1, n2)))
        s0 = [Fraction(float(S[0, 0])), Fraction(float(S[0, 1]))]          # the value the dtype actually carries
        coq.append(("ramp-phase", "C16K.ramp_phases_fix %d%%nat %d%%nat %s %s" % (n1, n2, cq(s0[0]), cq(s0[1])), 0.0, "turns"))
        info["turns"] = {"ramp-phase": [(np.angle(rp[0].astype(np.complex128)) / (2 * np.pi),
                                         4e-7 * (1.0 + float(np.abs(S[0].astype(np.float64)).max())),
                                         "fourier_translation_operator(%s as %s %s, %s)" % (S[0].tolist(), be, pdt, (n1, n2)))]}
    return {"fails": fails, "coq": coq, "info": info}


def _again_f64(E, p, out, t, form, be, base=None):
    """translate by float64 vectors t: out[i] by t[i] (or, with base given and form != peritem, base by every t[i])"""
    np, torch, pu = E.np, E.torch, E.pu
    with torch.no_grad():
        if form == "peritem":
            src = out if out is not None else base
            return _n(pu.fourier_shift_expand(_mk(E, src, be), _mk(E, t, be), expand_dim=False))
        if base is not None:
            return _n(pu.fourier_shift_expand(_mk(E, base, be), _mk(E, t, be)))
        return np.stack([_n(pu.fourier_shift_expand(_mk(E, out[i], be), _mk(E, t[i:i + 1], be)))[0] for i in range(len(t))])


# ------------------------------------------------------------------------------------------ propagate
def _thick_form(E, vals, form):
    np, torch = E.np, E.torch
    if form == "list":
        return [float(v) for v in vals]
    if form == "tuple":
        return tuple(float(v) for v in vals)
    if form == "int-list":
        return [int(v) for v in vals]
    if form.startswith("np."):
        return np.array(vals, dtype=form[3:])
    if form.startswith("torch."):
        return torch.tensor(vals, dtype=getattr(torch, form[6:]))
    raise ValueError(form)


def _propagate(E, p):
    np, torch = E.np, E.torch
    rng = np.random.default_rng(p["seed"])
    n1, n2 = p["shape"]
    pt = E.pt((n1, n2), 1, 2)
    tform, sform, wform = p["thick_form"], p["sampling_form"], p["wave_form"]
    thick = list(p["thick"])                     # two distances (integers for the integer forms)
    samp = {"tuple": tuple(p["sampling"]), "list": list(p["sampling"]), "np": np.array(p["sampling"], dtype=np.float64),
            "np32": np.array(p["sampling"], dtype=np.float32)}[sform]
    wshape = {"single": (n1, n2), "batch": (3, n1, n2), "modes": (2, 2, n1, n2)}[wform]
    c64 = p["wave_dtype"] == "c64"
    x = _c(rng, wshape).astype(np.complex64 if c64 else np.complex128)
    y = _c(rng, wshape).astype(np.complex64 if c64 else np.complex128)
    fails = []
    desc = ("shape %s, distances %s A as %s, sampling %s as %s, %g eV, tilt %s mrad, waves %s %s%s, kernel %s"
            % ((n1, n2), thick, tform, list(p["sampling"]), sform, p["energy"], p["tilt"], wshape, x.dtype,
               " (non-contiguous)" if p["layout"] == "strided" else "", p["kernel_dtype"]))
    pm = pt.probe_model
    old_e = pm.probe_params.get("energy")
    old_t = pm.probe_tilt.detach().clone()

    def kernels(vals):
        with torch.no_grad(), warnings.catch_warnings():
            warnings.simplefilter("ignore")          # torch.tensor(tensor) warns about copy construction: not our subject
            return _n(pm._compute_propagator_arrays(samp, len(vals) + 1, _thick_form(E, vals, tform)))
    try:
        pm.probe_params["energy"] = p["energy"]
        pm.probe_tilt = torch.tensor(p["tilt"], dtype=old_t.dtype)
        K = kernels(thick)
        Kn = kernels([-t for t in thick])
        Ks = kernels([thick[0] + thick[1]])
    finally:
        pm.probe_params["energy"] = old_e
        pm.probe_tilt = old_t
    if K.shape != (2, n1, n2) or Ks.shape != (1, n1, n2):
        return {"fails": [("argform-propagator-shape", "_compute_propagator_arrays returned shape %s / %s: %s" % (K.shape, Ks.shape, desc))],
                "coq": [], "info": {}}
    r = float(np.abs(np.abs(K) - 1).max())
    if not r <= 2e-5:
        fails.append(("argform-propagator-unit-modulus", "| |kernel| - 1 | = %.3g: %s" % (r, desc)))
    kd = np.complex128 if p["kernel_dtype"] == "c128" else np.complex64

    def prop(a, k, which="pt"):
        with torch.no_grad():
            f = pt._propagate_array if which == "pt" else pt.obj_model._propagate_array
            return _n(f(_mk(E, a, "torch", p["layout"]), torch.as_tensor(np.ascontiguousarray(k.astype(kd)))))
    lam = 12398.4244 / math.sqrt(p["energy"] * (2 * 510998.95 + p["energy"]))
    kmax2 = (0.5 / p["sampling"][0]) ** 2 + (0.5 / p["sampling"][1]) ** 2
    phase = math.pi * lam * (abs(thick[0]) + abs(thick[1])) * kmax2
    tol = 2e-5
    mx = float(np.abs(x).max())
    yv = prop(x, K[0])
    if yv.shape != wshape:
        return {"fails": [("argform-propagate-shape", "_propagate_array returned shape %s: %s" % (yv.shape, desc))], "coq": [], "info": {}}
    e0 = (np.abs(x.astype(np.complex128)) ** 2).sum(axis=(-2, -1))
    e1 = (np.abs(yv.astype(np.complex128)) ** 2).sum(axis=(-2, -1))
    r = float(np.abs(e1 - e0).max() / float(np.max(e0)))
    if not r <= tol:
        fails.append(("argform-propagate-energy", "free-space propagation changes the total intensity (rel %.3g): %s" % (r, desc)))
    if not _rel(np, prop(x, K[0], "obj"), yv, mx) <= 1e-11:
        fails.append(("argform-propagate-two-implementations", "ObjectBase._propagate_array and PtychographyBase._propagate_array differ: " + desc))
    r = _rel(np, prop(yv, Kn[0]), x, mx)
    if not r <= tol:
        fails.append(("argform-propagate-inverse", "propagating by %g A and then by %g A is not the identity (%.3g of max|x|): %s"
                      % (thick[0], -thick[0], r, desc)))
    r = _rel(np, prop(yv, K[1]), prop(x, Ks[0]), mx)
    if not r <= 2e-4 + 8 * 1.2e-7 * phase:
        fails.append(("argform-propagate-additive", "propagating by %g A then %g A differs from propagating by the sum (%.3g): %s"
                      % (thick[0], thick[1], r, desc)))
    oy = prop(y, Kn[0])
    lhs = (yv.astype(np.complex128) * np.conj(y)).sum(axis=(-2, -1))
    rhs = (x.astype(np.complex128) * np.conj(oy)).sum(axis=(-2, -1))
    sc = float((np.abs(x) * np.abs(y)).sum(axis=(-2, -1)).max())
    r = float(np.abs(lhs - rhs).max()) / sc
    if not r <= tol:
        fails.append(("argform-propagate-adjoint", "<P_dz x, y> != <x, P_-dz y> (%.3g of sum|x||y|): %s" % (r, desc)))
    return {"fails": fails, "coq": [], "info": {}}


# ------------------------------------------------------------------------------------------ gather / scatter
def _scatter(E, p):
    np, torch, pu = E.np, E.torch, E.pu
    rng = np.random.default_rng(p["seed"])
    n1, n2 = p["shape"]
    pt = E.pt((n1, n2), 1, 1)
    H, W = int(p["obj"][0]), int(p["obj"][1])
    B = p["batch"]
    idx = rng.integers(0, H * W, size=(B, n1, n2))
    flat = idx.reshape(-1)
    k = max(1, idx.size // 3)
    flat[rng.integers(0, idx.size, size=k)] = flat[rng.integers(0, idx.size, size=k)]      # repeats
    idx = flat.reshape(B, n1, n2)
    vdt = NPDT[p["val_dtype"]]
    cplx = p["val_dtype"] in ("c128", "c64")
    vals = (_c(rng, idx.shape) if cplx else rng.standard_normal(idx.shape)).astype(vdt)
    obj = _c(rng, (1, H, W)).astype(np.complex64 if p["val_dtype"] in ("c64", "f32") else np.complex128)
    single = p["val_dtype"] in ("c64", "f32")
    vshape = {"same": idx.shape, "flat": (idx.size,), "rows": (B, n1 * n2)}[p["val_shape"]]
    ishape = {"same": idx.shape, "flat": (idx.size,), "rows": (B, n1 * n2)}[p["idx_shape"]]
    oshape = {"tuple": (H, W), "list": [H, W], "size": torch.Size((H, W)), "npint": (np.int64(H), np.int64(W))}[p["obj_shape_form"]]
    idx_t = _mk(E, idx.reshape(ishape).astype(p["idx_dtype"]), "torch", p["idx_layout"])
    val_t = _mk(E, vals.reshape(vshape), "torch", p["val_layout"])
    desc = ("ROI %s, object %s given as %s, %d patches, indices %s %s%s, values %s %s%s"
            % ((n1, n2), (H, W), p["obj_shape_form"], B, p["idx_dtype"], ishape, " (non-contiguous)" if p["idx_layout"] != "contig" else "",
               vdt, vshape, " (non-contiguous)" if p["val_layout"] != "contig" else ""))
    fails = []
    with torch.no_grad():
        sc = _n(pu.sum_patches(val_t, idx_t, oshape))
        sb = _n(pu.sum_patches_base(_mk(E, vals.real.reshape(vshape).copy(), "torch", p["val_layout"]), idx_t, oshape))
        patches = _n(pt.obj_model._get_obj_patches(torch.as_tensor(obj), _mk(E, idx.astype(p["idx_dtype"]), "torch", p["idx_layout"])))
    want_g = obj.reshape(1, -1)[:, idx]
    if patches.shape != want_g.shape or not np.array_equal(patches, want_g):
        fails.append(("argform-gather-values", "_get_obj_patches does not return obj_flat[:, indices]: " + desc))
        return {"fails": fails, "coq": [], "info": {}}
    t_sc, t_adj = (5e-6, 2e-5) if single else (1e-13, 1e-12)
    for nm, got, vv in (("sum_patches", sc, vals), ("sum_patches_base", sb, vals.real)):
        ref = np.zeros(H * W, dtype=np.complex128)
        np.add.at(ref, idx.reshape(-1), vv.reshape(-1).astype(np.complex128))
        if got.shape != (H, W) or not _rel(np, got.reshape(-1), ref, float(np.abs(vv).max()) * 4) <= t_sc:
            fails.append(("argform-scatter-index-add", "%s is not the accumulate-with-repeats scatter (np.add.at): %s" % (nm, desc)))
            continue
        lhs = complex((patches[0].astype(np.complex128) * vv).sum())
        rhs = complex((obj[0].astype(np.complex128) * got).sum())
        scale = float(np.abs(patches[0] * vv).sum()) + 1e-300
        if not abs(lhs - rhs) <= t_adj * scale:
            fails.append(("argform-scatter-gather-adjoint", "<gather(obj), v> = %r but <obj, %s(v)> = %r: %s" % (lhs, nm, rhs, desc)))
    return {"fails": fails, "coq": [], "info": {}}


# ------------------------------------------------------------------------------------------ Fourier projection
def _fproj(E, p):
    np, torch = E.np, E.torch
    rng = np.random.default_rng(p["seed"])
    n1, n2 = p["shape"]
    M, B = p["modes"], p["batch"]
    pt = E.pt((n1, n2), M, 1)
    a = rng.uniform(0.05, 2.0, size=(B, n1, n2))
    a[rng.uniform(size=a.shape) < p["zero_frac"]] = 0.0
    a = a.astype("float32" if p["amp_dtype"] == "f32" else "float64")
    psi = _c(rng, (M, B, n1, n2)).astype(np.complex64 if p["wave_dtype"] == "c64" else np.complex128)
    single = p["amp_dtype"] == "f32" or p["wave_dtype"] == "c64"
    desc = "ROI %s, %d mode(s), %d pattern(s), amplitudes %s%s (%d zeros), exit waves %s%s" % (
        (n1, n2), M, B, a.dtype, " (non-contiguous)" if p["amp_layout"] != "contig" else "", int((a == 0).sum()), psi.dtype,
        " (non-contiguous)" if p["wave_layout"] != "contig" else "")
    fails = []
    with torch.no_grad():
        a_t = _mk(E, a, "torch", p["amp_layout"])
        P1_t = pt.fourier_projection(a_t, _mk(E, psi, "torch", p["wave_layout"]))
        P1 = _n(P1_t)
        I = _n(pt.detector_model.forward(P1_t))
        P2 = _n(pt.fourier_projection(a_t, P1_t))
    if P1.shape != psi.shape or not np.all(np.isfinite(np.abs(P1))):
        return {"fails": [("argform-fourier-projection-nonfinite", "fourier_projection returned shape %s / non-finite values: %s"
                           % (P1.shape, desc))], "coq": [], "info": {}}
    a64 = a.astype(np.float64)
    amax = float(a64.max())
    est = np.fft.fftshift(np.sqrt((np.abs(np.fft.fft2(psi.astype(np.complex128), norm="ortho")) ** 2).sum(axis=0)), axes=(-2, -1))
    dom = np.ones_like(a64, dtype=bool) if M == 1 else (est >= 1e-2)
    tol = 3e-5 if single else (1e-11 if M == 1 else 1e-6)
    d = np.abs(I - a64 ** 2)
    if dom.any() and not float(d[dom].max()) <= tol * amax ** 2:
        k = np.unravel_index(int(np.argmax(np.where(dom, d, 0))), a.shape)
        fails.append(("argform-fourier-projection-amplitude", "after fourier_projection the predicted intensity is not the measured one: "
                      "pattern %d pixel (%d, %d): measured %.9g, got %.9g: %s" % (k[0], k[1], k[2], a64[k] ** 2, I[k], desc)))
    r = _rel(np, P2, P1, float(np.abs(P1).max()))
    if not r <= tol:
        fails.append(("argform-fourier-projection-idempotent", "applying fourier_projection twice differs from applying it once by %.3g "
                      "of max|psi'|: %s" % (r, desc)))
    return {"fails": fails, "coq": [], "info": {}}


OPS = {"translate": _translate, "propagate": _propagate, "scatter": _scatter, "fproj": _fproj}


def case_argforms(E, p):
    return OPS[p["op"]](E, p)


# ------------------------------------------------------------------------------------------ generation
def gen_argforms(ctx, shapes_oracle, shapes_toy):
    """every value of every form dimension appears (the lists are cycled with co-prime strides and shuffled per seed);
    shapes, shift values, distances and data are random"""
    r = ctx.rng
    out = []

    def seed():
        return r.randrange(1, 1 << 30)

    def cyc(lst):
        lst = list(lst)
        r.shuffle(lst)
        return lst

    # ---- translate: all 5 x 2 (dtype x backend) combinations at least once
    combos = [(d, b) for d in POS_DTYPES for b in ("numpy", "torch")]
    r.shuffle(combos)
    adts, forms = cyc(ARR_DTYPES), cyc(["single", "stack", "peritem"])
    alay, play = cyc(["contig", "strided", "fortran"]), cyc(["contig", "strided", "fortran"])
    n = ctx.budget(20, 240)
    for i in range(n):
        pdt, be = combos[i % len(combos)]
        sh = r.choice(shapes_oracle)
        P = r.randint(1, 3)
        out.append({"kind": "argforms", "op": "translate", "shape": list(sh), "seed": seed(), "backend": be, "pos_dtype": pdt,
                    "arr_dtype": adts[(i // 2) % 4] if i % 7 else "c128", "form": forms[i % 3], "stack": r.randint(1, 3),
                    "arr_layout": alay[(i // 3) % 3], "pos_layout": play[(i // 2) % 3],
                    "int_shifts": [[r.randint(-8, 8), r.randint(-8, 8)] for _ in range(P)],
                    "frac_shifts": [[round(r.uniform(-6, 6), 3), round(r.uniform(-6, 6), 3)] for _ in range(P)],
                    "second_shifts": [[round(r.uniform(-3, 3), 3), round(r.uniform(-3, 3), 3)] for _ in range(P)],
                    "phase": i < ctx.budget(10, 60) and sh[0] * sh[1] <= 120})
    # ---- propagate
    tforms = cyc(["list", "tuple", "np.float64", "np.float32", "np.int64", "int-list", "torch.float64", "torch.float32", "torch.int64"])
    sforms, wforms = cyc(["tuple", "list", "np", "np32"]), cyc(["single", "batch", "modes"])
    for i in range(ctx.budget(9, 90)):
        tf = tforms[i % len(tforms)]
        integer = "int" in tf
        sh = r.choice(shapes_toy)
        out.append({"kind": "argforms", "op": "propagate", "shape": list(sh), "seed": seed(), "thick_form": tf,
                    "thick": [r.randint(1, 20), r.randint(1, 20)] if integer else [round(r.uniform(0.5, 20.0), 2), round(r.uniform(0.5, 20.0), 2)],
                    "sampling_form": sforms[i % 4], "sampling": [round(r.uniform(0.2, 0.6), 3), round(r.uniform(0.2, 0.6), 3)],
                    "wave_form": wforms[i % 3], "wave_dtype": "c64" if i % 2 else "c128", "layout": "strided" if i % 3 == 1 else "contig",
                    "kernel_dtype": "c128" if i % 4 == 2 else "c64", "energy": r.choice([60e3, 80e3, 200e3, 300e3]),
                    "tilt": [0.0, 0.0] if i % 3 == 0 else [round(r.uniform(-8, 8), 2), round(r.uniform(-8, 8), 2)]})
    # ---- scatter
    vdts, shp = cyc(["c128", "c64", "f64", "f32"]), cyc(["same", "flat", "rows"])
    oforms = cyc(["tuple", "list", "size", "npint"])
    for i in range(ctx.budget(8, 80)):
        sh = r.choice(shapes_toy)
        out.append({"kind": "argforms", "op": "scatter", "shape": list(sh), "seed": seed(), "obj": [sh[0] + r.randint(1, 6), sh[1] + r.randint(1, 6)],
                    "batch": r.randint(1, 4), "idx_dtype": "int64" if i % 2 == 0 else "int32", "val_dtype": vdts[i % 4],
                    "val_shape": shp[i % 3], "idx_shape": shp[(i // 3) % 3] if i % 2 else shp[i % 3], "obj_shape_form": oforms[i % 4],
                    "idx_layout": "strided" if i % 3 == 2 else "contig", "val_layout": "strided" if i % 4 == 1 else "contig"})
    # ---- Fourier projection
    for i in range(ctx.budget(6, 60)):
        sh = r.choice(shapes_toy)
        out.append({"kind": "argforms", "op": "fproj", "shape": list(sh), "seed": seed(), "modes": 1 + i % 3, "batch": 1 + (i // 2) % 3,
                    "amp_dtype": "f32" if i % 2 else "f64", "wave_dtype": "c64" if (i // 2) % 2 else "c128",
                    "amp_layout": "strided" if i % 3 == 1 else "contig", "wave_layout": "strided" if i % 3 == 2 else "contig",
                    "zero_frac": r.choice([0.0, 0.1, 0.3])})
    return out
