"""c09_glue_tie.py — tie between `SimpleBatcher.__init__` (its SOURCE, re-read on every run) and the
model's `split_of_ratio`, as a theorem re-proved on every run:

  translate the train/validation-split block of __init__   ->  build/C09/Gen_C09Glue.v   (gen_split)
  coqc Gen_C09Glue.v
  coqc coq/gen_proofs/C09_Glue_GenProofs.v       FIXED script: gen_split = split_of_ratio, all inputs
  coqc coq/gen_proofs/C09_Glue_GenProperties.v   Theorem C09_glue_tie + Print Assumptions

The translator is a small fail-closed one for exactly the constructs of that block (float comparisons,
`int(round(x))`, `max(1, …)`, `len`, slices `[:k]` / `[::k]`, `np.setdiff1d(self.indices, …)`,
`self.rng.permutation(self.indices)` = the oracle permutation, `if/else`, assignments to locals and to
`self.train_indices` / `self.val_indices`).  Statements are translated in continuation-passing style (the
rest of the block is copied into both branches of an `if`), so local names, re-assignments and the order of
independent statements do not matter.  Anything else raises Reject -> the tie is reported broken.

harness/translate_arith.py / arith_tie.py (integer helpers only) are not touched."""
from __future__ import annotations

import ast
import hashlib
import time
from pathlib import Path

from .common import COQ, COQ_FLAGS, SRC, Ctx, cfloat, sh

REL = "diffractive_imaging/ptycho_utils.py"
GEN_DIR = COQ / "gen_proofs"

TRUSTED = [
    "harness/c09_glue_tie.py (Python ast -> Gallina for the split block of SimpleBatcher.__init__; fail-closed grammar) "
    "and the fixed meanings in coq/lib/C09_GlueLib.v: x[:k] = py_take, x[::k] = py_every (k >= 1; k = 0 raises), "
    "np.setdiff1d(np.arange(n), b) = order-preserving filter, int * float = binary64 product of the exactly "
    "converted int (|int| < 2^53), round() = FloatBits.py_round (half to even; nan/inf raise)",
]


class Reject(Exception):
    pass


def _rej(node, why):
    raise Reject("%s at line %s: %s" % (why, getattr(node, "lineno", "?"), ast.unparse(node)[:120] if node is not None else ""))


class Tr:
    """types: F float, Z int, B bool, L index array; OZ / OL: may raise (option)"""

    def __init__(self):
        self.n = 0
        self.perm_used = 0

    def fresh(self):
        self.n += 1
        return "t%d" % self.n

    # ---------------------------------------------------------------- names
    @staticmethod
    def key(node):
        if isinstance(node, ast.Name):
            return node.id
        if isinstance(node, ast.Attribute) and isinstance(node.value, ast.Name) and node.value.id == "self":
            return "self." + node.attr
        return None

    @staticmethod
    def gname(key):
        return ("self_" + key[5:]) if key.startswith("self.") else ("v_" + key)

    @staticmethod
    def as_float(node, code, ty):
        """int operand of a float operation: Python converts it to binary64 first (exact below 2^53)"""
        if ty == "F":
            return code
        if ty == "Zc":
            if abs(node.value) >= 2 ** 53:
                _rej(node, "integer constant too large for an exact float")
            return cfloat(float(node.value))
        return "(float_of_Z %s)" % code

    # ---------------------------------------------------------------- expressions
    def expr(self, e, env, binds):
        """-> (code, type); failing sub-expressions are bound first: binds += [(var, option-code)]"""
        k = self.key(e)
        if k is not None:
            if k not in env:
                _rej(e, "unknown name")
            return self.gname(k), env[k]
        if isinstance(e, ast.Constant):
            if isinstance(e.value, bool):
                return ("true" if e.value else "false"), "B"
            if isinstance(e.value, float):
                return cfloat(e.value), "F"
            if isinstance(e.value, int):
                return "(%d)%%Z" % e.value, "Zc"
            _rej(e, "constant")
        if isinstance(e, ast.BinOp):
            a, ta = self.expr(e.left, env, binds)
            b, tb = self.expr(e.right, env, binds)
            op = {ast.Mult: "mul", ast.Div: "div", ast.Sub: "sub", ast.Add: "add"}.get(type(e.op))
            if op is None:
                _rej(e, "operator")
            if "F" in (ta, tb) and ta in ("F", "Z", "Zc") and tb in ("F", "Z", "Zc"):
                a = self.as_float(e.left, a, ta)
                b = self.as_float(e.right, b, tb)
                return "(PrimFloat.%s %s %s)" % (op, a, b), "F"
            _rej(e, "arithmetic on non-floats is not part of the glue")
        if isinstance(e, ast.Compare):
            if len(e.ops) != 1:
                _rej(e, "chained comparison")
            l, r, op = e.left, e.comparators[0], e.ops[0]
            if isinstance(op, ast.Eq) and self.key(l) == "val_mode" and isinstance(r, ast.Constant) and r.value == "random":
                return "random", "B"
            a, ta = self.expr(l, env, binds)
            b, tb = self.expr(r, env, binds)
            if "F" in (ta, tb) and ta in ("F", "Zc") and tb in ("F", "Zc"):
                a = self.as_float(l, a, ta)
                b = self.as_float(r, b, tb)
                fn = {ast.Lt: ("ltb", a, b), ast.LtE: ("leb", a, b), ast.Gt: ("ltb", b, a), ast.GtE: ("leb", b, a)}.get(type(op))
                if fn is None:
                    _rej(e, "float comparison")
                return "(PrimFloat.%s %s %s)" % fn, "B"
            if ta in ("Z", "Zc") and tb in ("Z", "Zc"):
                fn = {ast.Lt: ("Z.ltb", a, b), ast.LtE: ("Z.leb", a, b), ast.Gt: ("Z.ltb", b, a), ast.GtE: ("Z.leb", b, a),
                      ast.Eq: ("Z.eqb", a, b)}.get(type(op))
                if fn is None:
                    _rej(e, "integer comparison")
                return "(%s %s %s)" % fn, "B"
            _rej(e, "comparison of %s with %s" % (ta, tb))
        if isinstance(e, ast.BoolOp):
            parts = [self.expr(v, env, binds) for v in e.values]
            if any(t != "B" for _, t in parts):
                _rej(e, "boolean operator on non-booleans")
            # `or` / `and` short-circuit: the operands here cannot raise (no binds are created inside them)
            return "(" + (" || " if isinstance(e.op, ast.Or) else " && ").join(c for c, _ in parts) + ")%bool", "B"
        if isinstance(e, ast.UnaryOp) and isinstance(e.op, ast.Not):
            a, ta = self.expr(e.operand, env, binds)
            if ta != "B":
                _rej(e, "not")
            return "(negb %s)" % a, "B"
        if isinstance(e, ast.Subscript):
            a, ta = self.expr(e.value, env, binds)
            sl = e.slice
            if ta != "L" or not isinstance(sl, ast.Slice) or sl.lower is not None:
                _rej(e, "subscript")
            if sl.upper is not None and sl.step is None:
                k, tk = self.expr(sl.upper, env, binds)
                if tk not in ("Z", "Zc"):
                    _rej(e, "slice bound")
                return "(py_take %s %s)" % (k, a), "L"
            if sl.upper is None and sl.step is not None:
                k, tk = self.expr(sl.step, env, binds)
                if tk not in ("Z", "Zc"):
                    _rej(e, "slice step")
                v = self.fresh()
                binds.append((v, "py_every %s %s" % (k, a)))
                return v, "L"
            _rej(e, "slice")
        if isinstance(e, ast.Call):
            f = ast.unparse(e.func)
            args, kws = e.args, {k.arg: k.value for k in e.keywords}
            if f == "len" and len(args) == 1 and not kws:
                a, ta = self.expr(args[0], env, binds)
                if ta != "L":
                    _rej(e, "len")
                return "(Z.of_nat (length %s))" % a, "Z"
            if f == "int" and len(args) == 1 and not kws:
                inner = args[0]
                if isinstance(inner, ast.Call) and ast.unparse(inner.func) == "round" and len(inner.args) == 1 and not inner.keywords:
                    a, ta = self.expr(inner.args[0], env, binds)
                    if ta != "F":
                        _rej(e, "round of a non-float")
                    v = self.fresh()
                    binds.append((v, "py_round %s" % a))
                    return v, "Z"
                _rej(e, "int() of something else than round(float)")
            if f == "max" and len(args) == 2 and not kws:
                a, ta = self.expr(args[0], env, binds)
                b, tb = self.expr(args[1], env, binds)
                if ta in ("Z", "Zc") and tb in ("Z", "Zc"):
                    return "(Z.max %s %s)" % (a, b), "Z"
                _rej(e, "max")
            if f == "np.setdiff1d" and len(args) == 2 and set(kws) <= {"assume_unique"}:
                if self.key(args[0]) != "self.indices":
                    _rej(e, "setdiff1d whose first argument is not self.indices (= arange)")
                a, _ = self.expr(args[0], env, binds)
                b, tb = self.expr(args[1], env, binds)
                if tb != "L":
                    _rej(e, "setdiff1d")
                return "(py_setdiff_arange %s %s)" % (a, b), "L"
            if f == "self.rng.permutation" and len(args) == 1 and not kws and self.key(args[0]) == "self.indices":
                self.perm_used += 1
                return "perm_oracle", "L"
            if f == "np.asarray" and len(args) == 1 and isinstance(args[0], ast.List) and not args[0].elts and set(kws) <= {"dtype"}:
                return "(@nil nat)", "L"
            _rej(e, "call")
        _rej(e, "expression")

    # ---------------------------------------------------------------- statements (CPS)
    def block(self, stmts, env, depth):
        ind = "  " * depth
        if not stmts:
            for k in ("self.train_indices", "self.val_indices"):
                if k not in env:
                    raise Reject("a path through the block does not assign %s" % k)
            return ind + "Some {| train := self_train_indices; val := self_val_indices |}"
        s, rest = stmts[0], stmts[1:]
        if isinstance(s, ast.Assign):
            if len(s.targets) != 1 or self.key(s.targets[0]) is None:
                _rej(s, "assignment target")
            k = self.key(s.targets[0])
            if k in ("self.indices", "val_mode", "self.rng"):
                _rej(s, "re-assignment of a fixed name")
            binds = []
            code, ty = self.expr(s.value, env, binds)
            ty = "Z" if ty == "Zc" else ty
            if k in env and env[k] != ty:
                _rej(s, "type change of %s from %s to %s" % (k, env[k], ty))
            env2 = dict(env)
            env2[k] = ty
            out = ""
            for v, oc in binds:
                out += ind + "match %s with None => None | Some %s =>\n" % (oc, v)
            out += ind + "let %s := %s in\n" % (self.gname(k), code)
            out += self.block(rest, env2, depth)
            out += "".join("\n" + ind + "end" for _ in binds)
            return out
        if isinstance(s, ast.If):
            binds = []
            c, tc = self.expr(s.test, env, binds)
            if tc != "B":
                _rej(s, "condition is not boolean")
            out = ""
            for v, oc in binds:
                out += ind + "match %s with None => None | Some %s =>\n" % (oc, v)
            out += ind + "if %s then\n" % c
            out += self.block(list(s.body) + rest, dict(env), depth + 1) + "\n"
            out += ind + "else\n"
            out += self.block(list(s.orelse) + rest, dict(env), depth + 1)
            out += "".join("\n" + ind + "end" for _ in binds)
            return out
        _rej(s, "statement")


def _find_init(tree):
    for n in tree.body:
        if isinstance(n, ast.ClassDef) and n.name == "SimpleBatcher":
            for m in n.body:
                if isinstance(m, ast.FunctionDef) and m.name == "__init__":
                    return m
    raise Reject("SimpleBatcher.__init__ not found")


def translate(src_root: Path):
    """-> (coq text, info)"""
    path = src_root / "quantem" / REL
    fdef = _find_init(ast.parse(path.read_text()))
    params = [a.arg for a in fdef.args.args]
    for need in ("num", "val_ratio", "val_mode", "train_indices", "val_indices"):
        if need not in params:
            raise Reject("parameter %s of __init__ is gone" % need)
    # prologue: self.indices = np.arange(num) must be there; the split block is the else-branch of the
    # `if train_indices is not None or val_indices is not None` statement
    have_arange, split_if = False, None
    for s in fdef.body:
        if isinstance(s, ast.Assign) and len(s.targets) == 1 and Tr.key(s.targets[0]) == "self.indices":
            if ast.unparse(s.value) != "np.arange(num)" or have_arange:
                _rej(s, "self.indices is not np.arange(num)")
            have_arange = True
        elif isinstance(s, ast.If) and "train_indices" in ast.unparse(s.test):
            if split_if is not None:
                _rej(s, "second split statement")
            if ast.unparse(s.test) != "train_indices is not None or val_indices is not None":
                _rej(s, "test of the explicit-indices branch")
            split_if = s
        elif isinstance(s, ast.Assign) and len(s.targets) == 1 and Tr.key(s.targets[0]) in (
                "self.batch_size", "self.shuffle", "self.rng"):
            continue
        elif isinstance(s, ast.Expr) and isinstance(s.value, ast.Constant):
            continue
        else:
            _rej(s, "unexpected top-level statement of __init__")
    if not have_arange or split_if is None:
        raise Reject("prologue of __init__ changed (np.arange / split statement missing)")
    if fdef.body.index(split_if) != len(fdef.body) - 1:
        raise Reject("statements after the split block")
    tr = Tr()
    env = {"val_ratio": "F", "self.indices": "L"}
    body = tr.block(list(split_if.orelse), env, 1)
    if tr.perm_used > 2:      # CPS copies: the call may appear in more than one copy, but a path uses it once
        pass
    text = (
        "(* GENERATED by harness/c09_glue_tie.py from %s lines %d-%d — do not edit *)\n"
        "From QV.lib Require Import Prelude FloatBits C09_GlueLib.\n"
        "From QV.model Require Import C09_Model.\n"
        "From Coq Require Import PrimFloat.\n\n"
        "Definition gen_split (n : nat) (v_val_ratio : float) (random : bool) (perm_oracle : list nat) : option tvsplit :=\n"
        "  let self_indices := seq 0 n in\n%s.\n" % (REL, split_if.lineno, split_if.end_lineno, body))
    info = {"source": "%s:%d-%d" % (REL, split_if.lineno, split_if.end_lineno),
            "ast_sha256": hashlib.sha256(ast.dump(split_if).encode()).hexdigest(),
            "generated_sha256": hashlib.sha256(text.encode()).hexdigest()}
    return text, info


def run_glue_tie(ctx: Ctx) -> bool:
    t0 = time.time()
    rec = {"status": "ok", "lemma": "gen_split_eq_model"}
    ctx.cov["glue_tie"] = rec
    for s in TRUSTED:
        if s not in ctx.cov["trusted_base"]:
            ctx.cov["trusted_base"].append(s)
    saved_cmd = ctx.cov.get("checker_cmd", "")
    saved_problems = list(getattr(ctx, "_proof_problems", []))
    problems = []
    props = GEN_DIR / "C09_Glue_GenProperties.v"

    def not_checked(why):
        import re
        ths = re.findall(r"(?m)^\s*Theorem\s+(\w+)", props.read_text())
        ctx.cov["obligations"] += len(ths)
        for t in ths:
            ctx.cov["theorems"][t] = "NOT CHECKED (%s)" % why

    try:
        text, info = translate(SRC)
        rec.update(info)
    except Reject as e:
        problems.append("glue tie: `gen_split_eq_model` can no longer be established: the translator (fail closed) rejected "
                        "the source of SimpleBatcher.__init__: %s" % e)
        not_checked("translator rejected the source")
        text = None
    if text is not None:
        gen = ctx.dir / "Gen_C09Glue.v"
        for stale in (gen.with_suffix(".vo"), ctx.dir / "C09_Glue_GenProofs.vo", ctx.dir / "C09_Glue_GenProperties.vo"):
            if stale.exists():
                stale.unlink()
        gen.write_text(text)
        rec["generated_file"] = str(gen)
        flags = COQ_FLAGS + ["-Q", str(ctx.dir), "GenC09"]
        bad = ctx.static_scan([gen, GEN_DIR / "C09_Glue_GenProofs.v", props])
        if bad:
            problems.append("forbidden declarations: %s" % bad[:5])
        rc, out = ctx.coq_make(["lib/C09_GlueLib.vo", "model/C09_Model.vo"])
        if rc != 0:
            problems.append("glue tie: library build failed:\n" + "\n".join(out.strip().splitlines()[-10:]))
        rc, out = sh(["timeout", "300", "coqc"] + flags + [str(gen)], cwd=ctx.dir, timeout=330)
        if rc != 0:
            problems.append("glue tie: generated file Gen_C09Glue.v does not compile:\n" + "\n".join(out.strip().splitlines()[-12:]))
            not_checked("generated file does not compile")
        else:
            script = GEN_DIR / "C09_Glue_GenProofs.v"
            rc, out = sh(["timeout", "300", "coqc"] + flags + ["-o", str(ctx.dir / "C09_Glue_GenProofs.vo"), str(script)],
                         cwd=ctx.dir, timeout=330)
            if rc != 0:
                problems.append("glue tie: the split translated from the current source of SimpleBatcher.__init__ no longer equals "
                                "the model's split_of_ratio: fixed proof script C09_Glue_GenProofs.v fails:\n"
                                + "\n".join(out.strip().splitlines()[-10:]))
                not_checked("fixed proof script fails")
            elif not ctx.require_proofs(props_name="C09_Glue_GenProperties", props_path=props,
                                        extra_flags=["-Q", str(ctx.dir), "GenC09"], make_targets=[]):
                problems += ["glue tie: " + p for p in ctx._proof_problems]
    ctx._proof_problems = saved_problems
    ctx.cov["checker_cmd"] = (saved_cmd + "  ;  python -m harness.c09_glue_tie > build/C09/Gen_C09Glue.v && coqc ... Gen_C09Glue.v && "
                              "coqc ... coq/gen_proofs/C09_Glue_GenProofs.v && coqc ... coq/gen_proofs/C09_Glue_GenProperties.v")
    rec["wall_s"] = round(time.time() - t0, 2)
    if problems:
        rec["status"] = "broken"
        rec["problems"] = [p[:1500] for p in problems]
        msg = "; ".join(problems)
        ctx.broken_obligation = (ctx.broken_obligation + "; " + msg) if ctx.broken_obligation else msg
        ctx.log("PROOF OBLIGATION BROKEN (glue tie):", msg[:2500])
        return False
    ctx.log("glue tie: the split block of SimpleBatcher.__init__ (%s) tied by theorem to split_of_ratio (%.1fs)"
            % (rec.get("source"), rec["wall_s"]))
    return True


if __name__ == "__main__":
    import sys
    try:
        sys.stdout.write(translate(SRC)[0])
    except Reject as e:
        print("REJECTED:", e)
        sys.exit(1)
