"""C09 round-3 extension (owned by C09): checks on the REAL library that go beyond
harness/toy_ptycho.c09_recon_checks.

  rng_mixin_check      RNGMixin (core/utils/rng.py) against the state machine of coq/model/C09_Model_Ext.v,
                       observables compared after EVERY operation
  recon_schedule_check the mini-batch schedule INSIDE Ptychography.reconstruct (indices handed to
                       error_estimate in the training / validation passes, optimiser steps, iter_losses,
                       iter_val_losses): the property text as oracle + the model's recon_schedule driven by a
                       reference numpy generator seeded like the object (rng draws tied exactly)
  loss_tie_check       per-batch losses at fixed parameters for EVERY batch size against the model's
                       batch_loss / mean_over_batches on exact rationals (per step, not only at the end),
                       mean-of-batches oracle for all five loss types (complex gradients compared as complex)
  determinism_checks   same seed (int / fresh Generator), several resets in a row, reconstruct(reset=True)
                       with a changed batch size, validation losses, batch sizes 1 / non-dividing / > n,
                       all loss types, none / grid / inverted grid / random splits
  reset_fields_check   every field the model's reset_recon assigns, compared with a fresh object
  soft_constraint_check  batch invariance of the reported epoch loss and of the accumulated gradient with NON-ZERO
                       soft-constraint weights (object tv_weight_xy / tv_weight_z / surface_zero_weight, probe
                       tv_weight, dataset descan_tv_weight, all together) on a state reached by real iterations
                       (non-flat object, moved descan shifts); epoch loss against the model's
                       mean_over_reg_batches (additive regulariser) on exact rationals

Every function returns [(key, what, replay, found_input)] and updates ctx coverage."""
from __future__ import annotations

import copy
import gc
import re
from fractions import Fraction

import numpy as np

from .common import cbool, cfloat, cnat, cnl, cq, cz

LOSS_TYPES = ["l2_amplitude", "l1_amplitude", "l2_intensity", "l1_intensity", "poisson"]

PRE = """From QV.lib Require Import Prelude Chunks FloatBits.
From QV.model Require Import C09_Model C09_Model_Ext C09_Model_Reg.
From Coq Require Import QArith PrimFloat.
Local Close Scope Q_scope.
Definition qpair (q : Q) := let r := Qred q in (Qnum r, Zpos (Qden r)).
Definition qbatches (N : nat) (bs : list (list Q)) :=
  (map (fun c => qpair (batch_loss N 1 c)) bs, qpair (mean_over_batches N 1 bs)).
(* round 7: epoch loss with an additive regulariser r (soft constraints) *)
Definition qreg (N : nat) (r : Q) (bs : list (list Q)) := qpair (mean_over_reg_batches N 1 r bs).
"""

_frozen = False


def setup():
    """tiny arrays: one torch thread (16 threads on a loaded machine cost 100x); the heap that exists
    after the imports is moved out of the cyclic collector's reach (reconstruct calls gc.collect twice)"""
    global _frozen
    import torch
    torch.set_num_threads(1)
    if not _frozen:
        gc.collect()
        gc.freeze()
        _frozen = True


def _rel(a, b):
    a = np.asarray(a)
    b = np.asarray(b)
    if a.size == 0:
        return 0.0
    return float(np.abs(a - b).max() / max(1e-30, np.abs(b).max()))


# ----------------------------------------------------------------------------------------------
# RNGMixin


def _carg(a):
    k = a[0]
    if k == "none":
        return "ArgNone"
    if k == "int":
        return "(ArgInt %s)" % cz(a[1])
    if k == "gen":
        return "(ArgGen %s %s)" % (cz(a[1]), cnl(a[2]))
    if k == "torch":
        return "(ArgTorch %s)" % cz(a[1])
    raise KeyError(k)


def _cop(o):
    k = o[0]
    if k == "set":
        return "(OSet %s)" % _carg(o[1])
    if k == "np":
        return "(ONp %s)" % cnat(o[1])
    if k == "torch":
        return "(OTorch %s)" % cnat(o[1])
    if k == "reset":
        return "OReset"
    if k == "todev":
        return "(OToDev %s)" % cnat(o[1])
    raise KeyError(k)


def _mk_arg(a):
    import torch
    k = a[0]
    if k == "none":
        return None
    if k == "int":
        return a[1]
    if k == "gen":
        g = np.random.default_rng(a[1])
        for d in a[2]:
            g.permutation(d)
        return g
    if k == "torch":
        return torch.Generator().manual_seed(a[1])
    raise KeyError(k)


def _gen_arg(r):
    k = r.random()
    if k < 0.15:
        return ("none",)
    seed = r.choice([r.randrange(0, 50), r.randrange(0, 1 << 32), r.randrange(1 << 32, 1 << 40), 0, (1 << 32) + 7])
    if k < 0.55:
        return ("int", seed)
    if k < 0.85:
        return ("gen", seed, [r.randint(1, 20) for _ in range(r.choice([0, 0, 1, 3]))])
    return ("torch", seed)


def _gen_ops(r, n):
    ops = []
    for _ in range(n):
        k = r.random()
        if k < 0.35:
            ops.append(("np", r.randint(1, 30)))
        elif k < 0.6:
            ops.append(("torch", r.randint(1, 8)))
        elif k < 0.8:
            ops.append(("reset",))
        elif k < 0.9:
            ops.append(("todev", 0))          # only the cpu exists here: label 0
        else:
            ops.append(("set", _gen_arg(r)))
    return ops


def run_rng_case(case):
    """drive a real RNGMixin; after every operation record the observables the model predicts:
    _rng_seed, numpy bit-generator state, torch generator state (as bytes)"""
    from quantem.core.utils.rng import RNGMixin
    import torch
    arg0, ops = case
    obj = RNGMixin(rng=_mk_arg(arg0), device="cpu")
    os_refs = {}          # token -> copy of the OS-seeded generator state right after its creation

    def snap(tok):
        if obj._rng_seed is None and tok is not None:
            os_refs[tok] = dict(obj.rng.bit_generator.state)
        return {"seed": obj._rng_seed, "np": obj.rng.bit_generator.state,
                "torch": bytes(obj._rng_torch.get_state().numpy().tobytes()), "dev": str(obj._device)}

    out = [snap(0 if arg0[0] == "none" else None)]
    for i, o in enumerate(ops, 1):
        tok = None
        if o[0] == "set":
            obj.rng = _mk_arg(o[1])
            tok = i if o[1][0] == "none" else None
        elif o[0] == "np":
            obj.rng.permutation(o[1])
        elif o[0] == "torch":
            torch.rand(o[1], generator=obj._rng_torch)
        elif o[0] == "reset":
            obj._reset_rng()
        elif o[0] == "todev":
            obj._rng_to_device("cpu")
        out.append(snap(tok))
    return out, os_refs


def _expect_from_model(v, os_refs):
    """model state (seed, (kind, stream), np hist, torch seed, torch hist, dev) -> the observables a real
    generator in that state shows: the histories are replayed on reference generators"""
    import torch
    sd, (kind, stream), nph, tsd, th, dev = v
    sd = None if sd is None else sd[1]
    tsd = None if tsd is None else tsd[1]
    if kind == 0:
        g = np.random.default_rng(stream)
    else:
        g = np.random.default_rng(0)
        if stream not in os_refs:
            return None
        g.bit_generator.state = os_refs[stream]
    for d in nph:
        g.permutation(d)
    tg = torch.Generator() if tsd is None else torch.Generator().manual_seed(tsd)
    for d in th:
        torch.rand(d, generator=tg)
    return {"seed": sd, "np": g.bit_generator.state, "torch": bytes(tg.get_state().numpy().tobytes())}


def rng_mixin_check(ctx):
    setup()
    r = ctx.rng
    out = []
    cases = [
        (("int", 7), [("np", 12), ("torch", 3), ("reset",), ("np", 12)]),
        (("int", (1 << 32) + 7), [("torch", 2), ("todev", 0), ("torch", 2), ("np", 4), ("reset",)]),
        (("gen", 11, [5]), [("np", 6), ("reset",), ("np", 6)]),          # pre-advanced Generator
        (("gen", 11, []), [("np", 6), ("reset",), ("np", 6)]),
        (("none",), [("np", 3), ("reset",), ("np", 3), ("torch", 2), ("todev", 0)]),
        (("torch", 123456789012), [("np", 3), ("torch", 1), ("reset",)]),
        (("int", 0), [("set", ("none",)), ("np", 2), ("reset",), ("set", ("int", 5)), ("np", 2), ("reset",)]),
    ]
    for _ in range(ctx.budget(40, 400)):
        cases.append((_gen_arg(r), _gen_ops(r, r.randint(1, 9))))
    exprs, obs_all = [], []
    for arg0, ops in cases:
        obs, os_refs = run_rng_case((arg0, ops))
        obs_all.append((obs, os_refs))
        exprs.append("(show_rng (init_rng 0 0 %s) :: map show_rng (trace_rng 1 [%s] (init_rng 0 0 %s)))" % (
            _carg(arg0), "; ".join(_cop(o) for o in ops), _carg(arg0)))
    vals = ctx.coq_eval("rngmixin", PRE, exprs, shard=60)
    nd = 0
    for (arg0, ops), (obs, os_refs), v in zip(cases, obs_all, vals):
        ctx.count(("rng", repr(arg0), repr(ops)), nontrivial=any(o[0] == "reset" for o in ops) and any(o[0] in ("np", "torch") for o in ops))
        ctx.dist("rng/arg=%s" % arg0[0])
        ctx.cov["traces_validated_against_impl"] += 1
        bad = None
        if len(v) != len(obs):
            bad = "trace lengths differ"
        else:
            for step, (mv, ob) in enumerate(zip(v, obs)):
                ex = _expect_from_model(mv, os_refs)
                if ex is None:
                    bad = "step %d: the model names an OS-seeded stream the implementation never created" % step
                    break
                for k in ("seed", "np", "torch"):
                    if ex[k] != ob[k]:
                        bad = "step %d (%s): %s differs (model %r)" % (
                            step, "init" if step == 0 else ops[step - 1], k, mv)
                        break
                if bad:
                    break
        # oracle (property text): after a reset with a seed the numpy generator is the freshly seeded one
        oracle_bad = None
        for step, o in enumerate(ops, 1):
            if o[0] == "reset" and obs[step]["seed"] is not None and isinstance(obs[step]["seed"], int):
                ref = np.random.default_rng(obs[step]["seed"]).bit_generator.state
                if obs[step]["np"] != ref:
                    oracle_bad = "after _reset_rng (op %d) the numpy generator is not default_rng(%d)" % (step, obs[step]["seed"])
        if oracle_bad:
            out.append(("rng-reset-oracle", oracle_bad, {"kind": "rng", "arg": list(arg0), "ops": [list(o) for o in ops]}, True))
        if bad:
            nd += 1
            ctx.cov["disagreements_checked"] += 1
            out.append(("rng-correspondence",
                        "RNGMixin and the model's rng state machine disagree: %s; arg=%r ops=%r" % (bad, arg0, ops),
                        {"kind": "rng", "arg": list(arg0), "ops": [list(o) for o in ops]}, oracle_bad is not None))
    ctx.log("rng mixin: %d op sequences (every step compared), %d disagreements" % (len(cases), nd))
    return out


# ----------------------------------------------------------------------------------------------
# recording what reconstruct() does


class Recorder:
    """instance-level wrappers (removed by close()): the indices handed to error_estimate in the
    training pass (grad enabled) and the validation pass (no_grad), the per-batch loss values, the
    optimiser steps per epoch; freeze=True replaces the optimiser step by nothing (fixed parameters)"""

    def __init__(self, pt, freeze=False):
        import torch
        self.pt = pt
        self.epochs = []
        self._new()
        ee = pt.error_estimate
        ri = pt._record_iter
        so = pt.step_optimizers

        def error_estimate(pred, batch_indices, loss_type="l2_amplitude"):
            res = ee(pred, batch_indices, loss_type=loss_type)
            rec = (np.asarray(batch_indices).tolist(), float(res[0].detach()))
            (self.cur["train"] if torch.is_grad_enabled() else self.cur["val"]).append(rec)
            return res

        def record_iter(loss):
            ri(loss)
            self.epochs.append(self.cur)
            self._new()

        def step_optimizers():
            self.cur["steps"] += 1
            if not freeze:
                so()

        pt.error_estimate = error_estimate
        pt._record_iter = record_iter
        pt.step_optimizers = step_optimizers

    def _new(self):
        self.cur = {"train": [], "val": [], "steps": 0}

    def close(self):
        for nm in ("error_estimate", "_record_iter", "step_optimizers"):
            if nm in vars(self.pt):
                delattr(self.pt, nm)


def _build(scan, seed, rng=None, val_ratio=0.0, val_mode=None):
    from . import toy_ptycho as tp
    return tp.build_toy(seed=seed % 97, scan=scan, rng_seed=seed if rng is None else rng,
                        val_ratio=val_ratio, val_mode=val_mode)


# optimiser settings of the determinism / reset runs: pixelated object + probe only (their reset() makes NEW
# parameters), and settings that also optimise the DATASET model (learned scan positions / descan shifts: its
# reset() restores the parameters IN PLACE), with stateful optimisers (Adam moments, SGD momentum buffers)
OPT_POOL = [
    ("object+probe adam", None),
    ("object+probe+dataset adam", {"object": {"type": "adam", "lr": 1e-2}, "probe": {"type": "adam", "lr": 1e-3},
                                   "dataset": {"type": "adam", "lr": 2e-2}}),
    ("sgd-momentum / adamw / dataset sgd-momentum",
     {"object": {"type": "sgd", "lr": 5e-2, "momentum": 0.9}, "probe": {"type": "adamw", "lr": 1e-3},
      "dataset": {"type": "sgd", "lr": 1e-2, "momentum": 0.9}}),
    ("object adamw + dataset adamw", {"object": {"type": "adamw", "lr": 1e-2}, "dataset": {"type": "adamw", "lr": 1e-2}}),
]


# learning-rate SCHEDULER settings of the determinism / reset runs (round 8): every scheduler type the library offers
# ("exp"/"gamma", "linear", "cyclic", "plateau", "none"), each in the form whose shape is derived from the run
# (`num_iters`, or the optimiser's learning rate) and in the form with explicit numbers; one form per MODEL (object /
# probe / dataset get different ones in one run), dealt from a shuffled deck so that a quick run sees every form.
# (name, maker(rng) -> the model's scheduler dictionary | None = no entry for the model)
SCHED_FORMS = [
    ("exp-factor", lambda r: {"type": "exp", "factor": r.choice([0.01, 0.05, 0.3])}),       # gamma = factor**(1/num_iters)
    ("exp-default", lambda r: {"type": r.choice(["exp", "gamma"])}),                          # factor 0.01 over num_iters
    ("exp-gamma", lambda r: {"type": r.choice(["exp", "gamma"]), "gamma": r.choice([0.5, 0.7, 0.95])}),
    ("linear-horizon", lambda r: r.choice([{"type": "linear"}, {"type": "linear", "start_factor": 0.3}])),  # total_iters = num_iters
    ("linear-explicit", lambda r: {"type": "linear", "total_iters": r.choice([1, 2, 4]), "start_factor": r.choice([0.25, 0.5])}),
    ("cyclic-default", lambda r: {"type": "cyclic", "step_size_up": r.choice([1, 2])}),       # base / max lr from the optimiser's lr
    ("cyclic-explicit", lambda r: {"type": "cyclic", "base_lr": 1e-3, "max_lr": r.choice([5e-3, 2e-2]), "step_size_up": 1,
                                   "step_size_down": 2, "mode": r.choice(["triangular", "triangular2"])}),
    ("plateau-default", lambda r: {"type": "plateau"}),
    ("plateau-explicit", lambda r: {"type": "plateau", "patience": 0, "cooldown": 0, "factor": 0.5, "threshold": 0.9}),
    ("none", lambda r: {"type": "none"}),
    ("absent", lambda r: None),
]
# the ways a run is repeated "after a reset" (the object keeps optimiser / scheduler parameters: handing them over
# again is optional)
WAY_ALL = "reconstruct(reset=True, optimizer_params, scheduler_params)"
WAY_NONE = "reconstruct(reset=True)"
WAY_OPT = "reconstruct(reset=True, optimizer_params)"
WAY_SCHED = "reconstruct(reset=True, scheduler_params)"
WAY_RR = "reset_recon(); reconstruct()"
WAY_RR_ALL = "reset_recon(); reconstruct(optimizer_params, scheduler_params)"
WAYS_STRAY = [WAY_RR, WAY_SCHED, WAY_RR_ALL, WAY_OPT]      # after the stray reset_recon() calls, cycled


def _deal_sched(r, deck, models):
    """one scheduler form per model, from the deck (refilled with a fresh shuffle when empty)"""
    forms, sched = {}, {}
    for m in models:
        if not deck:
            deck.extend(r.sample(SCHED_FORMS, len(SCHED_FORMS)))
        name, mk = deck.pop()
        forms[m] = name
        d = mk(r)
        if d is not None:
            sched[m] = d
    return forms, sched


def _kw(b, lt, opt=None, sched=None):
    from . import toy_ptycho as tp
    kw = dict(optimizer_params=tp.OPT if opt is None else opt, batch_size=b, constraints=tp.NO_ORTHO, loss_type=lt)
    if sched:
        kw["scheduler_params"] = copy.deepcopy(sched)       # the setter completes the dictionary it is given
    return kw


def _hist(pt):
    return [float(x) for x in pt._iter_losses], [float(x) for x in pt._iter_val_losses]


def _hist3(pt):
    return _hist(pt) + ({k: [float(x) for x in v] for k, v in pt._iter_lrs.items()},)


def _apply_way(B, way, iters, b, lt, opt, sched):
    """repeat the run on B after a reset performed in the given way"""
    full = _kw(b, lt, opt, sched)
    bare = {k: v for k, v in full.items() if k not in ("optimizer_params", "scheduler_params")}
    if way in (WAY_RR, WAY_RR_ALL):
        B.reset_recon()
        B.reconstruct(num_iters=iters, **(bare if way == WAY_RR else full))
    elif way == WAY_ALL:
        B.reconstruct(num_iters=iters, reset=True, **full)
    elif way == WAY_NONE:
        B.reconstruct(num_iters=iters, reset=True, **bare)
    elif way == WAY_OPT:
        B.reconstruct(num_iters=iters, reset=True, **{k: v for k, v in full.items() if k != "scheduler_params"})
    elif way == WAY_SCHED:
        B.reconstruct(num_iters=iters, reset=True, **{k: v for k, v in full.items() if k != "optimizer_params"})
    else:
        raise KeyError(way)


LR_TOL = 1e-9


def _cmp_hist(ref, got, iters, tol=1e-6):
    """fresh run `ref` against the run after the reset `got` (losses, validation losses, lr histories):
    (losses_differ, [models whose learning-rate history differs])"""
    (la, va, ra), (lc, vc, rc) = ref, got
    loss_bad = len(lc) != iters or len(la) != len(lc) or _rel(la, lc) > tol or len(vc) != len(va) or _rel(va, vc) > tol
    lr_bad = [m for m in sorted(set(ra) | set(rc))
              if m not in ra or m not in rc or len(ra[m]) != len(rc[m]) or _rel(rc[m], ra[m]) > LR_TOL]
    return loss_bad, lr_bad


def _way_case(rp, sched=None):
    """one (configuration, scheduler settings, way) on NEW objects: the fresh run, then on a second object the run,
    `run_on` further iterations, the reset in the given way and the run again.  Returns (problem | None, ref, got):
    problem = ("raises", text) | ("differs", losses_differ, lr_models)"""
    sched = rp["sched"] if sched is None else sched
    opt = dict(OPT_POOL)[rp["optimisers"]]
    scan, iters, b, lt = tuple(rp["scan"]), rp["iters"], rp["batch"], rp["loss_type"]
    b_first = rp.get("batch_first", b)

    def fresh():
        return _build(scan, rp["seed"], val_ratio=rp["val_ratio"], val_mode=rp["val_mode"])

    A = fresh()
    A.reconstruct(num_iters=iters, **_kw(b, lt, opt, sched))
    ref = _hist3(A)
    B = fresh()
    B.reconstruct(num_iters=iters, **_kw(b_first, lt, opt, sched))
    try:
        if rp.get("run_on"):
            B.reconstruct(num_iters=rp["run_on"], **{**_kw(b_first, lt, opt), "optimizer_params": None})
        _apply_way(B, rp["way"], iters, b, lt, opt, sched)
    except Exception as e:  # noqa
        return ("raises", "%s: %s" % (type(e).__name__, e)), ref, None
    got = _hist3(B)
    loss_bad, lr_bad = _cmp_hist(ref, got, iters)
    return (("differs", loss_bad, lr_bad) if loss_bad or lr_bad else None), ref, got


def _sched_reports(rp, forms, problem, ref, got, base_key):
    """classify a failed repeat-after-reset: one report per model whose learning-rate history differs (key = way x
    scheduler form of that model); a run that raises is isolated to the model(s) whose scheduler alone reproduces it;
    loss histories that differ under identical learning rates keep the plain key"""
    way, out = rp["way"], []
    wkey = re.sub(r"[^a-z_=]+", "-", way.lower()).strip("-")
    if problem[0] == "raises":
        culprits = []
        for m in rp["sched"]:
            p1, _, _ = _way_case(rp, {m: rp["sched"][m]})
            if p1 is not None:
                culprits.append(m)
        for m in culprits:
            out.append(("toy-reset-scheduler/%s/%s" % (wkey, forms[m]),
                        "the run repeated after a reset [%s] raises %s with the %s scheduler %s (alone) — the fresh run from "
                        "the same seed gave losses %s" % (way, problem[1], m, rp["sched"][m], ref[0]),
                        dict(rp, sched={m: rp["sched"][m]}, forms={m: forms[m]}), True))
        if not culprits:
            out.append(("toy-reset-raises", "the run repeated after a reset [%s] raises %s (schedulers %s); the fresh run gave "
                        "losses %s" % (way, problem[1], rp["sched"], ref[0]), rp, True))
        return out
    _, loss_bad, lr_bad = problem
    for m in lr_bad:
        out.append(("toy-reset-scheduler/%s/%s" % (wkey, forms.get(m, "absent")),
                    "after a reset [%s] the %s learning-rate history is %s, in the fresh run from the same seed %s (scheduler %s, "
                    "%d iterations); losses after the reset %s / validation %s, fresh run %s / %s" % (
                        way, m, got[2].get(m), ref[2].get(m), rp["sched"].get(m), rp["iters"], got[0], got[1], ref[0], ref[1]),
                    rp, bool(loss_bad)))
    if loss_bad and not lr_bad:
        out.append((base_key, "the run repeated after a reset [%s] gives losses %s / validation %s, the fresh run from the same "
                    "seed gave %s / %s (learning-rate histories agree; schedulers %s)" % (way, got[0], got[1], ref[0], ref[1], rp["sched"]),
                    rp, True))
    return out


def replay_sched(rp):
    """re-run one (configuration, scheduler settings, way of resetting) exactly"""
    setup()
    problem, ref, got = _way_case(rp)
    print("way:", rp["way"], " schedulers:", rp["sched"])
    print("fresh run      : losses %s  lrs %s" % (ref[0], ref[2]))
    if got is not None:
        print("after the reset: losses %s  lrs %s" % (got[0], got[2]))
    if problem is None:
        return []
    return _sched_reports(rp, rp.get("forms", {}), problem, ref, got, "toy-reset-determinism")


def _split_configs(r, quick):
    allc = [(0.0, None), (0.25, "grid"), (0.3, "random"), (0.6, "grid"), (0.5, "random"), (0.75, "random"), (0.1, "grid")]
    if not quick:
        return allc
    return [(0.0, None), r.choice([(0.25, "grid"), (0.1, "grid")]), (0.6, "grid"), r.choice([(0.3, "random"), (0.5, "random"), (0.75, "random")])]


def _batch_sizes(r, ntrain, n):
    """1 / a divisor / non-dividing / larger than the set / None"""
    divs = [d for d in range(2, ntrain) if ntrain % d == 0]
    nond = [d for d in range(2, ntrain) if ntrain % d != 0]
    out = [1, None, n + r.randint(1, 3)]
    if divs:
        out.append(r.choice(divs))
    if nond:
        out.append(r.choice(nond))
    return out


# ----------------------------------------------------------------------------------------------
# schedule inside reconstruct


def oracle_schedule(n, b, epochs, losses, val_losses, soft_zero):
    """the property text on what reconstruct() did"""
    beff = n if b is None else b
    train0 = sorted(i for bt, _ in epochs[0]["train"] for i in bt)
    val0 = [i for bt, _ in epochs[0]["val"] for i in bt]
    if sorted(train0 + val0) != list(range(n)):
        return "schedule-partition", "training and validation patterns of the first epoch are not a partition of range(%d): train=%s val=%s" % (n, train0, val0)
    nb = -(-len(train0) // beff)
    for e, ep in enumerate(epochs):
        flat = sorted(i for bt, _ in ep["train"] for i in bt)
        if flat != train0:
            return "schedule-epoch-visits", "epoch %d visits %s, the training set is %s" % (e, flat, train0)
        if [i for bt, _ in ep["val"] for i in bt] != val0:
            return "schedule-val-visits", "epoch %d validates on %s, the validation set is %s" % (e, [bt for bt, _ in ep["val"]], val0)
        if any(len(bt) == 0 or len(bt) > beff for bt, _ in ep["train"] + ep["val"]):
            return "schedule-batch-size", "epoch %d has an empty or oversized batch" % e
        if ep["steps"] != len(ep["train"]) or len(ep["train"]) != nb:
            return "schedule-batch-count", "epoch %d: %d batches, %d optimiser steps, expected ceil(%d/%d)=%d" % (
                e, len(ep["train"]), ep["steps"], len(train0), beff, nb)
        if soft_zero:
            m = float(np.mean([l for _, l in ep["train"]]))
            if abs(m - losses[e]) > 1e-6 * max(1e-30, abs(m)):
                return "schedule-reported-batches", ("epoch %d: iter_losses entry %.9g is not the mean %.9g of the %d per-batch losses "
                                                     "(reported number of batches != number yielded)" % (e, losses[e], m, len(ep["train"])))
        if val0:
            if e >= len(val_losses):
                return "schedule-val-loss-missing", "no validation loss recorded for epoch %d" % e
            mv = float(np.mean([l for _, l in ep["val"]]))
            if abs(mv - val_losses[e]) > 1e-6 * max(1e-30, abs(mv)):
                return "schedule-val-reported-batches", "epoch %d: validation loss %.9g is not the mean %.9g of the %d validation batches" % (
                    e, val_losses[e], mv, len(ep["val"]))
    if len(losses) != len(epochs) or len(val_losses) != (len(epochs) if val0 else 0):
        return "schedule-history-length", "%d epochs but %d losses / %d validation losses" % (len(epochs), len(losses), len(val_losses))
    return None


def recon_schedule_check(ctx):
    setup()
    r = ctx.rng
    out = []
    cases = []
    scans = [(3, 4), (4, 4), (2, 5), (3, 3)] if ctx.quick else [(3, 4), (4, 4), (2, 5), (3, 3), (2, 7), (5, 3), (4, 5)]
    for scan in (r.sample(scans, 2) if ctx.quick else scans):
        n = scan[0] * scan[1]
        seed = r.randrange(1, 1 << 20)
        pt = _build(scan, seed)
        for (vr, vm) in _split_configs(r, ctx.quick):
            ntrain_guess = n - int(round(n * vr))
            bss = _batch_sizes(r, ntrain_guess, n)
            if ctx.quick:
                bss = r.sample(bss, min(3, len(bss)))
            for b in bss:
                lt = r.choice(LOSS_TYPES[:4])
                iters = r.choice([2, 3])
                pt.val_ratio = vr
                if vm is not None:
                    pt.val_mode = vm
                rec = Recorder(pt)
                try:
                    pt.reconstruct(num_iters=iters, reset=True, **_kw(b, lt))
                finally:
                    rec.close()
                losses, vlosses = _hist(pt)
                soft_zero = float(pt._soft_constraints()) == 0.0
                mode = pt.val_mode
                asked = b
                b = int(pt.batch_size)          # reconstruct(batch_size=None) keeps the batch size of the previous call
                case = {"kind": "schedule", "scan": list(scan), "seed": seed, "batch": b, "batch_asked": asked, "val_ratio": vr,
                        "val_mode": mode, "iters": iters, "loss_type": lt}
                ctx.dist("schedule/split=%s" % ("none" if vr == 0 else mode + ("-inverted" if vr > 0.5 and mode == "grid" else "")))
                ctx.dist("schedule/batch=%s" % ("None(kept)" if asked is None else "1" if b == 1 else ">n" if b > n else
                                                "divides" if ntrain_guess % b == 0 else "nondividing"))
                ctx.count(("schedule", scan, b, vr, mode, seed), nontrivial=len(rec.epochs[0]["train"]) > 1)
                bad = oracle_schedule(n, b, rec.epochs, losses, vlosses, soft_zero)
                if bad:
                    out.append((bad[0], bad[1], dict(case, epochs=rec.epochs), True))
                # reference generator seeded like the object: what a generator in the model's state returns
                ref = np.random.default_rng(seed)
                val_obs = [i for bt, _ in rec.epochs[0]["val"] for i in bt]
                train_obs = sorted(i for bt, _ in rec.epochs[0]["train"] for i in bt)
                perm0 = ref.permutation(np.arange(n)).tolist() if (mode == "random" and val_obs) else []
                pps = [ref.permutation(len(train_obs)).tolist() for _ in range(iters)]
                state_ok = pt.rng.bit_generator.state == ref.bit_generator.state
                draws_py = ([n] if perm0 else []) + [len(train_obs)] * iters
                cases.append((case, rec.epochs, train_obs, val_obs, draws_py, state_ok, bad is not None,
                              "show_sched (recon_schedule %s %s %s %s true %s [%s])" % (
                                  cnat(n), "(Some %s)" % cnat(b), cfloat(float(vr)),
                                  cbool(mode == "random"), cnl(perm0), "; ".join(cnl(p) for p in pps))))
    vals = ctx.coq_eval("schedule", PRE, [c[-1] for c in cases], shard=40)
    nd = 0
    for (case, epochs, train_obs, val_obs, draws_py, state_ok, obad, _), v in zip(cases, vals):
        ctx.cov["traces_validated_against_impl"] += 1
        why = None
        if v is None or v == "None":
            why = "the model raises, the implementation ran"
        else:
            tr, va, eps, vbs, draws, ln, vln = v[1]
            if tr != train_obs or va != val_obs:
                why = "split differs: model train=%s val=%s" % (tr, va)
            elif any(eps[e] != [bt for bt, _ in ep["train"]] for e, ep in enumerate(epochs)):
                why = "training batches differ from the ones the seeded generator + model give: model %s" % (eps,)
            elif any(vbs != [bt for bt, _ in ep["val"]] for ep in epochs):
                why = "validation batches differ: model %s" % (vbs,)
            elif draws != draws_py:
                why = "rng draws differ: model %s, replayed %s" % (draws, draws_py)
            elif ln != len(epochs[0]["train"]) or vln != len(epochs[0]["val"]):
                why = "__len__/val_len differ: model %d/%d" % (ln, vln)
            elif not state_ok:
                why = "numpy generator state after reconstruct is not the state after the model's draws %s" % (draws,)
        if why:
            nd += 1
            ctx.cov["disagreements_checked"] += 1
            out.append(("schedule-correspondence",
                        "reconstruct() and the model's schedule disagree (%s) on %s" % (why, {k: case[k] for k in case if k != "kind"}),
                        dict(case, epochs=epochs), obad))
    if cases:
        c = cases[len(cases) // 2]
        ctx.sample({"kind": "schedule", "case": c[0], "first_epoch_batches": [bt for bt, _ in c[1][0]["train"]],
                    "val_batches": [bt for bt, _ in c[1][0]["val"]], "rng_draws": c[4]})
    ctx.log("schedule inside reconstruct: %d runs, %d disagreements" % (len(cases), nd))
    return out


# ----------------------------------------------------------------------------------------------
# loss scaling


def _frozen_epoch(pt, b, lt, iters=1):
    from . import toy_ptycho as tp
    rec = Recorder(pt, freeze=True)
    grads = []
    so = pt.step_optimizers

    def step():
        g_obj = pt.obj_model._obj.grad
        pr = getattr(pt.probe_model, "_probe", None)
        g_pr = None if pr is None else pr.grad
        grads.append((None if g_obj is None else g_obj.detach().clone().numpy(),
                      None if g_pr is None else g_pr.detach().clone().numpy()))
        so()

    pt.step_optimizers = step
    try:
        pt.reconstruct(num_iters=iters, reset=True, optimizer_params={"object": {"type": "sgd", "lr": 1e-3},
                                                                    "probe": {"type": "sgd", "lr": 1e-3}},
                       batch_size=b, constraints=tp.NO_ORTHO, loss_type=lt)
    finally:
        rec.close()
    return rec.epochs, grads, _hist(pt)


def loss_tie_check(ctx):
    """(i) property oracle: for every divisor batch size the mean of the per-batch losses / gradients equals
    the full-batch loss / gradient — all five loss types; (ii) tie: every per-batch loss, for EVERY batch
    size and split, equals the model's batch_loss on the exact per-pattern terms (measured with batch size 1)"""
    setup()
    r = ctx.rng
    out = []
    scan = r.choice([(4, 4), (3, 4), (2, 6), (3, 6)])
    n = scan[0] * scan[1]
    seed = r.randrange(1, 1 << 20)
    pt = _build(scan, seed)
    divisors = [d for d in range(1, n) if n % d == 0]
    exprs, meta = [], []
    for lt in LOSS_TYPES:
        pt.val_ratio = 0.0
        full_ep, full_g, (full_l, _) = _frozen_epoch(pt, n, lt)
        for b in divisors:
            eps, grads, (ls, _) = _frozen_epoch(pt, b, lt)
            nb = len(grads)
            ctx.count(("batchmean", scan, lt, b), nontrivial=nb > 1)
            ctx.dist("batchmean/%s" % lt)
            rp = {"kind": "toy", "scan": list(scan), "batch": b, "loss_type": lt, "seed": seed}
            if nb != n // b:
                out.append(("toy-batch-count", "epoch with batch size %d over %d patterns ran %d optimiser steps" % (b, n, nb), rp, True))
            dl = abs(ls[0] - full_l[0]) / max(1e-30, abs(full_l[0]))
            if dl > 2e-4:
                out.append(("toy-batch-mean-loss",
                            "mean of per-batch losses %.9g != full-batch loss %.9g (batch size %d | %d patterns, %s)" % (
                                ls[0], full_l[0], b, n, lt), rp, True))
            for k, nm in ((0, "object"), (1, "probe")):
                if not grads or grads[0][k] is None or full_g[0][k] is None:
                    continue
                g = np.mean([x[k] for x in grads], axis=0)
                if _rel(g, full_g[0][k]) > 2e-3:
                    out.append(("toy-batch-mean-grad",
                                "mean of per-batch %s gradients differs from the full-batch gradient by rel %.3g "
                                "(batch size %d | %d patterns, %s)" % (nm, _rel(g, full_g[0][k]), b, n, lt), rp, True))
        # (ii) per-pattern terms, then every batch size and split
        for (vr, vm) in ([(0.0, None), (0.3, "random")] if ctx.quick else [(0.0, None), (0.3, "random"), (0.25, "grid"), (0.6, "grid")]):
            pt.val_ratio = vr
            if vm is not None:
                pt.val_mode = vm
            eps1, _, _ = _frozen_epoch(pt, 1, lt)
            single = {}
            for bt, l in eps1[0]["train"] + eps1[0]["val"]:
                single[bt[0]] = l
            if sorted(single) != list(range(n)):
                continue      # reported by the schedule oracle
            ntrain = len(eps1[0]["train"])
            bss = [x for x in _batch_sizes(r, ntrain, n) if x not in (1, None)]
            for b in (r.sample(bss, 2) if ctx.quick else bss):
                eps, _, (ls, vls) = _frozen_epoch(pt, b, lt, iters=2)
                for e, ep in enumerate(eps):
                    for part, hist in (("train", ls), ("val", vls)):
                        bts = ep[part]
                        if not bts:
                            continue
                        exprs.append("qbatches %s [%s]" % (cnat(n), "; ".join(
                            "[" + "; ".join(cq(Fraction(single[i]) / n) for i in bt) + "]" for bt, _ in bts)))
                        meta.append(({"kind": "toy", "scan": list(scan), "batch": b, "loss_type": lt, "seed": seed,
                                      "val_ratio": vr, "val_mode": pt.val_mode, "part": part, "epoch": e},
                                     [l for _, l in bts], hist[e], [bt for bt, _ in bts]))
                        ctx.dist("losstie/%s/%s" % (lt, part))
    vals = ctx.coq_eval("losstie", PRE, exprs, shard=40) if exprs else []
    nd = 0
    for (rp, impl_batches, impl_mean, bts), v in zip(meta, vals):
        per, mean = v
        ctx.cov["traces_validated_against_impl"] += 1
        ctx.count(("losstie", rp["loss_type"], rp["batch"], rp["val_ratio"], rp["val_mode"], rp["part"], rp["epoch"]),
                  nontrivial=len(bts) > 1)
        mod = [Fraction(a, b) for a, b in per]
        scale = max(1e-30, max(abs(float(x)) for x in mod))
        bad = [k for k, (m, l) in enumerate(zip(mod, impl_batches)) if abs(float(m) - l) > 2e-5 * scale]
        mm = float(Fraction(mean[0], mean[1]))
        if bad or abs(mm - impl_mean) > 2e-5 * scale:
            nd += 1
            ctx.cov["disagreements_checked"] += 1
            out.append(("loss-scaling-correspondence",
                        "per-batch loss is not the model's batch_loss of the per-pattern terms (batch-fraction scaling): "
                        "batches %s, implementation %s / mean %.9g, model %s / mean %.9g [%s]" % (
                            bts, impl_batches, impl_mean, [float(x) for x in mod], mm, rp),
                        rp, False))
    ctx.log("loss scaling: %d per-batch comparisons against the model, %d disagreements" % (len(meta), nd))
    return out


# ----------------------------------------------------------------------------------------------
# batch invariance with non-zero soft-constraint weights (round 7)

# every soft constraint the toy's models have: (model, key, needs at least this many slices)
SOFT_KINDS = [("object", "tv_weight_xy", 1), ("object", "tv_weight_z", 2), ("object", "surface_zero_weight", 3),
              ("probe", "tv_weight", 1), ("dataset", "descan_tv_weight", 1)]
SOFT_OBJECTS = [("complex", 1), ("potential", 3), ("pure_phase", 3), ("complex", 3), ("potential", 1), ("pure_phase", 2)]
SOFT_SGD = {"object": {"type": "sgd", "lr": 1e-3}, "probe": {"type": "sgd", "lr": 1e-3}, "dataset": {"type": "sgd", "lr": 1e-3}}
SOFT_WARM = {"object": {"type": "adam", "lr": 2e-2}, "probe": {"type": "adam", "lr": 1e-3}, "dataset": {"type": "adam", "lr": 2e-2}}


def _soft_cons(weights, positivity):
    """a complete constraints dictionary: every soft weight is given explicitly (constraints persist between
    reconstruct calls), `weights` = {(model, key): value} for the non-zero ones"""
    c = {"object": {"tv_weight_xy": 0, "tv_weight_z": 0, "surface_zero_weight": 0, "positivity": bool(positivity)},
         "probe": {"tv_weight": 0.0, "orthogonalize_probe": False},
         "dataset": {"descan_tv_weight": 0.0}}
    for (m, k), v in weights.items():
        c[m][k] = float(v)
    return c


def _soft_state(st):
    """the state the invariance is examined on: a toy problem after `warm_iters` real mini-batch iterations that
    optimise object, probe and dataset (descan shifts) — non-flat object, non-constant descan shifts"""
    import warnings
    from . import toy_ptycho as tp
    pt = tp.build_toy(seed=st["seed"] % 97, scan=tuple(st["scan"]), rng_seed=st["seed"], obj_type=st["obj_type"],
                      num_slices=st["num_slices"])
    with warnings.catch_warnings():
        warnings.simplefilter("ignore")
        pt.reconstruct(num_iters=st["warm_iters"], reset=True, optimizer_params=SOFT_WARM, batch_size=st["warm_batch"],
                       constraints=_soft_cons({}, st["positivity"]), loss_type=st["loss_type"])
    return pt


def _soft_epoch(pt, b, st, weights):
    """one epoch at FIXED parameters (no reset, the optimiser step only records): the reported epoch loss, the
    per-batch gradients of object / probe / descan shifts, the batches with their data terms"""
    import warnings

    def g(p):
        return None if p is None or p.grad is None else p.grad.detach().clone().numpy()

    rec = Recorder(pt, freeze=True)
    grads = []
    so = pt.step_optimizers

    def step():
        grads.append((g(pt.obj_model._obj), g(getattr(pt.probe_model, "_probe", None)), g(pt.dset._descan_shifts)))
        so()

    pt.step_optimizers = step
    try:
        with warnings.catch_warnings():
            warnings.simplefilter("ignore")       # "calculating TV loss for phase …" once per batch
            pt.reconstruct(num_iters=1, reset=False, optimizer_params=SOFT_SGD, batch_size=b,
                           constraints=_soft_cons(weights, st["positivity"]), loss_type=st["loss_type"])
    finally:
        rec.close()
    return float(pt._iter_losses[-1]), grads, rec.epochs[-1]["train"]


def _soft_compare(pt, st, weights, b, full=None):
    """the property text on one (state, constraint dictionary, divisor batch size): reported epoch loss and mean of
    the per-batch gradients against the full-batch values.  Returns (problems, full, (loss_b, batches))"""
    n = st["scan"][0] * st["scan"][1]
    if full is None:
        full = _soft_epoch(pt, n, st, weights)
    lb, gb, bts = _soft_epoch(pt, b, st, weights)
    bad = []
    if len(gb) != n // b:
        bad.append(("toy-batch-count", "epoch with batch size %d over %d patterns ran %d optimiser steps" % (b, n, len(gb))))
    dl = abs(lb - full[0]) / max(1e-30, abs(full[0]))
    if not dl <= 2e-4:
        bad.append(("toy-batch-mean-loss-soft-constraints",
                    "mean of per-batch losses %.9g != full-batch loss %.9g (rel %.3g) with soft constraints %s "
                    "(batch size %d | %d patterns, %s, %s object with %d slice(s) after %d iterations)" % (
                        lb, full[0], dl, {"%s.%s" % k: v for k, v in weights.items()}, b, n, st["loss_type"],
                        st["obj_type"], st["num_slices"], st["warm_iters"])))
    for k, nm in ((0, "object"), (1, "probe"), (2, "descan-shift")):
        if not gb or gb[0][k] is None or full[1][0][k] is None:
            continue
        gm = np.mean([x[k] for x in gb], axis=0)
        rel = _rel(gm, full[1][0][k])
        if not rel <= 2e-3:
            bad.append(("toy-batch-mean-grad-soft-constraints",
                        "mean of per-batch %s gradients differs from the full-batch gradient by rel %.3g with soft "
                        "constraints %s (batch size %d | %d patterns, %s, %s object with %d slice(s))" % (
                            nm, rel, {"%s.%s" % k2: v for k2, v in weights.items()}, b, n, st["loss_type"],
                            st["obj_type"], st["num_slices"])))
    return bad, full, (lb, bts)


def soft_constraint_check(ctx):
    """batch invariance (property text: 'the mean of the per-batch losses and gradients equals the full-batch loss
    and gradient' — the loss reconstruct() reports and the gradients it steps with include the soft constraints)
    for constraint dictionaries with NON-ZERO soft-constraint weights, on states reached by real iterations.
    Every weight is calibrated on the full batch so that its term is a drawn share (0.1 … 3) of the data term; a
    kind whose regulariser vanishes on the state (flat object) is counted as trivial.  The epoch loss is also
    compared with the model's mean_over_reg_batches (per-pattern data terms from a batch-size-1 epoch, regulariser
    value from the full batch)."""
    setup()
    r = ctx.rng
    out = []
    objs = [r.choice(SOFT_OBJECTS)] if ctx.quick else SOFT_OBJECTS
    exprs, meta = [], []
    for (ot, ns) in objs:
        scan = r.choice([(3, 4), (4, 4), (2, 6), (2, 5)])
        n = scan[0] * scan[1]
        st = {"kind": "toy-soft", "scan": list(scan), "seed": r.randrange(1, 1 << 20), "obj_type": ot, "num_slices": ns,
              "warm_iters": r.choice([1, 2, 3]), "warm_batch": r.choice([d for d in range(1, n + 1)]),
              "positivity": (r.random() < 0.4) if ot == "potential" else True,
              "loss_type": r.choice(LOSS_TYPES if not ctx.quick else LOSS_TYPES[:4])}
        pt = _soft_state(st)
        divisors = [d for d in range(1, n) if n % d == 0]
        l0 = _soft_epoch(pt, n, st, {})[0]
        # per-pattern data terms (exact floats), for the model
        eps1 = _soft_epoch(pt, 1, st, {})[2]
        single = {bt[0]: l for bt, l in eps1}
        calibrated = {}
        kinds = [(m, k) for m, k, need in SOFT_KINDS if ns >= need]
        for kind in kinds + ["all"]:
            if kind == "all":
                if len(calibrated) < 2:
                    continue
                weights = {k: w / len(calibrated) for k, w in calibrated.items()}
                label = "all-together"
            else:
                l1 = _soft_epoch(pt, n, st, {kind: 1.0})[0]
                label = "%s.%s" % kind
                if not (l1 - l0) > 1e-4 * abs(l0):      # the regulariser vanishes on this state
                    ctx.dist("softreg/%s=vanishes-on-state" % label)
                    ctx.count(("softreg", ot, ns, label, "flat"), nontrivial=False)
                    continue
                share = 0.1 * 30.0 ** r.random()
                calibrated[kind] = share * abs(l0) / (l1 - l0)
                weights = {kind: calibrated[kind]}
            full = None
            nb = len(divisors) if not ctx.quick else (2 if kind == "all" else 1)
            for b in r.sample(divisors, min(nb, len(divisors))):
                bad, full, (lb, bts) = _soft_compare(pt, st, weights, b, full)
                soft_share = (full[0] - l0) / max(1e-30, abs(full[0]))
                ctx.count(("softreg", ot, ns, label, b, st["loss_type"]), nontrivial=soft_share > 0.02 and b < n)
                ctx.dist("softreg/%s" % label)
                ctx.dist("softreg/object=%s-%dslice" % (ot, ns))
                rp = dict(st, batch=b, weights=[[m, k, float(w)] for (m, k), w in weights.items()])
                for key, what in bad:
                    out.append((key, what, rp, True))
                if sorted(i for bt, _ in bts for i in bt) == list(range(n)) and sorted(single) == list(range(n)):
                    exprs.append("qreg %s %s [%s]" % (cnat(n), cq(Fraction(full[0]) - Fraction(l0)), "; ".join(
                        "[" + "; ".join(cq(Fraction(single[i]) / n) for i in bt) + "]" for bt, _ in bts)))
                    meta.append((rp, lb, full[0], bool(bad)))
    vals = ctx.coq_eval("softreg", PRE, exprs, shard=40) if exprs else []
    nd = 0
    for (rp, lb, lfull, obad), v in zip(meta, vals):
        ctx.cov["traces_validated_against_impl"] += 1
        mm = float(Fraction(v[0], v[1]))
        if not abs(mm - lb) <= 1e-4 * max(1e-30, abs(lfull)):
            nd += 1
            ctx.cov["disagreements_checked"] += 1
            out.append(("loss-scaling-correspondence",
                        "epoch loss with soft constraints is not the model's mean over batches of (scaled data term + "
                        "regulariser): implementation %.9g, model %.9g (full batch %.9g) [%s]" % (lb, mm, lfull, rp),
                        rp, obad))
    if meta:
        ctx.sample({"kind": "toy-soft", "case": meta[-1][0], "epoch_loss": meta[-1][1], "full_batch_loss": meta[-1][2]})
    ctx.log("soft constraints: %d (state, constraint dictionary, divisor batch size) comparisons, %d model disagreements" % (len(meta), nd))
    return out


def replay_soft(rp):
    """re-run one soft-constraint case exactly; returns the list of (key, what) the oracle reports"""
    setup()
    pt = _soft_state(rp)
    weights = {(m, k): w for m, k, w in rp["weights"]}
    bad, full, (lb, _) = _soft_compare(pt, rp, weights, rp["batch"])
    print("full-batch loss %.9g, epoch loss with batch size %d: %.9g" % (full[0], rp["batch"], lb))
    return bad


# ----------------------------------------------------------------------------------------------
# determinism / reset


def determinism_checks(ctx):
    setup()
    r = ctx.rng
    out = []
    TOL = 1e-6
    scans = [(3, 4), (4, 4), (2, 5)]
    nvar = 0
    deck = []
    for (vr, vm) in _split_configs(r, ctx.quick):
        scan = r.choice(scans)
        n = scan[0] * scan[1]
        seed = r.randrange(1, 1 << 20)
        ntrain = n - int(round(n * vr))
        bss = [x for x in _batch_sizes(r, ntrain, n) if x is not None]
        lts = LOSS_TYPES if not ctx.quick else r.sample(LOSS_TYPES, 2)
        for lt in lts:
            from . import toy_ptycho as tp
            b = r.choice(bss)
            b2 = r.choice([x for x in bss if x != b])
            iters = 3
            oname, opt = OPT_POOL[nvar % len(OPT_POOL)]
            # scheduler settings: one form per optimised model (round 8)
            forms, sched = _deal_sched(r, deck, sorted(tp.OPT if opt is None else opt))
            stray_way = WAYS_STRAY[(nvar + nvar // len(OPT_POOL)) % len(WAYS_STRAY)]
            ctx.dist("determinism/optimisers=%s" % oname)
            for m, f in forms.items():
                ctx.dist("determinism/scheduler=%s" % f)
                ctx.dist("determinism/scheduler-on=%s" % m)
            rp = {"kind": "toy-sched", "scan": list(scan), "batch": b, "batch2": b2, "seed": seed, "val_ratio": vr, "val_mode": vm,
                  "loss_type": lt, "optimisers": oname, "sched": sched, "forms": forms, "iters": iters}
            nvar += 1
            ctx.dist("determinism/split=%s" % ("none" if vr == 0 else vm))
            ctx.dist("determinism/%s" % lt)

            def fresh(rng=None):
                return _build(scan, seed, rng=rng, val_ratio=vr, val_mode=vm)

            def repeat(B, way, ref, base_key, count_key, bb=b, run_on=0, b_first=None):
                """the run again on B after a reset in the given way, compared with the fresh run `ref`;
                returns (B, ok) — B is rebuilt when the repeated run raised"""
                case = dict(rp, way=way, batch=bb, run_on=run_on, **({} if b_first is None else {"batch_first": b_first}))
                ctx.dist("determinism/reset-way=%s" % way)
                ctx.count(count_key, nontrivial=True)
                try:
                    _apply_way(B, way, iters, bb, lt, opt, sched)
                    got = _hist3(B)
                    loss_bad, lr_bad = _cmp_hist(ref, got, iters, TOL)
                    problem = ("differs", loss_bad, lr_bad) if loss_bad or lr_bad else None
                except Exception as e:  # noqa
                    problem, got = ("raises", "%s: %s" % (type(e).__name__, e)), None
                    B = fresh()
                    B.reconstruct(num_iters=iters, **_kw(b, lt, opt, sched))
                if problem is None:
                    return B, True
                out.extend(_sched_reports(case, forms, problem, ref, got, base_key))
                return B, False

            A = fresh()
            A.reconstruct(num_iters=iters, **_kw(b, lt, opt, sched))
            refA = _hist3(A)
            la, va, _ = refA
            stA = A.rng.bit_generator.state
            # (1) second object, same integer seed
            B = fresh()
            B.reconstruct(num_iters=iters, **_kw(b, lt, opt, sched))
            lb, vb, rb = _hist3(B)
            ctx.count(("determinism", scan, b, vr, vm, lt), nontrivial=True)
            if _rel(la, lb) > TOL or _rel(va, vb) > TOL or len(va) != len(vb):
                out.append(("toy-seed-determinism", "two runs from the same seed give different histories: losses %s vs %s, "
                            "validation losses %s vs %s (learning rates %s vs %s)" % (la, lb, va, vb, refA[2], rb), rp, True))
            # (2) same seed handed over as a fresh numpy Generator
            G = fresh(rng=np.random.default_rng(seed))
            G.reconstruct(num_iters=iters, **_kw(b, lt, opt, sched))
            lg, vg = _hist(G)
            ctx.count(("determinism-generator", scan, b, vr, vm, lt), nontrivial=True)
            if _rel(la, lg) > TOL or _rel(va, vg) > TOL:
                out.append(("toy-seed-determinism-generator", "rng=default_rng(seed) and rng=seed give different histories: %s vs %s"
                            % (lg, la), rp, True))
            # (3) run on, then reset — several times in a row, with stray resets in between; the reset is performed with
            # everything handed over again (k = 0, 2) / after stray reset_recon() calls in one of WAYS_STRAY (k = 1)
            for k in range(2 if ctx.quick else 3):
                B.reconstruct(num_iters=1 + k, **{**_kw(b, lt, opt), "optimizer_params": None})
                if k == 1:
                    B.reset_recon()
                    B.reset_recon()
                B, ok = repeat(B, stray_way if k == 1 else WAY_ALL, refA, "toy-reset-determinism",
                               ("reset", scan, b, vr, vm, lt, k), run_on=1 + k)
                if not ok:
                    break
                if B.rng.bit_generator.state != stA:
                    out.append(("toy-reset-rng-state", "after reset #%d + the same run the numpy generator is in another state "
                                "than after the fresh run" % (k + 1), rp, False))
                    break
            # (3b) reset WITHOUT handing optimiser / scheduler parameters over again: reset_recon itself has to rebuild
            # optimisers / schedulers from the stored parameters
            B.reconstruct(num_iters=2, **{**_kw(b, lt, opt), "optimizer_params": None})
            B, _ = repeat(B, WAY_NONE, refA, "toy-reset-determinism", ("reset-keep-optimizer-params", scan, b, vr, vm, lt), run_on=2)
            # (4) reconstruct(reset=True) with ANOTHER batch size == a fresh run with that batch size
            C = fresh()
            C.reconstruct(num_iters=iters, **_kw(b2, lt, opt, sched))
            B, _ = repeat(B, WAY_OPT, _hist3(C), "toy-reset-batch-change", ("reset-batch-change", scan, b, b2, vr, vm, lt), bb=b2, b_first=b)
            # the split and the rng consumption do not depend on the batch size (model: schedule_draws_indep_batch)
            if C.rng.bit_generator.state != stA:
                out.append(("schedule-correspondence", "runs with batch sizes %s and %s from one seed leave the numpy generator in "
                            "different states (the model's draws are independent of the batch size)" % (b, b2), rp, False))
    ctx.sample({"kind": "toy-determinism", "last": rp, "loss_fresh": la, "val_fresh": va, "lrs_fresh": refA[2]})
    ctx.log("determinism / reset: %d configurations x (same seed, generator seed, resets in a row in %d ways, batch change), "
            "scheduler forms per model dealt from %d" % (nvar, 2 + len(WAYS_STRAY), len(SCHED_FORMS)))
    return out


# ----------------------------------------------------------------------------------------------
# reset_recon field by field


def _t(x):
    import torch
    if isinstance(x, torch.Tensor):
        return x.detach().cpu().numpy().copy()
    return np.array(x)


def _fields(pt):
    """the fields of coq/model/C09_Model_Ext.v `fields`, read off a Ptychography object"""
    def opt_state(m):
        o = getattr(m, "_optimizer", None)
        if o is None:
            return None
        sd = o.state_dict()
        return {"n_state": len(sd["state"]), "groups": [{k: v for k, v in g.items() if k != "params"} for g in sd["param_groups"]]}

    def sch_state(m):
        s = getattr(m, "_scheduler", None)
        return None if s is None else {k: v for k, v in s.state_dict().items() if isinstance(v, (int, float, list, str, bool))}

    return {
        "f_rng.seed": pt._rng_seed,
        "f_rng.np": pt.rng.bit_generator.state,
        "f_rng.torch": bytes(pt._rng_torch.get_state().numpy().tobytes()),
        "f_obj": _t(pt.obj_model._obj),
        "f_probe": _t(pt.probe_model._probe),
        "f_dset": [_t(p) for p in pt.dset.parameters()] if hasattr(pt.dset, "parameters") else [],
        "f_propagators": None if pt._propagators is None else _t(pt._propagators),
        "f_obj_constraints": repr(sorted(pt.obj_model.constraints.items())) if isinstance(pt.obj_model.constraints, dict) else repr(pt.obj_model.constraints),
        "f_opt": [opt_state(pt.obj_model), opt_state(pt.probe_model), opt_state(pt.dset),
                  sch_state(pt.obj_model), sch_state(pt.probe_model), sch_state(pt.dset)],
        "f_iter_losses": list(pt._iter_losses),
        "f_iter_val_losses": list(pt._iter_val_losses),
        "f_iter_recon_types": list(pt._iter_recon_types),
        "f_iter_lrs": dict(pt._iter_lrs),
        "f_snapshots": len(pt._snapshots),
    }


def _same(a, b):
    if isinstance(a, np.ndarray) or isinstance(b, np.ndarray):
        return a is not None and b is not None and a.shape == b.shape and bool(np.array_equal(a, b))
    if isinstance(a, (list, tuple)) and isinstance(b, (list, tuple)):
        return len(a) == len(b) and all(_same(x, y) for x, y in zip(a, b))
    if isinstance(a, dict) and isinstance(b, dict):
        return a.keys() == b.keys() and all(_same(a[k], b[k]) for k in a)
    if isinstance(a, float) and isinstance(b, float):
        return a == b or (a != a and b != b)
    return a == b


def reset_fields_check(ctx):
    """X = fresh object that only had its optimisers configured (reconstruct with 0 iterations);
    Y = same, then j iterations (shuffled mini-batches, validation split, snapshots), then reset_recon().
    Every field of the model's `fields` record must agree — reset_recon_restores, observed."""
    setup()
    r = ctx.rng
    out = []
    for (vr, vm) in [(0.3, "random"), r.choice([(0.0, None), (0.25, "grid")])]:
        scan = r.choice([(3, 4), (4, 4)])
        seed = r.randrange(1, 1 << 20)
        b = r.choice([1, 3, 5])
        kw = _kw(b, r.choice(LOSS_TYPES[:4]))
        X = _build(scan, seed, val_ratio=vr, val_mode=vm)
        f0 = _fields(X)
        X.reconstruct(num_iters=0, **kw)         # configures optimisers / schedulers; a random split already draws
        fx = _fields(X)
        for k in fx:
            if k.startswith("f_rng"):
                fx[k] = f0[k]
        Y = _build(scan, seed, val_ratio=vr, val_mode=vm)
        Y.reconstruct(num_iters=r.choice([1, 2, 3]), store_snapshots=True, store_snapshots_every=1, **kw)
        changed = [k for k, v in _fields(Y).items() if not _same(v, fx[k])]
        for k in range(r.choice([1, 2])):
            Y.reset_recon()
        fy = _fields(Y)
        diff = [k for k in fx if not _same(fx[k], fy[k])]
        ctx.count(("reset-fields", scan, b, vr, vm), nontrivial=len(changed) >= 6)
        ctx.cov["traces_validated_against_impl"] += 1
        ctx.dist("reset-fields/changed_by_run=%d" % len(changed))
        rp = {"kind": "toy", "scan": list(scan), "seed": seed, "batch": b, "val_ratio": vr, "val_mode": vm}
        hard = [k for k in diff if k.startswith("f_rng") or k.startswith("f_iter")]
        if hard:
            out.append(("toy-reset-fields", "reset_recon does not restore %s (rng state / empty histories)" % hard, rp, True))
        elif diff:
            ctx.cov["disagreements_checked"] += 1
            out.append(("reset-fields-correspondence", "after run + reset_recon the fields %s differ from a fresh object "
                        "(the model's reset_recon assigns all of them); fields the run had changed: %s" % (diff, changed), rp, False))
    ctx.sample({"kind": "reset-fields", "fields_compared": sorted(fx), "fields_changed_by_the_run": changed})
    return out


def all_checks(ctx):
    res, seen = [], {}
    for f in (rng_mixin_check, recon_schedule_check, loss_tie_check, soft_constraint_check, determinism_checks, reset_fields_check):
        for item in f(ctx):
            seen[item[0]] = seen.get(item[0], 0) + 1
            if seen[item[0]] <= 2:          # at most two reports per key: the rest repeat the same cause
                res.append(item)
    return res
