"""c15_tie.py — tie between the SOURCE of the drift-correction geometry (re-read on every run) and the
hand-written model coq/model/C15_Model.v, as theorems re-proved on every run:

  translate  DriftCorrection.preprocess           scan vectors from the angle as abstract (s, c) = (sin, cos)(-theta),
                                                  canvas shape from the pad fraction, initial knot placement
             DriftInterpolator.__init__ / transform_rows / transform_coordinates
             bilinear_kde (core/utils/imaging_utils.py)    floor / fractional weights, the four neighbours, wrapped flat
                                                  index, the accumulation loop over batches (ALL samples splatted)
             DriftCorrection.align_translation    measured shifts -> mean removal -> threshold -> knot update
        ->  build/C15/Gen_C15.v   (gen_scan_fast, gen_scan_slow, gen_canvas_rows/cols, gen_init_knot, gen_u,
                                   gen_transform_rows, gen_transform_coordinates, gen_index, gen_taps, gen_pix_count,
                                   gen_applied_shift, gen_align_knots)
  coqc Gen_C15.v
  coqc coq/gen_proofs/C15_GenProofs.v        FIXED script: each gen_f equals the model's definition, all arguments
  coqc coq/gen_proofs/C15_GenProperties.v    Theorem C15_*_tie + Print Assumptions

The translator is a small fail-closed symbolic evaluator for exactly the constructs of those functions.  Locals are
inlined (a name stands for the translated term of its last assignment), `if` chains of transform_rows are translated in
continuation-passing style, so local names, re-assignments and the order of independent statements do not matter; the
fixed proofs close arithmetic goals with ring / field, so `a + b` vs `b + a` does not matter either.  Every statement of
a translated function must be either translated or on the explicit list of geometry-irrelevant statements (validators,
pad value, KDE width, plotting, error tracking); anything else raises Reject -> the tie is reported broken."""
from __future__ import annotations

import ast
import hashlib
import re
import time
from fractions import Fraction
from pathlib import Path

from .common import COQ, COQ_FLAGS, SRC, Ctx, cnat, cq, cz, sh

REL_DRIFT = "imaging/drift.py"
REL_UTILS = "core/utils/imaging_utils.py"
GEN_DIR = COQ / "gen_proofs"

TRUSTED = [
    "harness/c15_tie.py (Python ast -> Gallina over Q for DriftCorrection.preprocess / align_translation, "
    "DriftInterpolator.__init__ / transform_rows / transform_coordinates and the splat of bilinear_kde; fail-closed "
    "grammar; NumPy broadcasting read elementwise: a[None, :] / a[:, None] index the column / row of the result, a "
    "(rows, 1) knot array broadcasts along the columns) and the fixed meanings in coq/lib/C15_TieLib.v: np.sin / np.cos of "
    "minus the scan direction = the abstract pair (s, c); np.round = half to even; int() = truncation; np.linspace = "
    "the model's linspace (last sample is `stop`); np.floor(x).astype(int) = Qfloor; np.ravel_multi_index(mode='wrap') "
    "= (i mod rows) * cols + (j mod cols); np.bincount(inds, weights)[k] = sum of the weights whose index is k; "
    "generate_batches(N, max_batch=b) = consecutive batches of at most b samples (property C09 ties that function); "
    "interp1d: 'linear' on 2 points = slope form, 'quadratic' on exactly 3 / 'cubic' on exactly 4 points = the "
    "interpolating polynomial, every other combination = outside the contract (None); np.linalg.norm(v) < t = "
    "(0 < t and |v|^2 < t^2); np.mean(axis=0) = sum / n; the loop variable left over from `for v in range(1, n)` is "
    "n - 1 (n >= 2: stacks have 2..4 images); float arithmetic read as exact rational arithmetic; every image of a "
    "stack has the shape H x W",
]


class Reject(Exception):
    pass


def rej(node, why):
    src = ""
    if node is not None:
        try:
            src = ast.unparse(node)[:140]
        except Exception:  # noqa
            src = "?"
    raise Reject("%s at line %s: %s" % (why, getattr(node, "lineno", "?"), src))


# ------------------------------------------------------------------------------------------ values
class V:
    """symbolic value: kind in Q Z N C S NONE ANGLE NEGANGLE VEC2 SHAPE CANVAS A1 LIST IMG KROW KCOMP KNOTS OQ KIND ..."""

    def __init__(self, kind, code=None, **kw):
        self.kind = kind
        self.code = code
        self.__dict__.update(kw)

    def __repr__(self):
        return "V(%s,%r)" % (self.kind, self.code)


def qlit(fr: Fraction) -> str:
    if fr.denominator == 1:
        return str(fr.numerator) if fr.numerator >= 0 else "(-%d)" % (-fr.numerator)
    return "(%d # %d)" % (fr.numerator, fr.denominator) if fr.numerator >= 0 else "(-%d # %d)" % (-fr.numerator, fr.denominator)


def toQ(v: V, node=None) -> str:
    if v.kind == "Q":
        return v.code
    if v.kind == "Z":
        return "(inject_Z %s)" % v.code
    if v.kind == "N":
        return "(qn %s)" % v.code
    if v.kind == "C":
        return qlit(v.code)
    rej(node, "value of kind %s where a number is needed" % v.kind)


def toZ(v: V, node=None) -> str:
    if v.kind == "Z":
        return v.code
    if v.kind == "C" and v.code.denominator == 1:
        return "(%d)%%Z" % v.code.numerator
    rej(node, "value of kind %s where an integer is needed" % v.kind)


def key(node):
    if isinstance(node, ast.Name):
        return node.id
    if isinstance(node, ast.Attribute) and isinstance(node.value, ast.Name) and node.value.id == "self":
        return "self." + node.attr
    return None


def const_int(node):
    if isinstance(node, ast.Constant) and isinstance(node.value, int) and not isinstance(node.value, bool):
        return node.value
    if isinstance(node, ast.UnaryOp) and isinstance(node.op, ast.USub):
        k = const_int(node.operand)
        return None if k is None else -k
    return None


class Ev:
    """expression evaluator; `hook(node, env)` handles the function-specific atoms and returns None otherwise"""

    def __init__(self, hook):
        self.hook = hook

    def __call__(self, e, env):
        v = self.hook(e, env, self)
        if v is not None:
            return v
        k = key(e)
        if k is not None:
            if k not in env:
                rej(e, "unknown name")
            return env[k]
        if isinstance(e, ast.Constant):
            if isinstance(e.value, bool):
                return V("B", "true" if e.value else "false")
            if isinstance(e.value, int):
                return V("C", Fraction(e.value))
            if isinstance(e.value, float):
                return V("C", Fraction(*e.value.as_integer_ratio()))
            if isinstance(e.value, str):
                return V("S", e.value)
            if e.value is None:
                return V("NONE")
            rej(e, "constant")
        if isinstance(e, ast.UnaryOp) and isinstance(e.op, ast.USub):
            a = self(e.operand, env)
            if a.kind == "ANGLE":
                return V("NEGANGLE")
            if a.kind == "C":
                return V("C", -a.code)
            if a.kind == "Z":
                return V("Z", "(- %s)%%Z" % a.code)
            return V("Q", "(- %s)" % toQ(a, e))
        if isinstance(e, ast.BinOp):
            op = {ast.Add: "+", ast.Sub: "-", ast.Mult: "*", ast.Div: "/"}.get(type(e.op))
            if op is None:
                rej(e, "operator")
            a, b = self(e.left, env), self(e.right, env)
            if a.kind == "C" and b.kind == "C":
                if op == "/" and b.code == 0:
                    rej(e, "division by zero")
                return V("C", {"+": a.code + b.code, "-": a.code - b.code, "*": a.code * b.code,
                               "/": (a.code / b.code) if op == "/" else None}[op])
            ints = ("Z", "C")
            if op != "/" and a.kind in ints and b.kind in ints and \
                    all(x.kind == "Z" or x.code.denominator == 1 for x in (a, b)):
                return V("Z", "(%s %s %s)%%Z" % (toZ(a, e), op, toZ(b, e)))
            return V("Q", "(%s %s %s)" % (toQ(a, e.left), op, toQ(b, e.right)))
        rej(e, "expression outside the grammar")


def call_name(e):
    return ast.unparse(e.func) if isinstance(e, ast.Call) else None


def kwargs_of(e):
    return {k.arg: k.value for k in e.keywords}


def find_class(tree, name):
    for n in tree.body:
        if isinstance(n, ast.ClassDef) and n.name == name:
            return n
    raise Reject("class %s not found" % name)


def find_method(cls, name, prop=None):
    for m in cls.body:
        if isinstance(m, ast.FunctionDef) and m.name == name:
            decos = [ast.unparse(d) for d in m.decorator_list]
            if prop is None and not decos:
                return m
            if prop == "get" and decos == ["property"]:
                return m
            if prop == "set" and decos == ["%s.setter" % name]:
                return m
    raise Reject("%s.%s%s not found" % (cls.name, name, "" if prop is None else " (%s)" % prop))


def body_wo_doc(f):
    b = list(f.body)
    if b and isinstance(b[0], ast.Expr) and isinstance(b[0].value, ast.Constant) and isinstance(b[0].value.value, str):
        b = b[1:]
    return b


def check_passthrough_property(cls, name, setter_wrap):
    """`self.name = x` followed by `self.name` reads x (up to the conversion `setter_wrap`, float / int / None)"""
    g = body_wo_doc(find_method(cls, name, "get"))
    if len(g) != 1 or ast.unparse(g[0]) != "return self._%s" % name:
        rej(g[0] if g else None, "getter of %s is not a plain read" % name)
    if setter_wrap == "readonly":
        return
    s = find_method(cls, name, "set")
    b = body_wo_doc(s)
    arg = s.args.args[1].arg
    want = "self._%s = %s" % (name, ("%s(%s)" % (setter_wrap, arg)) if setter_wrap else arg)
    if len(b) != 1 or ast.unparse(b[0]) != want:
        rej(b[0] if b else None, "setter of %s is not `%s`" % (name, want))


# ------------------------------------------------------------------------------------------ preprocess
def is_images_shape(e, idx_ok):
    """self.images[<idx>].shape  -> True"""
    return (isinstance(e, ast.Attribute) and e.attr == "shape" and isinstance(e.value, ast.Subscript)
            and key(e.value.value) == "self.images" and idx_ok(e.value.slice))


def tr_preprocess(cls, out):
    f = find_method(cls, "preprocess")
    check_passthrough_property(cls, "pad_fraction", "float")
    check_passthrough_property(cls, "number_knots", "int")
    check_passthrough_property(cls, "images", "readonly")
    check_passthrough_property(cls, "scan_direction_degrees", "readonly")
    params = [a.arg for a in f.args.args]
    for need in ("pad_fraction", "number_knots"):
        if need not in params:
            raise Reject("parameter %s of preprocess is gone" % need)
    env = {"pad_fraction": V("Q", "pad"), "number_knots": V("N", "K"), "self.scan_direction_degrees": V("DEGREES")}
    for p in params:
        env.setdefault(p, V("OPAQUE"))
    st = {"knots": None, "interp": None, "warp": False, "loopvars": set()}

    def hook(e, env, ev):
        if isinstance(e, ast.Call):
            fn = call_name(e)
            kw = kwargs_of(e)
            if fn == "np.deg2rad" and len(e.args) == 1 and not kw:
                if ev(e.args[0], env).kind != "DEGREES":
                    rej(e, "deg2rad of something else than the scan direction")
                return V("ANGLE")
            if fn in ("np.sin", "np.cos") and len(e.args) == 1 and not kw:
                if ev(e.args[0], env).kind != "NEGANGLE":
                    rej(e, "sin / cos of something else than minus the scan direction")
                return V("Q", "s" if fn == "np.sin" else "c")
            if fn == "np.stack" and len(e.args) == 1 and isinstance(e.args[0], ast.List) and len(e.args[0].elts) == 2 \
                    and set(kw) == {"axis"}:
                ax = const_int(kw["axis"])
                els = [ev(x, env) for x in e.args[0].elts]
                if ax == 1:        # (n_images, 2): per-image 2-vector
                    return V("VEC2", [toQ(x, e) for x in els])
                if ax == 0:        # (2, rows, knots)
                    return V("KN", [toQ(x, e) for x in els])
                rej(e, "stack axis")
            if fn == "len" and len(e.args) == 1 and key(e.args[0]) == "self.images":
                return V("N", "n")
            if fn == "np.round" and len(e.args) == 1 and not kw:
                return V("Q", "(np_round %s)" % toQ(ev(e.args[0], env), e))
            if fn == "int" and len(e.args) == 1 and not kw:
                return V("Z", "(py_int %s)" % toQ(ev(e.args[0], env), e))
            if fn == "np.linspace" and len(e.args) == 3 and not kw:
                a, b, n = (ev(x, env) for x in e.args)
                if n.kind != "N":
                    rej(e, "number of samples is not a shape entry / the knot count")
                qa, qb = toQ(a, e), toQ(b, e)
                return V("A1", (lambda i, qa=qa, qb=qb, n=n.code: "(np_linspace %s %s %s %s)" % (qa, qb, n, i)), n=n.code)
            return None
        if isinstance(e, ast.Attribute) and e.attr == "shape":
            if is_images_shape(e, lambda s: const_int(s) is not None or (isinstance(s, ast.Name) and s.id in st["loopvars"])):
                return V("SHAPE", ["H", "W"])
            return None
        if isinstance(e, ast.Subscript):
            base = ev(e.value, env)
            sl = e.slice
            if base.kind == "SHAPE":
                k = const_int(sl)
                if k in (0, 1):
                    return V("N", base.code[k])
                rej(e, "shape index")
            if base.kind == "CANVAS":
                k = const_int(sl)
                if k == 0:
                    return V("N", "n")
                if k in (1, 2):
                    return V("Q", "(inject_Z %s)" % ("rows", "cols")[k - 1])
                if isinstance(sl, ast.Slice) and const_int(sl.lower) == 1 and sl.upper is None and sl.step is None:
                    return V("CANVAS2")
                rej(e, "canvas shape index")
            if base.kind == "VEC2":
                if isinstance(sl, ast.Tuple) and len(sl.elts) == 2 and isinstance(sl.elts[0], ast.Name) \
                        and sl.elts[0].id in st["loopvars"] and const_int(sl.elts[1]) in (0, 1):
                    return V("Q", base.code[const_int(sl.elts[1])])
                if isinstance(sl, ast.Name) and sl.id in st["loopvars"]:
                    return base
                rej(e, "scan vector index")
            if base.kind == "A1":
                if isinstance(sl, ast.Tuple) and len(sl.elts) == 2:
                    a, b = sl.elts
                    none = lambda x: isinstance(x, ast.Constant) and x.value is None
                    full = lambda x: isinstance(x, ast.Slice) and x.lower is None and x.upper is None and x.step is None
                    if none(a) and full(b):
                        return V("Q", base.code("j"))      # varies along axis 1 (knot index)
                    if full(a) and none(b):
                        return V("Q", base.code("r"))      # varies along axis 0 (scan line)
                rej(e, "broadcast index")
            return None
        return None

    ev = Ev(hook)
    SKIP_TARGETS = {"self._pad_value", "self.pad_value", "self.kde_sigma", "self.images_warped", "self.weights_warped"}

    def loop_over_images(s):
        return (isinstance(s, ast.For) and isinstance(s.target, ast.Name) and not s.orelse
                and ast.unparse(s.iter) == "range(self.shape[0])" and "self.shape" in env and env["self.shape"].kind == "CANVAS")

    for s in body_wo_doc(f):
        if isinstance(s, ast.Assign) and len(s.targets) == 1 and key(s.targets[0]) is not None:
            k = key(s.targets[0])
            if k in SKIP_TARGETS or call_name(s.value) == "validate_pad_value":
                continue
            if k in ("self.knots", "self.interpolator"):
                if not (isinstance(s.value, ast.List) and not s.value.elts):
                    rej(s, "%s is not initialised with an empty list" % k)
                env[k] = V("LIST", k)
                continue
            if k == "self.shape":
                if not (isinstance(s.value, ast.Tuple) and len(s.value.elts) == 3):
                    rej(s, "self.shape is not a 3-tuple")
                vs = [ev(x, env) for x in s.value.elts]
                if not (vs[0].kind == "N" and vs[0].code == "n" and vs[1].kind == "Z" and vs[2].kind == "Z"):
                    rej(s, "self.shape is not (len(images), int, int)")
                out["canvas"] = (vs[1].code, vs[2].code)
                env[k] = V("CANVAS")
                continue
            env[k] = ev(s.value, env)
            continue
        if loop_over_images(s):
            lv = s.target.id
            st["loopvars"].add(lv)
            src = ast.unparse(s)
            if "self.knots.append" in src:
                if st["knots"] is not None:
                    rej(s, "second knot loop")
                lenv = dict(env)
                for b in s.body:
                    if isinstance(b, ast.Assign) and len(b.targets) == 1 and isinstance(b.targets[0], ast.Name):
                        lenv[b.targets[0].id] = ev(b.value, lenv)
                    elif isinstance(b, ast.Expr) and call_name(b.value) == "self.knots.append" and len(b.value.args) == 1 \
                            and env.get("self.knots", V("?")).kind == "LIST":
                        kn = ev(b.value.args[0], lenv)
                        if kn.kind != "KN" or st["knots"] is not None:
                            rej(b, "appended knots are not np.stack([xa, ya], axis=0)")
                        st["knots"] = kn.code
                    else:
                        rej(b, "statement of the knot loop")
            elif "self.interpolator.append" in src:
                if len(s.body) != 1 or st["interp"] is not None or env.get("self.interpolator", V("?")).kind != "LIST":
                    rej(s, "interpolator loop")
                b = s.body[0]
                if not (isinstance(b, ast.Expr) and call_name(b.value) == "self.interpolator.append" and len(b.value.args) == 1
                        and call_name(b.value.args[0]) == "DriftInterpolator" and not b.value.args[0].args):
                    rej(b, "interpolator construction")
                kw = kwargs_of(b.value.args[0])
                got = {}
                for name in ("input_shape", "output_shape", "scan_fast", "scan_slow"):
                    if name not in kw:
                        rej(b, "DriftInterpolator(%s=...) missing" % name)
                    got[name] = ev(kw[name], env)
                if got["input_shape"].kind != "SHAPE" or got["output_shape"].kind != "CANVAS2":
                    rej(b, "interpolator shapes are not (images[a0].shape, self.shape[1:])")
                if got["scan_fast"] is not env.get("self.scan_fast") or got["scan_slow"] is not env.get("self.scan_slow") \
                        or got["scan_fast"].kind != "VEC2":
                    rej(b, "interpolator scan vectors are not self.scan_fast[a0] / self.scan_slow[a0]")
                st["interp"] = set(kw)
            elif "warp_image" in src:
                if len(s.body) != 1 or not isinstance(s.body[0], ast.Assign):
                    rej(s, "warp loop")
                want = ("self.images_warped.array[{0}], self.weights_warped.array[{0}] = "
                        "self.interpolator[{0}].warp_image(self.images[{0}].array, self.knots[{0}])").format(lv)
                if ast.unparse(s.body[0]).replace("(", "").replace(")", "") != want.replace("(", "").replace(")", ""):
                    rej(s.body[0], "image i is not warped by interpolator i with knots i")
                st["warp"] = True
            else:
                rej(s, "unknown loop over the images")
            continue
        if isinstance(s, ast.Expr) and call_name(s.value) in ("self.calculate_error", "kwargs.pop"):
            continue
        if isinstance(s, ast.If) and isinstance(s.test, ast.Name) and s.test.id in ("show_merged", "show_images") and not s.orelse \
                and all(isinstance(b, ast.Expr) and (call_name(b.value) or "").startswith("self.plot_") for b in s.body):
            continue
        if isinstance(s, ast.Return) and ast.unparse(s) == "return self":
            continue
        rej(s, "statement of preprocess outside the grammar")
    for kname in ("self.scan_fast", "self.scan_slow"):
        if env.get(kname, V("?")).kind != "VEC2":
            raise Reject("%s is not assigned a stacked (n, 2) array" % kname)
    if st["knots"] is None or st["interp"] is None or not st["warp"] or "canvas" not in out:
        raise Reject("preprocess lost one of: canvas shape, knot loop, interpolator loop, warp loop")
    out["scan_fast"] = env["self.scan_fast"].code
    out["scan_slow"] = env["self.scan_slow"].code
    out["init_knot"] = st["knots"]
    out["lines_preprocess"] = (f.lineno, f.end_lineno)


# ------------------------------------------------------------------------------------------ DriftInterpolator
def interp_hook(facts):
    def hook(e, env, ev):
        if isinstance(e, ast.Call):
            fn = call_name(e)
            kw = kwargs_of(e)
            if fn == "np.linspace" and len(e.args) == 3 and not kw:
                a, b, n = (ev(x, env) for x in e.args)
                if n.kind != "N":
                    rej(e, "number of samples is not a shape entry / the knot count")
                qa, qb = toQ(a, e), toQ(b, e)
                return V("A1", (lambda i, qa=qa, qb=qb, n=n.code: "(np_linspace %s %s %s %s)" % (qa, qb, n, i)), n=n.code)
            if isinstance(e.func, ast.Call) and call_name(e.func) == "interp1d":
                inner = e.func
                ikw = kwargs_of(inner)
                if len(e.args) != 1 or e.keywords or len(inner.args) != 2 or "kind" not in ikw:
                    rej(e, "interp1d call shape")
                for k_, v_ in ikw.items():
                    if k_ == "kind":
                        continue
                    if (k_, ast.unparse(v_)) not in (("assume_sorted", "True"), ("fill_value", "'extrapolate'")):
                        rej(e, "interp1d option %s" % k_)
                nodes, vals, x = ev(inner.args[0], env), ev(inner.args[1], env), ev(e.args[0], env)
                kd = ev(ikw["kind"], env)
                if kd.kind == "S":
                    kd = V("KIND", {"linear": "KLinear", "quadratic": "KQuadratic", "cubic": "KCubic"}.get(kd.code))
                if kd.kind != "KIND" or kd.code is None:
                    rej(e, "interp1d kind")
                if nodes.kind != "A1" or vals.kind != "KCOMP" or x.kind != "A1" or nodes.n != "K" or x.n != "W":
                    rej(e, "interp1d arguments are not (basis, knots_row[k])(self.u)")
                return V("OQ", "(interp1d %s (fun j => %s) (fun j => %s (kn j)) K %s)"
                         % (kd.code, nodes.code("j"), ("fst", "snd")[vals.code], x.code("col")))
            return None
        if isinstance(e, ast.IfExp):
            t = ev(e.test, env)
            a, b = ev(e.body, env), ev(e.orelse, env)
            names = {"linear": "KLinear", "quadratic": "KQuadratic", "cubic": "KCubic"}
            if t.kind == "COND" and a.kind == "S" and b.kind == "S" and a.code in names and b.code in names:
                return V("KIND", "(if %s then %s else %s)" % (t.code, names[a.code], names[b.code]))
            rej(e, "conditional expression")
        if isinstance(e, ast.Compare) and len(e.ops) == 1 and isinstance(e.ops[0], ast.Eq):
            a, b = ev(e.left, env), ev(e.comparators[0], env)
            if a.kind == "N" and b.kind == "C" and b.code.denominator == 1 and b.code >= 0:
                return V("COND", "(Nat.eqb %s %d)" % (a.code, b.code.numerator), var=a.code, val=b.code.numerator)
            rej(e, "comparison")
        if isinstance(e, ast.Attribute) and e.attr == "shape":
            b = ev(e.value, env)
            if b.kind in ("KROW", "KNOTS"):
                return V("KSHAPE")
            return None
        if isinstance(e, ast.Subscript):
            base = ev(e.value, env)
            sl = e.slice
            if base.kind == "KSHAPE" and const_int(sl) == -1:
                return V("N", "K")
            if base.kind == "SHAPE" and const_int(sl) in (0, 1):
                return V("N", base.code[const_int(sl)])
            if base.kind == "VEC2" and const_int(sl) in (0, 1):
                return V("Q", base.code[const_int(sl)])
            if base.kind == "KROW" and const_int(sl) in (0, 1):
                return V("KCOMP", const_int(sl))
            if base.kind == "A1" and isinstance(sl, ast.Tuple) and len(sl.elts) == 2 \
                    and isinstance(sl.elts[0], ast.Constant) and sl.elts[0].value is None \
                    and isinstance(sl.elts[1], ast.Slice) and ast.unparse(sl.elts[1]) == ":" and base.n == "W":
                return V("Q", base.code("col"))
            return None
        return None
    return hook


def tr_interpolator(cls, out):
    init = find_method(cls, "__init__")
    params = [a.arg for a in init.args.args]
    for need in ("input_shape", "scan_fast"):
        if need not in params:
            raise Reject("parameter %s of DriftInterpolator.__init__ is gone" % need)
    env = {p: V("OPAQUE") for p in params}
    env["input_shape"] = V("SHAPE", ["H", "W"])
    env["scan_fast"] = V("VEC2", ["(fst (gen_scan_fast s c))", "(snd (gen_scan_fast s c))"])
    env["scan_slow"] = V("VEC2", ["(fst (gen_scan_slow s c))", "(snd (gen_scan_slow s c))"])
    facts = {}
    ev = Ev(interp_hook(facts))
    for s in body_wo_doc(init):
        if not (isinstance(s, ast.Assign) and len(s.targets) == 1 and (key(s.targets[0]) or "").startswith("self.")):
            rej(s, "statement of DriftInterpolator.__init__")
        k = key(s.targets[0])
        if k in ("self.rows_input", "self.cols_input"):
            continue        # not read by the translated methods (a read would be an unknown name)
        env[k] = ev(s.value, env)
    self_env = {k: v for k, v in env.items() if k.startswith("self.")}
    if self_env.get("self.u", V("?")).kind != "A1":
        raise Reject("self.u is not a linspace")
    out["u"] = self_env["self.u"].code("col")

    # ---- transform_rows: CPS over if / elif / else, result = option vec
    f = find_method(cls, "transform_rows")
    if [a.arg for a in f.args.args][1:] != [f.args.args[1].arg] or len(f.args.args) != 2:
        raise Reject("transform_rows signature")
    renv = dict(self_env)
    renv[f.args.args[1].arg] = V("KROW")

    def num(v, node, fct):
        if v.kind == "KCOMP":
            # a (.., 1) knot array broadcasts along the columns: legitimate only where the knot count is known to be 1
            if fct.get("K") != 1:
                rej(node, "knots used elementwise where the knot count is not known to be 1")
            return V("Q", "(%s (kn 0%%nat))" % ("fst", "snd")[v.code])
        return v

    def block(stmts, env, fct):
        if not stmts:
            raise Reject("a path through transform_rows does not return")
        s, rest = stmts[0], stmts[1:]
        if isinstance(s, ast.Assign) and len(s.targets) == 1 and isinstance(s.targets[0], ast.Name):
            val = eval_with_knots(s.value, env, fct)
            env2 = dict(env)
            env2[s.targets[0].id] = val
            return block(rest, env2, fct)
        if isinstance(s, ast.If):
            t = Ev(interp_hook(fct))(s.test, env)
            if t.kind != "COND":
                rej(s, "condition")
            f1 = dict(fct)
            f1[t.var] = t.val
            a = block(list(s.body) + rest, dict(env), f1)
            b = block(list(s.orelse) + rest, dict(env), dict(fct))
            return "(if %s then %s else %s)" % (t.code, a, b)
        if isinstance(s, ast.Return):
            if not (isinstance(s.value, ast.Tuple) and len(s.value.elts) == 2):
                rej(s, "return value")
            parts = []
            for x in s.value.elts:
                v = eval_with_knots(x, env, fct)
                if v.kind == "OQ":
                    parts.append(v.code)
                elif v.kind in ("Q", "C"):
                    parts.append("(Some %s)" % toQ(v, s))
                else:
                    rej(s, "returned value of kind %s" % v.kind)
            return "(opt_pair %s %s)" % tuple(parts)
        rej(s, "statement of transform_rows")

    def eval_with_knots(e, env, fct):
        base_hook = interp_hook(fct)

        def hook(node, env2, ev2):
            v = base_hook(node, env2, ev2)
            if v is not None:
                return num(v, node, fct) if isinstance(node, ast.Subscript) and v.kind == "KCOMP" and coercing[0] else v
            return None
        # knots_row[k] stays symbolic (KCOMP) as an argument of interp1d, and becomes kn 0 in arithmetic
        coercing = [False]

        class E2(Ev):
            def __call__(self2, node, env2):
                if isinstance(node, ast.BinOp):
                    old = coercing[0]
                    coercing[0] = True
                    try:
                        return Ev.__call__(self2, node, env2)
                    finally:
                        coercing[0] = old
                if isinstance(node, ast.Call):
                    old = coercing[0]
                    coercing[0] = False
                    try:
                        return Ev.__call__(self2, node, env2)
                    finally:
                        coercing[0] = old
                return Ev.__call__(self2, node, env2)
        return E2(hook)(e, env)

    out["transform_rows"] = block(body_wo_doc(f), renv, {})
    out["lines_rows"] = (f.lineno, f.end_lineno)

    # ---- transform_coordinates: 1 knot = one vectorised call, otherwise one call per scan line
    g = find_method(cls, "transform_coordinates")
    if len(g.args.args) != 2:
        raise Reject("transform_coordinates signature")
    kname = g.args.args[1].arg
    cenv = dict(self_env)
    cenv[kname] = V("KNOTS")
    evc = Ev(interp_hook({}))

    def rows_call(e, env, row):
        """self.transform_rows(<knots> | <knots>[:, i])"""
        if not (call_name(e) == "self.transform_rows" and len(e.args) == 1 and not e.keywords):
            rej(e, "not a transform_rows call")
        a = e.args[0]
        if row is None:
            if not (isinstance(a, ast.Name) and env.get(a.id, V("?")).kind == "KNOTS"):
                rej(e, "vectorised call is not on the whole knot array")
        else:
            if not (isinstance(a, ast.Subscript) and isinstance(a.value, ast.Name) and env.get(a.value.id, V("?")).kind == "KNOTS"
                    and isinstance(a.slice, ast.Tuple) and len(a.slice.elts) == 2 and ast.unparse(a.slice.elts[0]) == ":"
                    and isinstance(a.slice.elts[1], ast.Name) and a.slice.elts[1].id == row):
                rej(e, "row call is not on knots[:, i] of the loop variable")
        return "(gen_transform_rows H W K s c (kn r) col)"

    def cblock(stmts, env, fct):
        if not stmts:
            raise Reject("a path through transform_coordinates does not return")
        s, rest = stmts[0], stmts[1:]
        if isinstance(s, ast.Assign) and len(s.targets) == 1 and isinstance(s.targets[0], ast.Name):
            if call_name(s.value) == "np.zeros" and len(s.value.args) == 1 and not s.value.keywords \
                    and evc(s.value.args[0], env).kind == "SHAPE":
                v = V("ZEROS")
            else:
                v = evc(s.value, env)
            env2 = dict(env)
            env2[s.targets[0].id] = v
            return cblock(rest, env2, fct)
        if isinstance(s, ast.Assign) and len(s.targets) == 1 and isinstance(s.targets[0], ast.Tuple) \
                and len(s.targets[0].elts) == 2 and all(isinstance(t, ast.Name) for t in s.targets[0].elts):
            if fct.get("K") != 1:
                rej(s, "vectorised transform_rows call where the knot count is not known to be 1")
            code = rows_call(s.value, env, None)
            env2 = dict(env)
            for i_, t in enumerate(s.targets[0].elts):
                env2[t.id] = V("RES", code, comp=i_)
            return cblock(rest, env2, fct)
        if isinstance(s, ast.For) and isinstance(s.target, ast.Name) and not s.orelse and len(s.body) == 1:
            it = s.iter
            if not (call_name(it) == "range" and len(it.args) == 1 and evc(it.args[0], env).kind == "N"
                    and evc(it.args[0], env).code == "H"):
                rej(s, "row loop does not run over range(input_shape[0])")
            b = s.body[0]
            if not (isinstance(b, ast.Assign) and len(b.targets) == 1 and isinstance(b.targets[0], ast.Tuple)
                    and len(b.targets[0].elts) == 2):
                rej(b, "row loop body")
            code = rows_call(b.value, env, s.target.id)
            env2 = dict(env)
            for i_, t in enumerate(b.targets[0].elts):
                if not (isinstance(t, ast.Subscript) and isinstance(t.value, ast.Name) and env.get(t.value.id, V("?")).kind == "ZEROS"
                        and isinstance(t.slice, ast.Name) and t.slice.id == s.target.id):
                    rej(b, "row result is not stored in row i of a fresh array")
                env2[t.value.id] = V("RES", code, comp=i_)
            return cblock(rest, env2, fct)
        if isinstance(s, ast.If):
            t = evc(s.test, env)
            if t.kind != "COND":
                rej(s, "condition")
            f1 = dict(fct)
            f1[t.var] = t.val
            return "(if %s then %s else %s)" % (t.code, cblock(list(s.body) + rest, dict(env), f1),
                                                cblock(list(s.orelse) + rest, dict(env), dict(fct)))
        if isinstance(s, ast.Return):
            if not (isinstance(s.value, ast.Tuple) and len(s.value.elts) == 2 and all(isinstance(x, ast.Name) for x in s.value.elts)):
                rej(s, "return value")
            a, b = (env.get(x.id, V("?")) for x in s.value.elts)
            if not (a.kind == "RES" and b.kind == "RES" and a.comp == 0 and b.comp == 1 and a.code == b.code):
                rej(s, "returned arrays are not the (row, column) coordinates of one transform_rows result")
            return a.code
        rej(s, "statement of transform_coordinates")

    out["transform_coordinates"] = cblock(body_wo_doc(g), cenv, {})
    out["lines_coords"] = (g.lineno, g.end_lineno)


# ------------------------------------------------------------------------------------------ bilinear_kde (the splat)
def tr_splat(tree, out):
    f = None
    for n in tree.body:
        if isinstance(n, ast.FunctionDef) and n.name == "bilinear_kde":
            f = n
    if f is None:
        raise Reject("bilinear_kde not found")
    params = [a.arg for a in f.args.args]
    for need in ("xa", "ya", "values", "output_shape", "max_batch_size"):
        if need not in params:
            raise Reject("parameter %s of bilinear_kde is gone" % need)
    env = {p: V("OPAQUE") for p in params}
    env.update({"xa": V("SRC", "(fst p)"), "ya": V("SRC", "(snd p)"), "values": V("SRC", None),
                "output_shape": V("OSHAPE"), "max_batch_size": V("MB", "mb")})
    st = {"acc": {}, "mb_default": False, "loop": None, "slice": None}

    def sample_slice(sl, env):
        """x[start:end] with the loop variables of the batch loop"""
        return (st["slice"] is not None and isinstance(sl, ast.Slice) and sl.step is None
                and isinstance(sl.lower, ast.Name) and isinstance(sl.upper, ast.Name)
                and (sl.lower.id, sl.upper.id) == st["slice"])

    def hook(e, env, ev):
        if isinstance(e, ast.Call):
            fn = call_name(e)
            kw = kwargs_of(e)
            if isinstance(e.func, ast.Attribute) and e.func.attr == "ravel" and not e.args and not kw:
                b = ev(e.func.value, env)
                if b.kind != "SRC":
                    rej(e, "ravel of something else than xa / ya / values")
                return V("VAL") if b.code is None else V("Q", b.code, per_sample=True)
            if isinstance(e.func, ast.Attribute) and e.func.attr == "astype" and len(e.args) == 1 and not kw \
                    and ast.unparse(e.args[0]) in ("int", "np.int64", "'int'") and call_name(e.func.value) == "np.floor" \
                    and len(e.func.value.args) == 1 and not e.func.value.keywords:
                a = ev(e.func.value.args[0], env)
                if a.kind != "Q":
                    rej(e, "floor argument")
                return V("Z", "(np_floor_int %s)" % a.code)
            if fn == "np.ravel_multi_index" and len(e.args) == 1 and set(kw) == {"dims", "mode"}:
                if not (ev(kw["dims"], env).kind == "OSHAPE" and ast.unparse(kw["mode"]) == "'wrap'"):
                    rej(e, "ravel_multi_index dims / mode")
                a = ev(e.args[0], env)
                if a.kind != "PAIR":
                    rej(e, "ravel_multi_index argument")
                return V("Z", "(ravel_wrap rows cols %s %s)" % (a.code[0], a.code[1]))
            return None
        if isinstance(e, ast.List) and len(e.elts) == 2:
            a, b = (ev(x, env) for x in e.elts)
            if a.kind in ("Z",) and b.kind in ("Z",):
                return V("PAIR", [a.code, b.code])
            return None
        if isinstance(e, ast.Subscript):
            b = ev(e.value, env)
            if b.kind in ("Q", "Z", "VAL") and sample_slice(e.slice, env):
                return b            # the sample of the current batch
            if b.kind in ("Q", "Z") and const_int(e.slice) is None and isinstance(e.value, ast.Attribute):
                return None
            return None
        if isinstance(e, ast.Attribute) and e.attr == "shape":
            b = ev(e.value, env)
            if b.kind in ("Q", "Z") :
                return V("NSHAPE")
            return None
        return None

    class E3(Ev):
        def __call__(self, e, env):
            if isinstance(e, ast.Subscript):
                b = Ev.__call__(self, e.value, env) if not isinstance(e.value, (ast.Subscript,)) else None
                if b is not None and b.kind == "NSHAPE" and const_int(e.slice) == 0:
                    return V("NS")          # number of samples
            if isinstance(e, ast.BinOp):
                a, b = Ev.__call__(self, e.left, env), Ev.__call__(self, e.right, env)
                if "VAL" in (a.kind, b.kind):
                    return V("VAL")         # the image-value channel is not part of the geometry
            return Ev.__call__(self, e, env)
    ev = E3(hook)

    def is_zeros_acc(v):
        return (call_name(v) == "np.zeros" and len(v.args) == 1 and set(kwargs_of(v)) <= {"dtype"}
                and ast.unparse(v.args[0]).replace(" ", "") in ("rows*cols", "cols*rows"))

    body = body_wo_doc(f)
    stop = None
    for si, s in enumerate(body):
        if isinstance(s, ast.Assign) and len(s.targets) == 1 and isinstance(s.targets[0], ast.Tuple):
            if ast.unparse(s) == "rows, cols = output_shape":
                env["rows"], env["cols"] = V("Z", "rows"), V("Z", "cols")
                continue
            rej(s, "tuple assignment")
        if isinstance(s, ast.Assign) and len(s.targets) == 1 and isinstance(s.targets[0], ast.Name):
            nm = s.targets[0].id
            if is_zeros_acc(s.value):
                if "rows" not in env:
                    rej(s, "accumulator before rows, cols")
                env[nm] = V("ACC", nm)
                st["acc"][nm] = None
                continue
            if nm in ("xa", "ya", "values", "output_shape", "max_batch_size") or env.get(nm, V("?")).kind in ("ACC", "SRC"):
                rej(s, "re-assignment of an input / accumulator before the splat")
            env[nm] = ev(s.value, env)
            if env[nm].kind not in ("Q", "Z", "VAL"):
                rej(s, "per-sample array of kind %s" % env[nm].kind)
            continue
        if isinstance(s, ast.If) and ast.unparse(s.test) == "max_batch_size is None" and not s.orelse and len(s.body) == 1:
            b = s.body[0]
            if not (isinstance(b, ast.Assign) and key(b.targets[0]) == "max_batch_size" and ev(b.value, env).kind == "NS"):
                rej(s, "default of max_batch_size is not the number of samples")
            st["mb_default"] = True
            continue
        if isinstance(s, ast.For):
            stop = si
            break
        rej(s, "statement before the splat loop outside the grammar")
    if stop is None or not st["mb_default"]:
        raise Reject("splat loop / max_batch_size default not found")
    loop = body[stop]
    it = loop.iter
    if not (call_name(it) == "generate_batches" and len(it.args) == 1 and ev(it.args[0], env).kind == "NS"
            and set(kwargs_of(it)) == {"max_batch"} and key(kwargs_of(it)["max_batch"]) == "max_batch_size"
            and isinstance(loop.target, ast.Tuple) and len(loop.target.elts) == 2
            and all(isinstance(t, ast.Name) for t in loop.target.elts) and not loop.orelse and len(loop.body) == 1):
        rej(loop, "batch loop is not `for start, end in generate_batches(<number of samples>, max_batch=max_batch_size)`")
    st["slice"] = tuple(t.id for t in loop.target.elts)
    inner = loop.body[0]
    if not (isinstance(inner, ast.For) and isinstance(inner.target, ast.Tuple) and len(inner.target.elts) == 3
            and all(isinstance(t, ast.Name) for t in inner.target.elts) and isinstance(inner.iter, ast.List) and not inner.orelse):
        rej(inner, "tap loop is not `for ox, oy, weights in [...]`")
    ox, oy, wn = (t.id for t in inner.target.elts)
    taps = []
    for tup in inner.iter.elts:
        if not (isinstance(tup, ast.Tuple) and len(tup.elts) == 3 and const_int(tup.elts[0]) is not None
                and const_int(tup.elts[1]) is not None):
            rej(tup, "tap")
        wv = ev(tup.elts[2], env)
        if wv.kind != "Q":
            rej(tup, "tap weight")
        taps.append((const_int(tup.elts[0]), const_int(tup.elts[1]), wv.code))
    lenv = dict(env)
    lenv[ox], lenv[oy], lenv[wn] = V("Z", "ox"), V("Z", "oy"), V("TAPW")
    index = None
    seen_acc = set()
    for b in inner.body:
        if isinstance(b, ast.Assign) and len(b.targets) == 1 and isinstance(b.targets[0], ast.Name):
            if b.targets[0].id in env:
                rej(b, "re-assignment of a per-sample array inside the splat loop")
            lenv[b.targets[0].id] = ev(b.value, lenv)
            continue
        if isinstance(b, ast.AugAssign) and isinstance(b.op, ast.Add) and isinstance(b.target, ast.Name) \
                and lenv.get(b.target.id, V("?")).kind == "ACC" and call_name(b.value) == "np.bincount" \
                and len(b.value.args) == 1 and set(kwargs_of(b.value)) == {"weights", "minlength"}:
            kw = kwargs_of(b.value)
            if ast.unparse(kw["minlength"]).replace(" ", "") not in ("rows*cols", "cols*rows"):
                rej(b, "bincount minlength")
            iv = ev(b.value.args[0], lenv)
            if iv.kind != "Z" or "ravel_wrap" not in iv.code:
                rej(b, "bincount indices are not the wrapped flat indices")
            wv = ev(kw["weights"], lenv)
            if b.target.id in seen_acc:
                rej(b, "accumulator updated twice")
            seen_acc.add(b.target.id)
            if wv.kind == "TAPW":
                if index is not None:
                    rej(b, "two weight accumulators")
                index = iv.code
                st["count_acc"] = b.target.id
            elif wv.kind != "VAL":
                rej(b, "bincount weights")
            continue
        rej(b, "statement of the splat loop")
    if index is None or set(st["acc"]) != seen_acc:
        raise Reject("the weight accumulator is not updated with the tap weights in the splat loop")
    # what follows must first reshape the accumulator (nothing else touches it before the KDE)
    nxt = body[stop + 1:stop + 3]
    if not any(ast.unparse(s) == "%s = %s.reshape(output_shape)" % (st["count_acc"], st["count_acc"]) for s in nxt):
        raise Reject("the weight accumulator is not reshaped to output_shape right after the splat loop")
    out["index"] = index
    out["taps"] = taps
    out["lines_splat"] = (f.lineno, loop.end_lineno)


# ------------------------------------------------------------------------------------------ align_translation
def tr_align(cls, out):
    f = find_method(cls, "align_translation")
    params = [a.arg for a in f.args.args]
    if "min_image_shift" not in params:
        raise Reject("parameter min_image_shift of align_translation is gone")
    st = {"dxy": None, "versions": [], "leftover": None, "shift_name": None, "knots": False, "warp": False}

    def mentions(node, name):
        return any(isinstance(x, ast.Name) and x.id == name for x in ast.walk(node))

    def cur():
        return "dxy%d" % (len(st["versions"]) - 1)

    def push(body):
        st["versions"].append(body)

    def n_images(e):
        return ast.unparse(e) == "self.shape[0]"

    stmts = body_wo_doc(f)
    for s in stmts:
        d = st["dxy"]
        src = ast.unparse(s)
        if isinstance(s, ast.If) and src.startswith("if not hasattr(self, 'knots'):"):
            continue
        if isinstance(s, ast.Assign) and len(s.targets) == 1 and isinstance(s.targets[0], ast.Name) \
                and ast.unparse(s.value).replace(" ", "") == "np.zeros((self.shape[0],2))":
            if d is not None:
                rej(s, "second shift array")
            st["dxy"] = s.targets[0].id
            push("fun _ : nat => ((0, 0) : vec)")
            continue
        local_only = isinstance(s, ast.Assign) and all(isinstance(t, ast.Name) for t in s.targets)
        if d is None:
            if local_only and "self.knots" not in src:
                continue
            rej(s, "statement before the shift array is created")
        if local_only and not mentions(s, d) and "self.knots" not in src:
            continue            # a local that does not involve the shift array or the knots, e.g. F_ref = fft2(...)
        if isinstance(s, ast.For) and isinstance(s.target, ast.Name) and ast.unparse(s.iter) == "range(1, self.shape[0])" \
                and not s.orelse and st["leftover"] is None:
            lv = s.target.id
            wrote = False
            for b in s.body:
                if isinstance(b, ast.Assign) and len(b.targets) == 1 and isinstance(b.targets[0], ast.Tuple) \
                        and call_name(b.value) == "cross_correlation_shift" and len(b.targets[0].elts) == 2 \
                        and isinstance(b.targets[0].elts[0], ast.Name):
                    kw = kwargs_of(b.value)
                    if ast.unparse(kw.get("return_shifted_image", ast.Constant(False))) != "True":
                        rej(b, "estimator call does not return (shifts, shifted image)")
                    second = "np.fft.fft2(self.images_warped.array[%s])" % lv
                    if len(b.value.args) != 2 or ast.unparse(b.value.args[1]) != second:
                        rej(b, "estimator is not run on warped image `%s` against the reference" % lv)
                    st["shift_name"] = b.targets[0].elts[0].id
                    continue
                if isinstance(b, ast.Assign) and len(b.targets) == 1 and isinstance(b.targets[0], ast.Subscript) \
                        and isinstance(b.targets[0].value, ast.Name) and b.targets[0].value.id == d:
                    if ast.unparse(b.targets[0].slice) not in ("(%s, slice(None, None, None))" % lv, "%s, :" % lv, "(%s, :)" % lv, lv) \
                            or not (isinstance(b.value, ast.Name) and b.value.id == st["shift_name"]) or wrote:
                        rej(b, "row `%s` of the shift array is not set to the measured shift" % lv)
                    wrote = True
                    continue
                if isinstance(b, ast.Assign) and all(isinstance(t, ast.Name) for t in b.targets) and not mentions(b, d) \
                        and "self.knots" not in ast.unparse(b):
                    continue    # running reference (a local)
                rej(b, "statement of the measuring loop")
            if not wrote:
                rej(s, "measuring loop does not store the shifts")
            prev = cur()
            push("fun i : nat => if (Nat.leb 1 i && Nat.ltb i n)%%bool then shifts i else %s i" % prev)
            st["leftover"] = lv
            continue
        if isinstance(s, ast.AugAssign) and isinstance(s.op, ast.Sub) and isinstance(s.target, ast.Name) and s.target.id == d:
            if ast.unparse(s.value).replace(" ", "") != "np.mean(%s,axis=0)" % d:
                rej(s, "subtracted value is not the mean shift")
            prev = cur()
            push("fun i : nat => (fst (%s i) - fst (np_mean0 n %s), snd (%s i) - snd (np_mean0 n %s))" % (prev, prev, prev, prev))
            continue
        if isinstance(s, ast.If) and ast.unparse(s.test) == "min_image_shift is not None" and not s.orelse and len(s.body) == 1:
            b = s.body[0]
            lv = st["leftover"]
            if lv is None:
                rej(s, "threshold before the measuring loop")
            if not (isinstance(b, ast.If) and not b.orelse and len(b.body) == 1
                    and ast.unparse(b.test) == "np.linalg.norm(%s[%s]) < min_image_shift" % (d, lv)
                    and ast.unparse(b.body[0]) in ("%s[%s] = 0.0" % (d, lv), "%s[%s] = 0" % (d, lv))):
                rej(s, "threshold block is not `if norm(dxy[ind]) < min_image_shift: dxy[ind] = 0`")
            prev = cur()
            push("fun i : nat => match mis with None => %s i | Some t => if norm_lt (%s (n - 1)%%nat) t then "
                 "(if Nat.eqb i (n - 1) then (0, 0) else %s i) else %s i end" % (prev, prev, prev, prev))
            continue
        if isinstance(s, ast.For) and isinstance(s.target, ast.Name) and ast.unparse(s.iter) == "range(self.shape[0])" and not s.orelse:
            lv = s.target.id
            if "warp_image" in src:
                want = ("self.images_warped.array[{0}], self.weights_warped.array[{0}] = "
                        "self.interpolator[{0}].warp_image(self.images[{0}].array, self.knots[{0}])").format(lv)
                if len(s.body) != 1 or ast.unparse(s.body[0]).replace("(", "").replace(")", "") != want.replace("(", "").replace(")", ""):
                    rej(s, "image i is not re-warped by interpolator i with knots i")
                if not st["knots"]:
                    rej(s, "images are re-warped before the knots are updated")
                st["warp"] = True
                continue
            got = sorted(ast.unparse(b) for b in s.body)
            want = sorted("self.knots[%s][%d] += %s[%s, %d]" % (lv, a, d, lv, a) for a in (0, 1))
            if got != want or st["knots"]:
                rej(s, "knot update is not knots[i][a] += dxy[i, a] for a = 0, 1")
            st["knots"] = True
            out["applied_versions"] = list(st["versions"])
            continue
        if isinstance(s, ast.Expr) and call_name(s.value) == "kwargs.pop":
            continue
        if isinstance(s, ast.If) and isinstance(s.test, ast.Name) and s.test.id in ("show_merged", "show_images") and not s.orelse \
                and all(isinstance(b, ast.Expr) and (call_name(b.value) or "").startswith("self.plot_") for b in s.body):
            continue
        if isinstance(s, ast.Return) and src == "return self":
            continue
        rej(s, "statement of align_translation outside the grammar")
    if not (st["knots"] and st["warp"] and st["leftover"] and len(out.get("applied_versions", [])) >= 3):
        raise Reject("align_translation lost one of: measuring loop, mean removal, knot update, re-warp")
    out["lines_align"] = (f.lineno, f.end_lineno)


# ------------------------------------------------------------------------------------------ emit
def translate(src_root: Path):
    """-> (coq text, info)"""
    pd = src_root / "quantem" / REL_DRIFT
    pu = src_root / "quantem" / REL_UTILS
    td, tu = ast.parse(pd.read_text()), ast.parse(pu.read_text())
    imports = "\n".join(ast.unparse(n) for n in td.body if isinstance(n, (ast.Import, ast.ImportFrom)))
    if not re.search(r"from scipy\.interpolate import .*\binterp1d\b", imports) or "import numpy as np" not in imports:
        raise Reject("drift.py no longer imports numpy as np / scipy.interpolate.interp1d")
    iu = "\n".join(ast.unparse(n) for n in tu.body if isinstance(n, (ast.Import, ast.ImportFrom)))
    if not re.search(r"from quantem\.core\.utils\.utils import .*\bgenerate_batches\b", iu) or "import numpy as np" not in iu:
        raise Reject("imaging_utils.py no longer imports numpy as np / generate_batches")
    out = {}
    dc = find_class(td, "DriftCorrection")
    tr_preprocess(dc, out)
    tr_interpolator(find_class(td, "DriftInterpolator"), out)
    tr_splat(tu, out)
    tr_align(dc, out)
    vs = out["applied_versions"]
    lets = "".join("  let dxy%d := %s in\n" % (i, b) for i, b in enumerate(vs))
    last = "dxy%d" % (len(vs) - 1)
    taps = ";\n     ".join("((%d)%%Z, (%d)%%Z, fun p : vec => %s)" % t for t in out["taps"])
    text = (
        "(* GENERATED by harness/c15_tie.py from %s (preprocess %d-%d, align_translation %d-%d, transform_rows %d-%d,\n"
        "   transform_coordinates %d-%d) and %s (bilinear_kde %d-%d) — do not edit *)\n"
        % (REL_DRIFT, *out["lines_preprocess"], *out["lines_align"], *out["lines_rows"], *out["lines_coords"],
           REL_UTILS, *out["lines_splat"]) +
        "From QV.lib Require Import Prelude Chunks C15_TieLib.\n"
        "From QV.model Require Import C15_Model.\n"
        "From Coq Require Import QArith Qround.\n"
        "Local Open Scope Q_scope.\n\n"
        "(* ---- DriftCorrection.preprocess *)\n"
        "Definition gen_scan_fast (s c : Q) : vec := (%s, %s).\n"
        "Definition gen_scan_slow (s c : Q) : vec := (%s, %s).\n"
        "Definition gen_canvas_rows (H W : nat) (pad : Q) : Z := %s.\n"
        "Definition gen_canvas_cols (H W : nat) (pad : Q) : Z := %s.\n"
        "Definition gen_init_knot (rows cols : Z) (H W K : nat) (s c : Q) (r j : nat) : vec :=\n  (%s,\n   %s).\n\n"
        % (*out["scan_fast"], *out["scan_slow"], *out["canvas"], *out["init_knot"]) +
        "(* ---- DriftInterpolator *)\n"
        "Definition gen_u (H W : nat) (col : nat) : Q := %s.\n"
        "Definition gen_transform_rows (H W K : nat) (s c : Q) (kn : nat -> vec) (col : nat) : option vec :=\n  %s.\n"
        "Definition gen_transform_coordinates (H W K : nat) (s c : Q) (kn : knots_t) (r col : nat) : option vec :=\n  %s.\n\n"
        % (out["u"], out["transform_rows"], out["transform_coordinates"]) +
        "(* ---- bilinear_kde: the splat *)\n"
        "Definition gen_index (rows cols : Z) (ox oy : Z) (p : vec) : Z := %s.\n"
        "Definition gen_taps : list (Z * Z * (vec -> Q)) :=\n    [%s].\n"
        "Definition gen_pix_count (rows cols : Z) (mb : option nat) (pts : list vec) (k : Z) : Q :=\n"
        "  kde_accumulate (gen_index rows cols) gen_taps (kde_batches mb pts) k.\n\n"
        % (out["index"], taps) +
        "(* ---- DriftCorrection.align_translation *)\n"
        "Definition gen_applied_shift (n : nat) (mis : option Q) (shifts : nat -> vec) (i : nat) : vec :=\n%s  %s i.\n"
        "Definition gen_align_knots (n : nat) (mis : option Q) (shifts : nat -> vec) (kn : nat -> knots_t) (i : nat) : knots_t :=\n"
        "  fun r j => (fst (kn i r j) + fst (gen_applied_shift n mis shifts i), snd (kn i r j) + snd (gen_applied_shift n mis shifts i)).\n"
        % (lets, last))
    info = {"source": {REL_DRIFT: {"preprocess": out["lines_preprocess"], "align_translation": out["lines_align"],
                                   "transform_rows": out["lines_rows"], "transform_coordinates": out["lines_coords"]},
                       REL_UTILS: {"bilinear_kde": out["lines_splat"]}},
            "generated_sha256": hashlib.sha256(text.encode()).hexdigest()}
    return text, info


# ------------------------------------------------------------------------------------------ cross-test of the translator
XPRE = """From QV.lib Require Import Prelude Chunks C15_TieLib.
From QV.model Require Import C15_Model.
From GenC15 Require Import Gen_C15.
From Coq Require Import QArith Qround.
Local Open Scope Q_scope.
Definition sc (q : Q) : Z := Qfloor (q * inject_Z (2 ^ 60)).
Definition scv (p : vec) : Z * Z := (sc (fst p), sc (snd p)).
Definition osc (o : option vec) : Z * (Z * Z) := match o with Some w => (1%Z, scv w) | None => (0%Z, (0%Z, 0%Z)) end.
Definition kfun (l : list (list vec)) : knots_t := fun r j => nth j (nth r l []) (0, 0).
Definition shf (l : list vec) (i : nat) : vec := nth i l (0, 0).
Definition pixc (rows cols : Z) (mb : option nat) (pts : list vec) :=
  map (fun t => sc (gen_pix_count rows cols mb pts (Z.of_nat t))) (seq 0 (Z.to_nat (rows * cols))).
"""
XSCALE = 1 << 60


def _fr(x):
    return Fraction(*float(x).as_integer_ratio())


def _vecl(pairs):
    return "[" + "; ".join("(%s, %s)" % (cq(_fr(a)), cq(_fr(b))) for a, b in pairs) + "]"


def cross_test(ctx: Ctx, flags):
    """evaluate the GENERATED functions by vm_compute and compare with calling the real Python functions, so that a
    translator bug is not silent.  returns a list of mismatch descriptions"""
    import numpy as np
    import quantem.imaging.drift as D
    from quantem.core.utils.imaging_utils import bilinear_kde

    import random
    r = random.Random(ctx.seed * 7919 + 15)      # derived from VERIF_SEED; the case stream of ctx.rng is left untouched
    exprs, todo = [], []
    n_dc = 36
    for ci in range(n_dc):
        H, W = r.randint(1, 14), r.randint(1, 14)
        if ci % 5 == 0:
            H, W = r.choice([(10, 16), (16, 10), (3, 20), (21, 2), (7, 7)])
        pad = r.choice([0.0, 0.0625, 0.125, 0.25, 0.375, 0.5, 0.75, 1.0, 1.5, 0.3125])
        if min(H, W) == 1 and pad == 0.0:
            pad = 0.25
        K = 1 + ci % 4
        n = r.choice([2, 3, 4])
        angles = [r.choice([0.0, 90.0, 180.0, 270.0, 45.0]) if r.random() < 0.3 else r.uniform(0.0, 360.0) for _ in range(n)]
        g = np.random.default_rng(r.randrange(1 << 30))
        imgs = [g.random((H, W)) for _ in range(n)]
        dc = D.DriftCorrection.from_data(imgs, scan_direction_degrees=angles)
        dc.preprocess(pad_fraction=pad, pad_value="median", kde_sigma=0.5, number_knots=K)
        shape = [int(v) for v in dc.shape]
        exprs.append("(gen_canvas_rows %s %s %s, gen_canvas_cols %s %s %s)"
                     % (cnat(H), cnat(W), cq(_fr(pad)), cnat(H), cnat(W), cq(_fr(pad))))
        todo.append(("canvas", (H, W, pad), shape[1:]))
        i = r.randrange(n)
        s_, c_ = float(dc.scan_fast[i][0]), float(dc.scan_fast[i][1])
        exprs.append("[scv (gen_scan_fast %s %s); scv (gen_scan_slow %s %s)]" % (cq(_fr(s_)), cq(_fr(c_)), cq(_fr(s_)), cq(_fr(c_))))
        todo.append(("scan", (H, W, angles[i]), ([s_, c_], [float(v) for v in dc.scan_slow[i]])))
        tol = 1e-9 * max(shape[1], shape[2], H, W)
        for _ in range(2):
            rr, jj = r.randrange(H), r.randrange(K)
            exprs.append("scv (gen_init_knot %s %s %s %s %s %s %s %s %s)" % (cz(shape[1]), cz(shape[2]), cnat(H), cnat(W), cnat(K),
                                                                          cq(_fr(s_)), cq(_fr(c_)), cnat(rr), cnat(jj)))
            todo.append(("knot", (H, W, K, pad, angles[i], rr, jj), ([float(dc.knots[i][0][rr, jj]), float(dc.knots[i][1][rr, jj])], tol)))
        # transform_coordinates on a curved (dyadically perturbed) knot array
        kc = np.array(dc.knots[i], dtype=float) + g.integers(-16, 17, size=dc.knots[i].shape) / 8.0
        xa, ya = dc.interpolator[i].transform_coordinates(kc)
        xa = np.broadcast_to(np.asarray(xa, dtype=float), (H, W))
        ya = np.broadcast_to(np.asarray(ya, dtype=float), (H, W))
        rr = r.randrange(H)
        rowl = "[" + "; ".join("(%s, %s)" % (cq(_fr(kc[0][rr][j])), cq(_fr(kc[1][rr][j]))) for j in range(K)) + "]"
        for _ in range(2):
            cc = r.randrange(W)
            exprs.append("osc (gen_transform_coordinates %s %s %s %s %s (kfun [%s]) 0 %s)"
                         % (cnat(H), cnat(W), cnat(K), cq(_fr(s_)), cq(_fr(c_)), rowl, cnat(cc)))
            todo.append(("coords", (H, W, K, angles[i], rr, cc), ([float(xa[rr, cc]), float(ya[rr, cc])], 4 * tol + 1e-9)))
        ucol = W - 1 if ci % 2 else r.randrange(W)
        exprs.append("sc (gen_u %s %s %s)" % (cnat(H), cnat(W), cnat(ucol)))
        todo.append(("u", (H, W, ucol), float(dc.interpolator[i].u[ucol])))
        # align_translation with a prescribed estimator output
        if ci % 2 == 0:
            sh_ = [[r.randint(-12, 12) / 4.0, r.randint(-12, 12) / 4.0] for _ in range(n - 1)]
            if ci % 6 == 0:
                sh_[-1] = [r.choice([0.0, 0.25]), r.choice([0.0, -0.25])]      # small last shift: the threshold can bite
            mis = r.choice([None, 0.515625, 1.140625, 2.640625])
            orig = D.cross_correlation_shift
            it_ = iter(sh_)

            def fake(ref, img, *a, **k):
                return np.array(next(it_), dtype=float), img

            before = [np.array(k_, dtype=float) for k_ in dc.knots]
            D.cross_correlation_shift = fake
            try:
                kw = {} if mis is None else {"min_image_shift": mis}
                dc.align_translation(upsample_factor=1, show_merged=False, **kw)
            finally:
                D.cross_correlation_shift = orig
            disp = [np.array(k_, dtype=float) - b for k_, b in zip(dc.knots, before)]
            exprs.append("map (fun i => scv (gen_applied_shift %s %s (shf %s) i)) (seq 0 %s)"
                         % (cnat(n), "None" if mis is None else "(Some %s)" % cq(_fr(mis)), _vecl([[0.0, 0.0]] + sh_), cnat(n)))
            todo.append(("align", (n, mis, sh_), disp))
    # the splat of bilinear_kde on dyadic points (exact in float32), incl. points outside the canvas (wrap-around)
    for ci in range(30):
        rows, cols = r.randint(1, 6), r.randint(1, 6)
        N = r.randint(1, 10)
        pts = [(r.randint(-24, 8 * rows + 24) / 8.0, r.randint(-24, 8 * cols + 24) / 8.0) for _ in range(N)]
        vals = np.array([r.choice([0.0, 0.0, 1.0, 2.5, -1.0]) for _ in range(N)])
        mb = r.choice([None, 1, 2, 3, N, N + 3])
        xa = np.array([p[0] for p in pts]).reshape(1, N)
        ya = np.array([p[1] for p in pts]).reshape(1, N)
        _, pc = bilinear_kde(xa, ya, vals.reshape(1, N), (rows, cols), 0.0, pad_value=0.0, max_batch_size=mb, return_pix_count=True)
        exprs.append("pixc %s %s %s %s" % (cz(rows), cz(cols), "None" if mb is None else "(Some %s)" % cnat(mb), _vecl(pts)))
        todo.append(("splat", (rows, cols, mb, pts, vals.tolist()), np.array(pc, dtype=float)))
    vals = ctx.coq_eval("tiex", XPRE, exprs, shard=60, extra_flags=flags)
    bad = []
    us = lambda z: z / XSCALE
    for (kind, desc, want), v in zip(todo, vals):
        ctx.dist("tie-crosstest/%s" % kind)
        if kind == "canvas":
            ok = [int(v[0]), int(v[1])] == list(want)
            got = list(v)
        elif kind == "scan":
            got = [[us(v[0][0]), us(v[0][1])], [us(v[1][0]), us(v[1][1])]]
            ok = max(abs(got[a][b] - want[a][b]) for a in (0, 1) for b in (0, 1)) <= 1e-15
        elif kind in ("knot", "coords"):
            if kind == "coords":
                if v[0] != 1:
                    bad.append("coords %r: the translated transform_coordinates is outside the interp1d contract (None)" % (desc,))
                    continue
                v = v[1]
            got = [us(v[0]), us(v[1])]
            ok = max(abs(got[0] - want[0][0]), abs(got[1] - want[0][1])) <= want[1]
        elif kind == "u":
            got = us(v)
            ok = abs(got - want) <= 1e-12
        elif kind == "align":
            got = [[us(a), us(b)] for a, b in v]
            ok = all(float(np.abs(want[i][0] - got[i][0]).max()) <= 1e-9 and float(np.abs(want[i][1] - got[i][1]).max()) <= 1e-9
                     for i in range(len(got)))
            want = [[float(d[0].flat[0]), float(d[1].flat[0])] for d in want]
        else:
            got = np.array([us(z) for z in v]).reshape(want.shape)
            ok = float(np.abs(got - want).max()) <= 5e-6
            got, want = got.tolist(), want.tolist()
        if not ok:
            bad.append("%s %r: generated function gives %r, the implementation %r" % (kind, desc, got, want))
    return bad, len(exprs)


# ------------------------------------------------------------------------------------------ the tie, run by the check
def run_tie(ctx: Ctx) -> bool:
    t0 = time.time()
    rec = {"status": "ok", "theorems_file": "coq/gen_proofs/C15_GenProperties.v"}
    ctx.cov["source_tie"] = rec
    for s in TRUSTED:
        if s not in ctx.cov["trusted_base"]:
            ctx.cov["trusted_base"].append(s)
    saved_cmd = ctx.cov.get("checker_cmd", "")
    saved_problems = list(getattr(ctx, "_proof_problems", []))
    problems = []
    props = GEN_DIR / "C15_GenProperties.v"
    script = GEN_DIR / "C15_GenProofs.v"
    flags = ["-Q", str(ctx.dir), "GenC15"]

    def not_checked(why):
        ths = re.findall(r"(?m)^\s*Theorem\s+(\w+)", props.read_text())
        ctx.cov["obligations"] += len(ths)
        for t in ths:
            ctx.cov["theorems"][t] = "NOT CHECKED (%s)" % why

    text = None
    try:
        text, info = translate(SRC)
        rec.update(info)
    except Reject as e:
        problems.append("source tie: the model can no longer be tied to the source: the translator (fail closed) rejected it: %s" % e)
        not_checked("translator rejected the source")
    except (SyntaxError, OSError) as e:
        problems.append("source tie: the source cannot be read / parsed: %s" % e)
        not_checked("source unreadable")
    if text is not None:
        gen = ctx.dir / "Gen_C15.v"
        for stale in (gen.with_suffix(".vo"), ctx.dir / "C15_GenProofs.vo", ctx.dir / "C15_GenProperties.vo"):
            if stale.exists():
                stale.unlink()
        gen.write_text(text)
        rec["generated_file"] = str(gen)
        bad = ctx.static_scan([gen, script, props, COQ / "lib" / "C15_TieLib.v"])
        if bad:
            problems.append("forbidden declarations: %s" % bad[:5])
        rc, out = ctx.coq_make(["lib/C15_TieLib.vo", "proof/C15_Proofs_Ext.vo"])
        if rc != 0:
            problems.append("source tie: library build failed:\n" + "\n".join(out.strip().splitlines()[-10:]))
        rc, out = sh(["timeout", "300", "coqc"] + COQ_FLAGS + flags + [str(gen)], cwd=ctx.dir, timeout=330)
        if rc != 0:
            problems.append("source tie: generated file Gen_C15.v does not compile:\n" + "\n".join(out.strip().splitlines()[-12:]))
            not_checked("generated file does not compile")
        else:
            # the translator's own cross-test (generated functions vs the real Python functions) runs while the fixed
            # proof script is compiled
            from concurrent.futures import ThreadPoolExecutor

            def xt():
                try:
                    xbad_, nx = cross_test(ctx, flags)
                    rec["crosstest_evaluations"] = nx
                    rec["crosstest_mismatches"] = len(xbad_)
                    return xbad_
                except Exception as e:  # noqa
                    return ["cross-test could not run: %s: %s" % (type(e).__name__, str(e)[:400])]

            with ThreadPoolExecutor(max_workers=1) as ex:
                fut = ex.submit(xt)
                rc, out = sh(["timeout", "300", "coqc"] + COQ_FLAGS + flags + ["-o", str(ctx.dir / "C15_GenProofs.vo"), str(script)],
                             cwd=ctx.dir, timeout=330)
                props_ok = rc == 0 and ctx.require_proofs(props_name="C15_GenProperties", props_path=props, extra_flags=flags,
                                                          make_targets=[])
                xbad = fut.result()
            if xbad:
                rec["crosstest_first"] = xbad[:3]
                ctx.violation("tie-translator-crosstest",
                              "the functions translated from the source disagree with the implementation they were translated "
                              "from (translator or fixed library meaning wrong, or the source does something the grammar "
                              "misreads): %s" % "; ".join(xbad[:3])[:1500],
                              {"kind": "tie", "mismatches": xbad[:10]}, found_input=False)
            if rc != 0:
                problems.append("source tie: the functions translated from the current source no longer equal the model "
                                "(coq/model/C15_Model.v): fixed proof script C15_GenProofs.v fails:\n"
                                + "\n".join(out.strip().splitlines()[-12:]))
                not_checked("fixed proof script fails")
            elif not props_ok:
                problems += ["source tie: " + p for p in ctx._proof_problems]
    ctx._proof_problems = saved_problems
    ctx.cov["checker_cmd"] = (saved_cmd + "  ;  python -m harness.c15_tie > build/C15/Gen_C15.v && coqc ... Gen_C15.v && "
                              "coqc ... coq/gen_proofs/C15_GenProofs.v && coqc ... coq/gen_proofs/C15_GenProperties.v")
    rec["wall_s"] = round(time.time() - t0, 2)
    if problems:
        rec["status"] = "broken"
        rec["problems"] = [p[:1500] for p in problems]
        msg = "; ".join(problems)
        ctx.broken_obligation = (ctx.broken_obligation + "; " + msg) if ctx.broken_obligation else msg
        ctx.log("PROOF OBLIGATION BROKEN (source tie):", msg[:2500])
        return False
    ctx.log("source tie: preprocess / transform_rows / transform_coordinates / bilinear_kde splat / align_translation translated "
            "from the current source and proved equal to the model (%d cross-test evaluations, %.1fs)"
            % (rec.get("crosstest_evaluations", 0), rec["wall_s"]))
    return True


if __name__ == "__main__":
    import sys
    try:
        sys.stdout.write(translate(SRC)[0])
    except Reject as e:
        print("REJECTED:", e)
        sys.exit(1)
