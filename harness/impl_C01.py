"""Engine shared by the C01 (round trip) and C14 (skip lists) checks.

  spec  --build-->  real Python object graph (AutoSerialize classes of harness.c01_classes)
        --alpha-->  Coq term of type C01_Model.value            (abstraction of a real object)
  save  --walk-->   Coq term of type C01_Model.node              (the zarr store as written)
  load  --alpha-->  Coq term (loaded object as a value)
  oracle: the property text evaluated directly on the real objects (graph_diff, skip oracle)

Everything here runs in worker processes (torch is imported lazily); all randomness comes from
the spec, which the parent generated with ctx.rng."""
from __future__ import annotations

import gzip
import hashlib
import io
import json
import logging
import os
import pathlib
import shutil
import struct
import tempfile
import traceback
import zipfile
from fractions import Fraction

import numpy as np

CLS_MODULE = "harness.c01_classes"


# ------------------------------------------------------------------------------------------
# small helpers
def H(*parts) -> int:
    h = hashlib.sha1()
    for p in parts:
        if isinstance(p, (bytes, bytearray, memoryview)):
            h.update(b"B" + bytes(p))
        else:
            h.update(b"S" + repr(p).encode())
        h.update(b"|")
    return int(h.hexdigest()[:10], 16) + 1


def fbits(x: float) -> int:
    return struct.unpack("<Q", struct.pack("<d", float(x)))[0]


def enc_s(s: str) -> str:
    """injective ASCII image of a Python string (the model only tests equality, suffixes, digits,
    '/' and the empty string, all of which the encoding preserves)"""
    out = []
    for ch in s:
        o = ord(ch)
        if 32 <= o < 127 and ch not in '%"':
            out.append(ch)
        else:
            out.extend("%%%02X" % b for b in ch.encode("utf-8", "surrogatepass"))
    return "".join(out)


def cs(s: str) -> str:
    return '"%s"' % enc_s(s)


def cz(n) -> str:
    return "(%d)%%Z" % int(n)


def clist(xs) -> str:
    return "[" + "; ".join(xs) + "]"


def cbool(b) -> str:
    return "true" if b else "false"


def mro_names(x) -> list[str]:
    return [c.__module__ + "." + c.__qualname__ for c in type(x).__mro__][:-1]


def type_fullname(t) -> str:
    return t.__module__ + "." + t.__qualname__


class Unmodelled(Exception):
    """the object has no image in the Coq value ADT (oracle-only case)"""


_TORCH_INTERNAL = None
HYB_REGISTRIES = ("_parameters", "_buffers", "_modules")


def is_hybrid(x) -> bool:
    """torch.nn.Module + AutoSerialize (the pattern of quantem's ObjectBase / ProbeBase / dataset classes)"""
    import torch
    from quantem.core.io.serialize import AutoSerialize
    return isinstance(x, torch.nn.Module) and isinstance(x, AutoSerialize)


def ovars(x) -> dict:
    """the attributes of an object as the property speaks about them: the declared fields of an attrs class (also
    when they live in slots; a field that is unset, e.g. skipped at load time, is absent); for an nn.Module hybrid
    its plain attributes plus its parameters, buffers and sub-modules (real attributes for hasattr / getattr /
    delattr, kept by torch in registries) without torch's own bookkeeping entries; else vars(x)"""
    global _TORCH_INTERNAL
    fields = getattr(type(x), "__attrs_attrs__", None)
    if fields is not None:
        return {f.name: getattr(x, f.name) for f in fields if hasattr(x, f.name)}
    if is_hybrid(x):
        import torch
        if _TORCH_INTERNAL is None:
            _TORCH_INTERNAL = set(vars(torch.nn.Module()))
        d = {k: v for k, v in vars(x).items() if k not in _TORCH_INTERNAL}
        for reg in HYB_REGISTRIES:
            r = vars(x).get(reg)
            if isinstance(r, dict):
                d.update(r)
        return d
    return vars(x)


def other_id(x) -> int:
    """content id of a value that takes the gzip+dill fallback"""
    return H("other", type(x).__module__, type(x).__qualname__, repr(x))


ABC_DOMAIN = ["numbers.Number", "numbers.Complex", "numbers.Real", "numbers.Rational", "numbers.Integral",
              "collections.abc.Sequence", "collections.abc.MutableSequence", "collections.abc.Mapping",
              "collections.abc.MutableMapping", "collections.abc.Set", "collections.abc.MutableSet"]
_CLEANUP = []


# ------------------------------------------------------------------------------------------
# spec -> real object
def _arr_from_spec(dt, shape, seed, layout):
    r = np.random.default_rng(seed)
    shape = tuple(shape)
    n = int(np.prod(shape)) if shape else 1
    d = np.dtype(dt if not isinstance(dt, list) else [tuple(x) for x in dt])
    if layout == "zeros":
        # every element is the fill value (zarr writes no chunk for such an array)
        return np.zeros(shape, dtype=d)
    if layout == "strided" and len(shape) >= 1 and shape[0] > 0:
        big = (shape[0] * 2,) + shape[1:]
    else:
        big = shape
    nb = int(np.prod(big)) if big else 1
    if d.kind == "b":
        a = r.integers(0, 2, nb).astype(bool)
    elif d.kind in "iu":
        info = np.iinfo(d)
        a = r.integers(max(info.min, -1000), min(info.max, 1000), nb, endpoint=True).astype(d)
        if nb:
            a[0] = info.max if seed % 2 else info.min
    elif d.kind == "f":
        a = (r.standard_normal(nb) * 100).astype(d)
        if nb > 2 and seed % 3 == 0:
            a[1] = np.nan
            a[2] = -np.inf
        if nb > 3:
            a[3] = -0.0
    elif d.kind == "c":
        a = (r.standard_normal(nb) + 1j * r.standard_normal(nb)).astype(d)
    elif d.kind == "U":
        a = np.array([["", "a", "bc", "xyz"][i] for i in r.integers(0, 4, nb)], dtype=d)
    elif d.kind == "S":
        a = np.array([[b"", b"a", b"bc", b"xyz"][i] for i in r.integers(0, 4, nb)], dtype=d)
    elif d.kind in "mM":
        a = r.integers(-10**6, 10**6, nb).astype("int64").view(d) if d.itemsize == 8 else r.integers(0, 9, nb).astype(d)
    elif d.kind == "V":
        a = np.zeros(nb, dtype=d)
        for nm in d.names:
            a[nm] = r.integers(-50, 50, nb)
    elif d.kind == "O":
        a = np.empty(nb, dtype=object)
        for i in range(nb):
            a[i] = [None, 1, "s"][i % 3]
    else:
        raise ValueError("dtype %r" % (dt,))
    a = a.reshape(big)
    if big != shape:
        a = a[::2]
    if layout == "F" and a.ndim >= 2:
        a = np.asfortranarray(a)
    assert a.shape == shape, (a.shape, shape)
    return a


def build(spec):
    """abstract case -> real Python object"""
    k = spec[0]
    if k == "none":
        return None
    if k in ("bool", "int", "str"):
        return spec[1]
    if k == "float":
        return float.fromhex(spec[1])
    if k == "path":
        return pathlib.Path(spec[1])
    if k == "np":
        dt, val = spec[1], spec[2]
        if dt.startswith("complex"):
            return getattr(np, dt)(complex(val[0], val[1]))
        if isinstance(val, str):
            return getattr(np, dt)(float.fromhex(val))
        return (np.bool_ if dt == "bool" else getattr(np, dt))(val)
    if k == "arr":
        return _arr_from_spec(spec[1], spec[2], spec[3], spec[4] if len(spec) > 4 else "C")
    if k == "list":
        return [build(x) for x in spec[1]]
    if k == "tuple":
        return tuple(build(x) for x in spec[1])
    if k == "set":
        return set(build(x) for x in spec[1])
    if k == "dict":
        return {kk: build(v) for kk, v in spec[1]}
    if k == "obj":
        from . import c01_classes as cc
        o = cc.CLASSES[spec[1]]()
        for kk, v in spec[2]:
            setattr(o, kk, build(v))
        return o
    if k == "hyb":
        # nn.Module + AutoSerialize hybrid: entries (name, role, value) with role module | param | buffer | plain
        from . import c01_classes as cc
        o = cc.CLASSES[spec[1]]()
        for nm, role, vs in spec[2]:
            v = build(vs)
            if role == "buffer":
                o.register_buffer(nm, v)
            else:
                setattr(o, nm, v)
        return o
    if k == "logger":
        lg = logging.getLogger(spec[1])
        lg.setLevel(spec[2])
        return lg
    if k == "rootlogger":
        return logging.getLogger()
    if k == "rng":
        return np.random.Generator(getattr(np.random, spec[1])(spec[2]))
    if k == "randomstate":
        return np.random.RandomState(spec[1])
    if k == "complex":
        return complex(spec[1], spec[2])
    if k == "summarywriter":
        from torch.utils.tensorboard import SummaryWriter
        d = tempfile.mkdtemp(prefix="c01sw_")
        _CLEANUP.append(d)
        mq, fs, sfx = (spec[2:5] if len(spec) >= 5 else (10, 120, ""))
        return SummaryWriter(log_dir=os.path.join(d, spec[1]), max_queue=mq, flush_secs=fs, filename_suffix=sfx)
    # ---- torch kinds
    import torch
    if k == "tensor":
        _, dt, shape, rg, is_param, seed = spec
        g = torch.Generator().manual_seed(seed)
        tdt = getattr(torch, dt)
        if tdt.is_floating_point or tdt.is_complex:
            t = (torch.randn(tuple(shape), generator=g) * 10).to(tdt)
        elif tdt == torch.bool:
            t = torch.randint(0, 2, tuple(shape), generator=g).to(tdt)
        else:
            t = torch.randint(-100 if tdt != torch.uint8 else 0, 100, tuple(shape), generator=g).to(tdt)
        if is_param:
            return torch.nn.Parameter(t, requires_grad=bool(rg))
        if seed % 3 == 0:
            # every third tensor is a VIEW into a larger buffer (a crop / one row of a stack, non-zero storage
            # offset): same dtype, shape and contents as `t`, but not the owner of its storage
            big = torch.zeros((4,) + tuple(t.shape), dtype=t.dtype)
            big[2] = t
            t = big[2]
        if rg:
            t.requires_grad_(True)
        return t
    if k == "module":
        torch.manual_seed(spec[2])
        from . import c01_classes as cc
        if spec[1] == "linear":
            return torch.nn.Linear(2, 3)
        if spec[1] == "seq":
            return torch.nn.Sequential(torch.nn.Linear(2, 2), torch.nn.ReLU(), torch.nn.Linear(2, 1))
        if spec[1] == "modulelist":
            return torch.nn.ModuleList([torch.nn.Linear(1, 1), torch.nn.Tanh()])
        return cc.TinyNet(2, 1, buf=(spec[1] == "tiny"))
    if k == "tgen":
        return torch.Generator().manual_seed(spec[1])
    if k in ("optimizer", "scheduler"):
        torch.manual_seed(spec[2])
        p = [torch.nn.Parameter(torch.randn(3)), torch.nn.Parameter(torch.randn(2, 2))]
        opt = (torch.optim.Adam(p, lr=0.01) if spec[1] == "adam" else torch.optim.SGD(p, lr=0.1, momentum=0.5))
        sched = torch.optim.lr_scheduler.StepLR(opt, 2, gamma=0.5) if k == "scheduler" else None
        for _ in range(spec[3]):
            opt.zero_grad()
            sum((q ** 2).sum() for q in p).backward()
            opt.step()
            if sched is not None:
                sched.step()
        return sched if k == "scheduler" else opt
    if k == "paramlist":
        torch.manual_seed(spec[1])
        return torch.nn.ParameterList([torch.nn.Parameter(torch.randn(2)), torch.nn.Parameter(torch.randn(1, 2))])
    raise ValueError("unknown spec kind %r" % (k,))


# ------------------------------------------------------------------------------------------
# content identifiers of torch objects (what `torch.load(torch.save(x))` must preserve)
def _tbytes(t) -> bytes:
    import torch
    t = t.detach().cpu().contiguous().reshape(-1)
    if t.numel() == 0:
        return b""
    return t.view(torch.uint8).numpy().tobytes()


def tensor_id(t) -> int:
    return H("tensor", type(t).__name__, str(t.dtype), tuple(t.shape), bool(t.requires_grad), _tbytes(t))


def _state_id(sd) -> list:
    import torch
    out = []
    if isinstance(sd, dict):
        for k in sd:
            out.append(("k", repr(k), _state_id(sd[k])))
    elif isinstance(sd, (list, tuple)):
        out = [_state_id(x) for x in sd]
    elif isinstance(sd, torch.Tensor):
        out = ("t", str(sd.dtype), tuple(sd.shape), hashlib.sha1(_tbytes(sd)).hexdigest())
    else:
        out = ("v", repr(sd))
    return out


def blob_id(x):
    """(bkind, meta attrs written next to the marker, content id) of a torch.save'd object"""
    import torch
    if isinstance(x, torch.Tensor):
        meta = [("_tensor_shape", ("l", [("i", int(s)) for s in x.shape])), ("_tensor_dtype", ("s", str(x.dtype))),
                ("_tensor_device", ("s", str(x.device))), ("_tensor_requires_grad", ("b", bool(x.requires_grad)))]
        return "BTensor", meta, tensor_id(x)
    if isinstance(x, torch.optim.Optimizer):
        sd = x.state_dict()
        params = [[_state_id(p) for p in g["params"]] for g in x.param_groups]
        return "BOptimizer", [("class_name", ("s", type(x).__name__))], H("opt", type(x).__name__, _state_id(sd), params)
    if hasattr(x, "step") and hasattr(x, "get_last_lr"):
        return "BScheduler", [("class_name", ("s", type(x).__name__))], H("sched", type(x).__name__, _state_id(x.state_dict()))
    if isinstance(x, torch.nn.Module):
        return "BModule", [], H("module", type(x).__qualname__, repr(x), _state_id(dict(x.state_dict())))
    if isinstance(x, torch.Generator):
        return "BModule", [], H("tgen", _tbytes(x.get_state()))
    raise Unmodelled("torch object %r" % type(x))


def rng_state_id(state) -> int:
    def canon(s):
        if isinstance(s, dict):
            return {str(k): canon(v) for k, v in s.items()}
        if isinstance(s, np.ndarray):
            return s.tolist()
        if isinstance(s, (list, tuple)):
            return [canon(v) for v in s]
        if isinstance(s, np.generic):
            return s.item()
        return s
    return H("rng", json.dumps(canon(state), sort_keys=True))


# ------------------------------------------------------------------------------------------
# JSON values (as read back from zarr attrs) -> jval terms.  tagged form: ("n",)|("b",x)|("i",x)|
# ("f",bits)|("s",x)|("l",[..])|("d",[(k,v)..])|("o",h)
def jtag(x):
    if x is None:
        return ("n",)
    if isinstance(x, bool):
        return ("b", x)
    if isinstance(x, int):
        return ("i", x)
    if isinstance(x, float):
        return ("f", fbits(x))
    if isinstance(x, str):
        return ("s", x)
    if isinstance(x, (list, tuple)):
        return ("l", [jtag(v) for v in x])
    if isinstance(x, dict):
        return ("d", [(str(k), jtag(v)) for k, v in x.items()])
    raise Unmodelled("json value %r" % type(x))


def jterm(t) -> str:
    k = t[0]
    if k == "n":
        return "JNull"
    if k == "b":
        return "(JBool %s)" % cbool(t[1])
    if k == "i":
        return "(JInt %s)" % cz(t[1])
    if k == "f":
        return "(JFloat %s)" % cz(t[1])
    if k == "s":
        return "(JStr %s)" % cs(t[1])
    if k == "l":
        return "(JList %s)" % clist(jterm(v) for v in t[1])
    if k == "d":
        return "(JDict %s)" % clist("(%s, %s)" % (cs(kk), jterm(v)) for kk, v in t[1])
    if k == "o":
        return "(JOpaque %s)" % cz(t[1])
    raise ValueError(t)


def smap_term(items) -> str:
    return clist("(%s, %s)" % (cs(k), jterm(v)) for k, v in items)


# ------------------------------------------------------------------------------------------
# alpha: real object -> Coq `value` term
def num_term(x) -> str:
    if isinstance(x, (bool, np.bool_)):
        return "(NBool %s)" % cbool(bool(x))
    if isinstance(x, (int, np.integer)):
        return "(NInt %s)" % cz(int(x))
    return "(NFloat %s)" % cz(fbits(float(x)))


def arr_id(a: np.ndarray) -> int:
    if a.size == 0:
        return 0
    return H("arr", np.ascontiguousarray(a).tobytes())


def dtype_name(dt) -> str:
    dt = np.dtype(dt)
    return dt.name if dt.names is None else str(dt)


def arr_term(a: np.ndarray) -> str:
    return "(mkArr %s %s (AOpaque %s))" % (cs(dtype_name(a.dtype)), clist(cz(s) for s in a.shape), cz(arr_id(a)))


def alpha(x, loaded=False, stats=None, root=True) -> str:
    """Coq term of the model value that abstracts the real object x.  `loaded`: the object came out
    of load() — an rng is then described by its kind only (its state is fresh by design).  `root`: x is the object
    save() is called on — an nn.Module hybrid is then an object whose fields are its raw vars() (what _recursive_save
    iterates: the registries are dict-valued fields); anywhere else _serialize_value saves it whole as a module."""
    def st(kind):
        if stats is not None:
            stats[kind] = stats.get(kind, 0) + 1
    rec = lambda y: alpha(y, loaded, stats, False)  # noqa: E731
    if x is None:
        st("none")
        return "VNone"
    if isinstance(x, bool):
        st("bool")
        return "(VBool %s)" % cbool(x)
    if isinstance(x, np.generic):
        if isinstance(x, np.complexfloating) and not isinstance(x, np.clongdouble):
            st("npscalar-complex")          # dill fallback (fixes/C01-npscalar-complex.diff)
            return "(VOther %s %s)" % (clist(cs(t) for t in mro_names(x)), cz(other_id(x)))
        st("npscalar")
        if not isinstance(x, (np.bool_, np.integer, np.floating)) or isinstance(x, np.longdouble):
            raise Unmodelled("numpy scalar %s" % type(x).__name__)
        return "(VNpScalar %s %s)" % (cs(type(x).__name__), num_term(x))
    if isinstance(x, int):
        st("int")
        return "(VInt %s)" % cz(x)
    if isinstance(x, float):
        st("float")
        return "(VFloat %s)" % cz(fbits(x))
    if isinstance(x, str):
        st("str")
        return "(VStr %s)" % cs(x)
    if isinstance(x, pathlib.PurePath):
        st("path")
        return "(VPath %s)" % cs(str(x))
    if isinstance(x, np.ndarray):
        st("ndarray" + ("-0d" if x.ndim == 0 else "-empty" if x.size == 0 else ""))
        if x.dtype.kind == "O":
            raise Unmodelled("object array")
        return "(VArr %s)" % arr_term(x)
    if isinstance(x, list):
        st("list")
        return "(VList %s)" % clist(rec(v) for v in x)
    if isinstance(x, tuple):
        st("tuple")
        return "(VTuple %s)" % clist(rec(v) for v in x)
    if isinstance(x, (set, frozenset)):
        st("set")
        return "(VSet %s)" % clist(rec(v) for v in list(x))          # interpreter's iteration order
    if isinstance(x, dict):
        st("dict")
        return "(VDict %s)" % clist("(%s, %s)" % (cs(str(k)), rec(v)) for k, v in x.items())
    if isinstance(x, logging.Logger):
        st("logger")
        return "(VLogger %s %s %s)" % (cs(type(x).__name__), cs(x.name), cz(x.level))
    if isinstance(x, np.random.Generator):
        st("rng")
        bg = type(x.bit_generator).__name__
        return "(VRng %s %s)" % (cs(bg), "JNull" if loaded else "(JOpaque %s)" % cz(rng_state_id(x.bit_generator.state)))
    if type(x).__name__ == "SummaryWriter" and hasattr(x, "add_scalar") and hasattr(x, "add_image"):
        st("summarywriter")
        return "(VTbWriter %s %s %s %s)" % (cs(str(x.log_dir)), cz(int(x.max_queue)), cz(int(x.flush_secs)),
                                            cs(str(x.filename_suffix) if x.filename_suffix else ""))
    if isinstance(x, complex):
        st("other")
        return "(VOther %s %s)" % (clist(cs(t) for t in mro_names(x)), cz(other_id(x)))
    from quantem.core.io.serialize import AutoSerialize
    import torch
    if isinstance(x, AutoSerialize) and (root or not isinstance(x, torch.nn.Module)):
        hyb = isinstance(x, torch.nn.Module)
        st("object-hybrid-root" if hyb else "object")
        return "(VObj %s %s %s)" % (cs(type(x).__module__), cs(type(x).__qualname__),
                                    clist("(%s, %s)" % (cs(k), rec(v)) for k, v in (vars(x) if hyb else ovars(x)).items()))
    import torch
    if isinstance(x, (torch.Tensor, torch.optim.Optimizer, torch.nn.Module, torch.Generator)) or (
            hasattr(x, "step") and hasattr(x, "get_last_lr")):
        kind, meta, h = blob_id(x)
        st({"BTensor": "tensor", "BOptimizer": "optimizer", "BScheduler": "scheduler"}.get(
            kind, "tgen" if isinstance(x, torch.Generator) else "module-hybrid-child" if isinstance(x, AutoSerialize) else "module"))
        return "(VBlob %s %s %s %s)" % (kind, clist(cs(t) for t in mro_names(x)), smap_term(meta), cz(h))
    raise Unmodelled("object of type %s" % type(x).__name__)


# ------------------------------------------------------------------------------------------
# walk a written store into a canonical tree / a Coq `node` term
MARKERS = {"_torch_tensor": "tensor", "_torch_optimizer": "optimizer", "_torch_scheduler": "scheduler",
           "_torch_whole_module": "module"}


def _open_store(path):
    """(zarr root group, cleanup) for a directory store or a zip archive (unpacked by us, not by
    quantem)"""
    import zarr
    from zarr.storage import LocalStore
    path = str(path)
    if os.path.isdir(path):
        return zarr.open_group(store=LocalStore(path), mode="r"), (lambda: None)
    td = tempfile.mkdtemp(prefix="c01walk_")
    with zipfile.ZipFile(path, "r") as zf:
        zf.extractall(td)
    return zarr.open_group(store=LocalStore(td), mode="r"), (lambda: shutil.rmtree(td, ignore_errors=True))


def _walk_array(arr, role):
    """role: None | 'torch' (payload of a marker group) | 'values' (fast-path sequence) | 'top'"""
    attrs = [(k, jtag(v)) for k, v in dict(arr.attrs).items()]
    shape = [int(s) for s in arr.shape]
    if any(k == "_original_shape" for k, _ in attrs):
        return {"dtype": dtype_name(arr.dtype), "shape": shape, "data": ("opaque", 0), "attrs": attrs}
    data = np.asarray(arr[...], dtype=arr.dtype)
    if role == "torch":
        import torch
        obj = torch.load(io.BytesIO(data.tobytes()), map_location="cpu", weights_only=False)
        _, _, h = blob_id(obj)
        return {"dtype": "uint8", "shape": [1], "data": ("bytes", "torch", mro_names(obj), h), "attrs": attrs}
    if role == "values" and data.ndim == 1 and data.dtype.kind in "biuf":
        cat = {"b": "bool", "i": "int", "u": "int", "f": "float"}[data.dtype.kind]
        return {"dtype": cat, "shape": shape, "data": ("nums", data.tolist()), "attrs": attrs}
    if data.dtype == np.uint8 and data.ndim == 1 and data.size:
        try:
            import dill
            obj = dill.loads(gzip.decompress(data.tobytes()))
            return {"dtype": "uint8", "shape": [1],
                    "data": ("bytes", "dill", mro_names(obj), other_id(obj)),
                    "attrs": attrs}
        except Exception:
            pass
    return {"dtype": dtype_name(arr.dtype), "shape": shape, "data": ("opaque", arr_id(data)), "attrs": attrs}


def _walk_group(g):
    raw = dict(g.attrs)
    attrs = []
    for k, v in raw.items():
        if k == "_rng_state":
            attrs.append((k, ("o", rng_state_id(v))))
        else:
            attrs.append((k, jtag(v)))
    payload = [p for m, p in MARKERS.items() if raw.get(m)]
    fast = raw.get("_sequence_encoding") == "ndarray"
    arrays = []
    for k in sorted(g.array_keys()):
        role = "torch" if k in payload else "values" if (fast and k == "values") else None
        arrays.append((k, _walk_array(g[k], role)))
    groups = [(k, _walk_group(g[k])) for k in sorted(g.group_keys())]
    return {"attrs": attrs, "arrays": arrays, "groups": groups}


def walk(path):
    root, cleanup = _open_store(path)
    try:
        return _walk_group(root)
    finally:
        cleanup()


def data_term(d) -> str:
    if d[0] == "opaque":
        return "(AOpaque %s)" % cz(d[1])
    if d[0] == "nums":
        return "(ANums %s)" % clist(num_term(x) for x in d[1])
    return "(ABytes %s %s %s)" % (cs(d[1]), clist(cs(t) for t in d[2]), cz(d[3]))


def node_term(t) -> str:
    arrays = clist("(%s, mkSArr (mkArr %s %s %s) %s)" % (
        cs(k), cs(a["dtype"]), clist(cz(s) for s in a["shape"]), data_term(a["data"]), smap_term(a["attrs"]))
        for k, a in t["arrays"])
    groups = clist("(%s, %s)" % (cs(k), node_term(s)) for k, s in t["groups"])
    return "(Group %s %s %s)" % (smap_term(t["attrs"]), arrays, groups)


def tree_canon(t):
    """order-insensitive canonical form of a walked tree (for zip-vs-dir equality)"""
    return json.dumps({"attrs": sorted((k, json.dumps(v, sort_keys=True, default=str)) for k, v in t["attrs"]),
                       "arrays": sorted((k, json.dumps(a, sort_keys=True, default=str)) for k, a in t["arrays"]),
                       "groups": sorted((k, tree_canon(s)) for k, s in t["groups"])}, sort_keys=True)


# ------------------------------------------------------------------------------------------
# the oracle: structural equality of two real object graphs, as the property states it
def _is_num(x):
    return isinstance(x, (bool, int, float, np.bool_, np.integer, np.floating)) and not isinstance(x, np.longdouble)


def _numval(x):
    if isinstance(x, (bool, np.bool_)):
        return Fraction(int(bool(x)))
    if isinstance(x, (int, np.integer)):
        return Fraction(int(x))
    f = float(x)
    if f != f:
        return "nan"
    if f in (float("inf"), float("-inf")):
        return "inf" if f > 0 else "-inf"
    return Fraction(f)


def _kind(x):
    import torch
    from quantem.core.io.serialize import AutoSerialize
    if x is None:
        return "none"
    if isinstance(x, torch.nn.Module) and isinstance(x, AutoSerialize):
        return "object"
    for t, n in ((bool, "bool"), (np.generic, "npscalar"), (int, "int"), (float, "float"), (str, "str"),
                 (pathlib.PurePath, "path"), (np.ndarray, "ndarray"), (list, "list"), (tuple, "tuple"), (set, "set"),
                 (dict, "dict"), (logging.Logger, "logger"), (np.random.Generator, "rng"),
                 (np.random.RandomState, "randomstate"), (complex, "complex"),
                 (torch.Tensor, "tensor"), (torch.optim.Optimizer, "optimizer"), (torch.nn.Module, "module"),
                 (torch.Generator, "tgen"), (AutoSerialize, "object")):
        if isinstance(x, t):
            return n
    if hasattr(x, "step") and hasattr(x, "get_last_lr"):
        return "scheduler"
    if hasattr(x, "add_scalar") and hasattr(x, "add_image"):
        return "summarywriter"
    return "other"


def _short(x, n=80):
    s = repr(x)
    return s if len(s) <= n else s[:n] + "..."


def _canon_elem(x):
    """hashable canonical form of a set element (numbers by value)"""
    if _is_num(x) and not isinstance(x, (bool, np.bool_)):
        return ("num", str(_numval(x)))
    if isinstance(x, (bool, np.bool_)):
        return ("bool", bool(x))
    if isinstance(x, tuple):
        return ("tuple", tuple(_canon_elem(v) for v in x))
    if isinstance(x, pathlib.PurePath):
        return ("path", str(x))
    if isinstance(x, np.random.Generator):
        return ("rng", type(x.bit_generator).__name__)
    return (type(x).__name__, repr(x))


def graph_diff(a, b, exact=False, path="obj", out=None):
    """differences between reference graph a and loaded graph b as (key, message) pairs.
    exact=False applies the coarsening the C01 quantifier allows (NumPy scalars and all-numeric
    sequences by numeric value; loggers/rngs by kind); exact=True demands identical kinds."""
    import torch
    if out is None:
        out = []

    def d(key, msg):
        out.append((key, "%s: %s" % (path, msg)))

    ka = _kind(a)
    if ka == "object":
        if type(b) is not type(a):
            d("object:class", "class %s.%s became %s.%s" % (type(a).__module__, type(a).__qualname__,
                                                            type(b).__module__, type(b).__qualname__))
            return out
        va, vb = ovars(a), ovars(b)
        na, nb = set(va), set(vb)
        for nm in sorted(nb - na):
            d("attr-names:extra:" + (nm if nm.startswith("_autoserialize") else "other"),
              "loaded object has extra attribute %r = %s" % (nm, _short(vb[nm])))
        for nm in sorted(na - nb):
            d("attr-names:missing:" + _kind(va[nm]), "attribute %r (%s) is missing after load" % (nm, _kind(va[nm])))
        for nm in va:
            if nm in nb:
                graph_diff(va[nm], vb[nm], exact, path + "." + nm, out)
        return out
    if ka in ("none", "bool", "int", "str", "complex"):
        if type(b) is not type(a) or a != b:
            d(ka + ":value", "%s became %s (%s)" % (_short(a), _short(b), type(b).__name__))
        return out
    if ka == "float":
        if type(b) is not float or fbits(a) != fbits(b) and not (a != a and b != b):
            d("float:value", "%r became %s (%s)" % (a, _short(b), type(b).__name__))
        return out
    if ka == "path":
        if not isinstance(b, pathlib.PurePath) or type(b) is not type(a) or a != b:
            d("path:value", "%r became %s (%s)" % (a, _short(b), type(b).__name__))
        return out
    if ka == "npscalar":
        if exact:
            ok = type(b) is type(a) and a.tobytes() == b.tobytes()
        elif isinstance(a, np.bool_):
            ok = type(b) in (bool, np.bool_) and bool(a) == bool(b)
        elif isinstance(a, np.integer):
            ok = type(b) in (int, type(a)) and int(a) == int(b)
        elif isinstance(a, np.floating):
            ok = type(b) in (float, type(a)) and _numval(a) == _numval(b)
        else:
            ok = type(b) in (complex, type(a)) and complex(a) == complex(b) and (type(b) is type(a) or not exact)
        if not ok:
            d("npscalar:value", "%s(%r) became %s (%s)" % (type(a).__name__, a, _short(b), type(b).__name__))
        return out
    if ka == "ndarray":
        tag = "ndarray-0d" if a.ndim == 0 else "ndarray-empty" if a.size == 0 else "ndarray"
        if a.dtype.byteorder == ">":
            tag += "-bigendian"
        if type(b) is not np.ndarray:
            d(tag + ":kind", "ndarray became %s" % type(b).__name__)
        elif b.dtype != a.dtype:
            d(tag + ":dtype", "dtype %s became %s" % (a.dtype, b.dtype))
        elif b.shape != a.shape:
            d(tag + ":shape", "shape %s became %s" % (a.shape, b.shape))
        elif np.ascontiguousarray(a).tobytes() != np.ascontiguousarray(b).tobytes():
            d(tag + ":contents", "contents changed: %s -> %s" % (_short(a.tolist()), _short(b.tolist())))
        return out
    if ka in ("list", "tuple"):
        if type(b) is not type(a):
            d(ka + ":container-type", "%s became %s" % (ka, type(b).__name__))
            return out
        if len(a) != len(b):
            d(ka + ":length", "length %d became %d" % (len(a), len(b)))
            return out
        if not exact and len(a) > 0 and all(_is_num(x) for x in a):
            all_bool = all(isinstance(x, (bool, np.bool_)) for x in a)
            for i, (x, y) in enumerate(zip(a, b)):
                if not _is_num(y) or _numval(x) != _numval(y):
                    d("numeric-seq:value", "element %d: %r became %r" % (i, x, y))
                    break
                if all_bool and not isinstance(y, (bool, np.bool_)):
                    # no promotion happens in an all-bool sequence: the elements must stay booleans
                    d("numeric-seq:bool-kind", "element %d of an all-bool %s: %r became %r (%s)" % (i, ka, x, y, type(y).__name__))
                    break
            return out
        for i, (x, y) in enumerate(zip(a, b)):
            graph_diff(x, y, exact, "%s[%d]" % (path, i), out)
        return out
    if ka == "set":
        if type(b) is not set:
            d("set:container-type", "set became %s: %s" % (type(b).__name__, _short(b)))
            return out
        if not exact and len(a) > 0 and all(_is_num(x) for x in a):
            if not all(_is_num(y) for y in b) or sorted(str(_numval(x)) for x in a) != sorted(str(_numval(y)) for y in b):
                d("numeric-seq:value", "numeric set %s became %s" % (_short(a), _short(b)))
            return out
        try:
            ca, cb = sorted(map(_canon_elem, a), key=repr), sorted(map(_canon_elem, b), key=repr)
        except TypeError:
            ca, cb = None, 1
        if ca != cb:
            d("set:elements", "%s became %s" % (_short(a), _short(b)))
        return out
    if ka == "dict":
        if type(b) is not dict:
            d("dict:container-type", "dict became %s" % type(b).__name__)
            return out
        ksa, ksb = {str(k) for k in a}, set(b)
        if ksa != ksb:
            d("dict:keys", "keys %s became %s" % (sorted(ksa), sorted(map(str, ksb))))
            return out
        for k, v in a.items():
            graph_diff(v, b[str(k)], exact, "%s[%r]" % (path, k), out)
        return out
    if ka == "tensor":
        if type(b) is not type(a):
            d("tensor:kind", "%s became %s" % (type(a).__name__, type(b).__name__))
        elif b.dtype != a.dtype or tuple(b.shape) != tuple(a.shape):
            d("tensor:dtype-shape", "%s%s became %s%s" % (a.dtype, tuple(a.shape), b.dtype, tuple(b.shape)))
        elif bool(b.requires_grad) != bool(a.requires_grad):
            d("tensor:requires_grad", "requires_grad %s became %s" % (a.requires_grad, b.requires_grad))
        elif _tbytes(a) != _tbytes(b):
            d("tensor:contents", "tensor data changed")
        return out
    if ka in ("module", "optimizer", "scheduler", "tgen"):
        if type(b) is not type(a):
            d(ka + ":kind", "%s became %s" % (type(a).__name__, type(b).__name__))
        elif blob_id(a)[2] != blob_id(b)[2]:
            d(ka + ":state", "%s state changed across the round trip" % type(a).__name__)
        return out
    if ka == "logger":
        if not isinstance(b, logging.Logger):
            d("logger:kind", "logger became %s" % type(b).__name__)
        return out
    if ka == "rng":
        if not isinstance(b, np.random.Generator) or type(b.bit_generator) is not type(a.bit_generator):
            d("rng:kind", "Generator(%s) became %s" % (type(a.bit_generator).__name__,
                                                       type(getattr(b, "bit_generator", b)).__name__))
        return out
    if ka in ("randomstate", "summarywriter"):
        if type(b) is not type(a):
            d(ka + ":kind", "%s became %s" % (type(a).__name__, type(b).__name__))
        return out
    if type(b) is not type(a):
        d("other:kind", "%s became %s" % (type(a).__name__, type(b).__name__))
    return out


# ------------------------------------------------------------------------------------------
# running the real save / load
def _target(tmp, store, as_path, tag="x"):
    p = os.path.join(tmp, tag + (".zip" if store == "zip" else ""))
    return pathlib.Path(p) if as_path else p


def real_save(obj, tmp, cfg, skip=(), tag="x", prev=None, notes=None):
    """save with the configuration cfg = {store, compression, as_path, mode}; mode 'o' first puts
    stale content at the target: the store of an EARLIER save of the object `prev` (a different graph) when one is
    given, else junk.  A target that already exists (a second overwrite of the same target) is left as it is."""
    p = _target(tmp, cfg["store"], cfg["as_path"], tag)
    import contextlib
    done = os.path.exists(str(p))
    if cfg["mode"] == "o" and prev is not None and not done:
        try:
            with contextlib.redirect_stdout(io.StringIO()):
                prev.save(p, mode="w", store=cfg["store"], compression_level=cfg.get("prev_compression", cfg["compression"]))
            done = True
        except Exception as e:  # noqa  (the earlier graph could not be saved: the target is untouched; junk instead)
            if notes is not None:
                notes.append("earlier save raised %s: junk placed at the target instead" % type(e).__name__)
            if os.path.isdir(str(p)):
                shutil.rmtree(str(p), ignore_errors=True)
            elif os.path.exists(str(p)):
                os.remove(str(p))
    if cfg["mode"] == "o" and not done:
        if cfg["store"] == "zip":
            with open(str(p), "wb") as f:
                f.write(b"stale")
        else:
            os.makedirs(os.path.join(str(p), "stale_group"))
            with open(os.path.join(str(p), "stale_group", "junk"), "w") as f:
                f.write("stale")
    with contextlib.redirect_stdout(io.StringIO()):
        obj.save(p, mode=cfg["mode"], store=cfg["store"], skip=list(skip), compression_level=cfg["compression"])
    return p


def real_load(p, skip=()):
    from quantem.core.io.serialize import load
    import contextlib
    with contextlib.redirect_stdout(io.StringIO()):
        return load(p, skip=list(skip))


def resolve_types(names):
    """type names of a spec -> real types"""
    import builtins
    out = []
    for n in names:
        mod, _, q = n.rpartition(".")
        if n == "builtins.NoneType":
            out.append(type(None))
        elif mod == "builtins":
            out.append(getattr(builtins, q))
        else:
            m = __import__(mod, fromlist=[q])
            out.append(getattr(m, q))
    return out


_SRC_GUARDS = None


def guard_vector(v):
    """the tests of _serialize_value evaluated on a real object: compiled from the CURRENT source of the chain
    (harness/c01_tie.compiled_guards); the hand copy below only serves when the translator rejects the source
    (the tie is then reported broken by the check).  Returns (vector, compiled_from_source)."""
    global _SRC_GUARDS
    if _SRC_GUARDS is None:
        try:
            from .c01_tie import compiled_guards
            _SRC_GUARDS = compiled_guards()
        except Exception:  # noqa
            _SRC_GUARDS = False
    if _SRC_GUARDS:
        return _SRC_GUARDS(v), True
    return _guard_vector_copy(v), False


def _guard_vector_copy(v):
    import torch
    from quantem.core.io.serialize import AutoSerialize
    return [isinstance(v, torch.Tensor), isinstance(v, torch.optim.Optimizer),
            hasattr(v, "step") and hasattr(v, "get_last_lr"),
            hasattr(v, "add_scalar") and hasattr(v, "add_image"), hasattr(v, "log") and hasattr(v, "info"),
            isinstance(v, torch.nn.Module) or (hasattr(v, "__module__") and "torch" in str(v.__module__)),
            isinstance(v, np.ndarray), isinstance(v, (int, float, str, bool, type(None))),
            hasattr(v, "dtype") and hasattr(v, "item") and not isinstance(v, np.complexfloating),
            hasattr(v, "__fspath__") or str(type(v)).startswith("<class 'pathlib."),
            AutoSerialize._is_autoserialize_instance(v), isinstance(v, (list, tuple, dict)), isinstance(v, set),
            hasattr(v, "bit_generator"), hasattr(v, "get_state") and hasattr(v, "set_state")]


def leaves(x, acc):
    """every value of the graph (for the dispatch / type-table correspondence)"""
    from quantem.core.io.serialize import AutoSerialize
    acc.append(x)
    if isinstance(x, AutoSerialize):
        for v in ovars(x).values():
            leaves(v, acc)
    elif isinstance(x, (list, tuple, set)):
        for v in x:
            leaves(v, acc)
    elif isinstance(x, dict):
        for v in x.values():
            leaves(v, acc)
    return acc


def _exc_key(e):
    return type(e).__name__


def run_case(case):
    """Execute one case on the real implementation.  Returns a JSON-able dict:
       v/obs/ld: Coq terms (None when not available), diffs: oracle findings [(key, msg)],
       stats, dispatch table rows, and for C14 the extra runs."""
    import warnings
    warnings.filterwarnings("ignore")
    res = {"id": case["id"], "diffs": [], "stats": {}, "v": None, "obs": None, "ld": None, "disp": [],
           "notes": [], "modelled": True}
    tmp = tempfile.mkdtemp(prefix="c01_")
    label = case.get("label", "graph")
    try:
        # overwrite history: the target holds an earlier save of a DIFFERENT graph when this one is written (mode 'o')
        prev = build(case["prev_spec"]) if case.get("prev_spec") else None
        obj = build(case["spec"])
        try:
            res["v"] = alpha(obj, stats=res["stats"])
        except Unmodelled as u:
            res["modelled"] = False
            res["notes"].append("not modelled: %s" % u)
        if case.get("dispatch"):
            seen = set()
            for lf in leaves(obj, []):
                try:
                    t = alpha(lf, root=False)
                except Unmodelled:
                    continue
                kk = (type(lf).__name__, getattr(getattr(lf, "dtype", None), "name", None) if isinstance(lf, np.generic) else None)
                if kk in seen:
                    continue
                seen.add(kk)
                gv, from_src = guard_vector(lf)
                from quantem.core.io.serialize import AutoSerialize as _AS
                res["disp"].append({"term": t, "guards": [bool(g) for g in gv], "guards_from_source": from_src,
                                    "is_numeric": bool(_AS._is_numeric_scalar(lf)), "mro": mro_names(lf),
                                    "type": type(lf).__name__,
                                    "abcs": [n for n, t_ in zip(ABC_DOMAIN, resolve_types(ABC_DOMAIN)) if isinstance(lf, t_)]})
        cfg = case["cfg"]
        sn_s = case.get("skip_save_names", [])
        st_s = case.get("skip_save_types", [])
        sn_l = case.get("skip_load_names", [])
        st_l = case.get("skip_load_types", [])
        skip_s = list(sn_s) + resolve_types(st_s)
        # save() stores list(set(names)): the interpreter's set order is an input of the model
        res["sn_order"] = list({x for x in skip_s if isinstance(x, str)})
        # ---------------- save
        try:
            p = real_save(obj, tmp, cfg, skip=skip_s, prev=prev, notes=res["notes"])
        except Exception as e:  # noqa
            res["diffs"].append(("%s:save-raises-%s" % (label, _exc_key(e)), "save raised %s: %s" % (type(e).__name__, str(e)[:160])))
            res["save_exc"] = traceback.format_exc()[-600:]
            return res
        try:
            tree = walk(p)
        except Exception as e:  # noqa  (the written store cannot even be read back array by array)
            tree = None
            res["diffs"].append(("%s:store-unreadable-%s" % (label, _exc_key(e)), "the written store cannot be read back: %s: %s" % (type(e).__name__, str(e)[:160])))
        try:
            res["obs"] = node_term(tree) if tree is not None else None
        except Unmodelled as u:
            res["notes"].append("store not modelled: %s" % u)
        # ---------------- load
        try:
            ld = real_load(p, skip=list(sn_l) + resolve_types(st_l))
        except Exception as e:  # noqa
            res["diffs"].append(("%s:load-raises-%s" % (label, _exc_key(e)), "load raised %s: %s" % (type(e).__name__, str(e)[:160])))
            res["load_exc"] = traceback.format_exc()[-600:]
            return res
        try:
            res["ld"] = alpha(ld, loaded=True)
        except Unmodelled as u:
            res["notes"].append("loaded object not modelled: %s" % u)
        if case["prop"] == "C01":
            _oracle_c01(case, obj, ld, p, tree, tmp, res, prev)
        else:
            _oracle_c14(case, obj, ld, tmp, res)
    except Exception:  # harness-side failure: reported by the parent as such
        res["harness_exc"] = traceback.format_exc()[-1500:]
    finally:
        shutil.rmtree(tmp, ignore_errors=True)
        while _CLEANUP:
            shutil.rmtree(_CLEANUP.pop(), ignore_errors=True)
    return res


def _term_or_none(f, *a, **k):
    try:
        return f(*a, **k)
    except Unmodelled:
        return None


def _oracle_c01(case, obj, ld, p, tree, tmp, res, prev=None):
    cfg = case["cfg"]
    hist = prev is not None and cfg["mode"] == "o"
    label = case.get("label", "graph")
    pre = "" if label == "graph" else label + ":"
    for k, m in graph_diff(obj, ld, exact=False):
        res["diffs"].append((pre + k, m))
    files = [(p, ld, res["diffs"])]
    # fixed point: save the loaded object again and reload it
    if case.get("fixpoint"):
        try:
            # (with an overwrite history: the loaded object is saved over the SAME target once more, mode 'o')
            cfg2 = dict(cfg, mode="o" if hist else "w")
            p2 = real_save(ld, tmp, cfg2, tag="x" if hist else "second")
            res["obs2"] = _term_or_none(lambda: node_term(walk(p2)))       # the store written by the second save
            res["ld_s"] = _term_or_none(alpha, ld)                         # the loaded object as saved (rng states as they are)
            ld2 = real_load(p2)
            res["ld2"] = _term_or_none(alpha, ld2, loaded=True)
            for k, m in graph_diff(ld, ld2, exact=True):
                res["diffs"].append((pre + "fixpoint:" + k, "second save/load is not a fixed point: " + m))
            res["fixpoint_done"] = True
        except Exception as e:  # noqa
            res["diffs"].append((pre + "fixpoint:raises-%s" % _exc_key(e), "second save/load raised %s: %s" % (type(e).__name__, str(e)[:160])))
    # the other store (and another compression level / target type) gives the same file and object
    if case.get("other_store"):
        try:
            # (with an overwrite history: the other store goes through the same history)
            cfg3 = dict(case["other_store"], mode="o") if hist else dict(case["other_store"])
            p3 = real_save(obj, tmp, cfg3, tag="other", prev=prev if hist else None)
            tree3 = walk(p3)
            res["obs3"] = _term_or_none(node_term, tree3)                  # the other store, as written
            if tree is not None and tree_canon(tree3) != tree_canon(tree):
                res["diffs"].append((pre + "store-independence:tree", "store contents differ between %s and %s" % (cfg, cfg3)))
            ld3 = real_load(p3)
            for k, m in graph_diff(ld, ld3, exact=True):
                res["diffs"].append((pre + "store-independence:" + k, "%s vs %s: %s" % (cfg["store"], cfg3["store"], m)))
            res["other_done"] = True
            files.append((p3, ld3, res["diffs"]))
        except Exception as e:  # noqa
            res["diffs"].append((pre + "store-independence:raises-%s" % _exc_key(e), "other store raised %s: %s" % (type(e).__name__, str(e)[:160])))
    # object history: the same live graph is changed in place and saved again (and again); with an overwrite history the
    # fixed-point run has re-written the first target, which then no longer holds this graph's save
    if case.get("hist"):
        if hist and case.get("fixpoint"):
            files = files[1:]
        _history_rounds(case, obj, files, tmp, res)


# ------------------------------------------------------------------------------------------
# object histories across saves: the SAME live graph is saved, mutated in place, saved again; every file must load to
# the state the graph had at the time of THAT save
def _changed_tensor(t):
    """a tensor of the same dtype / shape as t whose contents differ from t's"""
    import torch
    d = t.detach().clone()
    if d.dtype == torch.bool:
        return ~d
    if d.dtype.is_floating_point or d.dtype.is_complex:
        out = (d * 2 + 1).to(d.dtype)
        bad = ~torch.isfinite(out.abs() if d.dtype.is_complex else out) | (out == d)
        out[bad] = 3
        return out
    return d + 1 if d.dtype != torch.uint8 else (d + 1) % 251


def _mut_tensor(t, rnd, how=None):
    """change the contents of the live tensor t in place (same object, dtype, shape, requires_grad) through one of the
    legitimate write paths; returns the name of the path or None when t has no contents"""
    import torch
    if t.numel() == 0:
        return None
    new = _changed_tensor(t)
    how = how or rnd.choice(["data-inplace-op", "data-copy_", "data-assign", "numpy-view", "inplace-op", "setitem"])
    if how == "numpy-view":
        try:
            a = t.detach().numpy()              # shares the tensor's memory
            a[...] = new.numpy()
            return "tensor:" + how
        except (TypeError, RuntimeError):       # dtype without a NumPy counterpart (bfloat16)
            how = "data-copy_"
    if how == "data-inplace-op":
        if t.dtype == torch.bool:
            t.data.logical_not_()
        elif t.dtype.is_floating_point or t.dtype.is_complex:
            t.data.mul_(2).add_(1)
            if not bool((t.data == new).all()):
                t.data.copy_(new)
        else:
            t.data.copy_(new)
    elif how == "data-copy_":
        t.data.copy_(new)
    elif how == "data-assign":
        t.data = new
    elif how == "inplace-op":
        with torch.no_grad():
            t.copy_(new)
    else:
        with torch.no_grad():
            t[...] = new
    return "tensor:" + how


def _mut_ndarray(a, rnd):
    """change the contents of the live ndarray in place; None when it has no contents or is read-only"""
    if a.size == 0 or not a.flags.writeable or a.dtype.kind == "O":
        return None
    k = a.dtype.kind
    with np.errstate(all="ignore"):
        if k == "b":
            a[...] = ~a
        elif k in "iu":
            a += 1
        elif k in "fc":
            old = a.copy()
            a *= 2
            a += 1
            same = (a == old) | ~np.isfinite(a)
            a[same] = 3
        elif k in "US":
            z, o = (b"zq", b"a") if k == "S" else ("zq", "a")
            a[...] = np.where(a == z, o, z)
        elif k in "mM" and a.dtype.itemsize == 8:
            a.view("int64")[...] += 1
        elif k == "V" and a.dtype.names:
            a[a.dtype.names[0]] += 1
        else:
            return None
    return "ndarray:inplace"


def _mut_blob(x, rnd):
    """in-place change of a torch module / optimizer / scheduler / generator, or of a NumPy random generator"""
    import torch
    if isinstance(x, torch.optim.Optimizer) or (hasattr(x, "step") and hasattr(x, "get_last_lr") and hasattr(x, "optimizer")):
        opt = x if isinstance(x, torch.optim.Optimizer) else x.optimizer
        for g in opt.param_groups:
            for q in g["params"]:
                q.grad = torch.ones_like(q)
        opt.step()
        if opt is not x:
            x.step()
            return "scheduler:step"
        return "optimizer:step"
    if isinstance(x, torch.nn.Module):
        ps = list(x.parameters()) + list(x.buffers())
        if not ps:
            return None
        how = rnd.choice(["param-data-inplace", "param-inplace", "param-data-assign"])
        for q in ps:
            _mut_tensor(q, rnd, {"param-data-inplace": "data-inplace-op", "param-inplace": "inplace-op", "param-data-assign": "data-assign"}[how])
        return "module:" + how
    if isinstance(x, torch.Generator):
        x.manual_seed(rnd.randrange(10 ** 6))
        return "tgen:reseed"
    if isinstance(x, np.random.Generator):
        x.random()
        return "rng:advance"
    return None


def _new_value(rnd, in_cont):
    from . import gen_C01 as G
    return build(G.gen_value(rnd, rnd.choice([0, 1, 1, 2]), in_cont, 3))


def _is_attrs(x):
    return getattr(type(x), "__attrs_attrs__", None) is not None


def mutate(x, rnd, p, ops, path="obj"):
    """mutate the live graph below x IN PLACE, every legitimate way: contents of tensors (through .data, in-place ops,
    shared NumPy views) / ndarrays / modules / optimizers / generators, re-assignment of attributes, items and dict
    values (any value kind, so a name can change its storage kind), append / insert / pop, key and attribute deletion,
    new attributes / keys / set elements.  Each child is touched with probability p; ops collects 'path: what'."""
    import torch
    from quantem.core.io.serialize import AutoSerialize

    def inplace(v, pth):
        """in-place change of the child itself (its identity is kept); True when done"""
        if isinstance(v, torch.Tensor):
            how = _mut_tensor(v, rnd)
        elif isinstance(v, np.ndarray):
            how = _mut_ndarray(v, rnd)
        else:
            how = _mut_blob(v, rnd)
        if how:
            ops.append("%s: %s" % (pth, how))
        return bool(how)

    def visit(v, pth, setter, deleter, in_cont):
        """one child: in-place change, re-assignment or deletion in its parent; then recursion"""
        stateful = isinstance(v, (torch.Tensor, np.ndarray, torch.nn.Module, torch.optim.Optimizer, torch.Generator, np.random.Generator)) \
            or (hasattr(v, "step") and hasattr(v, "get_last_lr"))
        if rnd.random() < (min(0.95, p * 2) if stateful else p * 0.6):
            c = rnd.random()
            if stateful and c < 0.75 and inplace(v, pth):
                pass
            elif c < 0.88 and setter is not None:
                nv = _new_value(rnd, in_cont)
                setter(nv)
                ops.append("%s: re-assigned (%s -> %s)" % (pth, _kind(v), _kind(nv)))
                return
            elif deleter is not None and c >= 0.88:
                deleter()
                ops.append("%s: deleted (%s)" % (pth, _kind(v)))
                return
        if isinstance(v, (list, tuple, dict, set)) or (isinstance(v, AutoSerialize) and not isinstance(v, torch.nn.Module)):
            mutate(v, rnd, p, ops, pth)

    from . import gen_C01 as G
    if isinstance(x, AutoSerialize):
        fixed = _is_attrs(x)
        names = list(ovars(x))
        for nm in names:
            can_del = (not fixed) and len(ovars(x)) > 1
            visit(getattr(x, nm), "%s.%s" % (path, nm), (lambda nv, nm=nm: setattr(x, nm, nv)),
                  (lambda nm=nm: delattr(x, nm)) if can_del else None, False)
        if not fixed and rnd.random() < p:
            free = [n for n in G.ATTR_NAMES if n not in ovars(x)]
            if free:
                nm = rnd.choice(free)
                setattr(x, nm, _new_value(rnd, False))
                ops.append("%s.%s: new attribute (%s)" % (path, nm, _kind(getattr(x, nm))))
    elif isinstance(x, list):
        i = 0
        while i < len(x):
            n0 = len(x)
            visit(x[i], "%s[%d]" % (path, i), (lambda nv, i=i: x.__setitem__(i, nv)), (lambda i=i: x.pop(i)), True)
            i += 1 if len(x) == n0 else 0
        if rnd.random() < p:
            nv = _new_value(rnd, True)
            if x and rnd.random() < 0.3:
                x.insert(0, nv)
                ops.append("%s: insert at 0 (%s)" % (path, _kind(nv)))
            else:
                x.append(nv)
                ops.append("%s: append (%s)" % (path, _kind(nv)))
    elif isinstance(x, tuple):
        for i, v in enumerate(x):
            visit(v, "%s[%d]" % (path, i), None, None, True)
    elif isinstance(x, dict):
        for k in list(x):
            visit(x[k], "%s[%r]" % (path, k), (lambda nv, k=k: x.__setitem__(k, nv)), (lambda k=k: x.__delitem__(k)), True)
        if rnd.random() < p:
            free = [n for n in G.DICT_KEYS if n not in x]
            k = rnd.choice(free)
            x[k] = _new_value(rnd, True)
            ops.append("%s[%r]: new key (%s)" % (path, k, _kind(x[k])))
    elif isinstance(x, set):
        if x and rnd.random() < p:
            e = rnd.choice(sorted(x, key=lambda e_: repr(_canon_elem(e_))))
            x.discard(e)
            ops.append("%s: discard (%s)" % (path, _short(e, 30)))
        if rnd.random() < p:
            numeric = bool(x) and all(_is_num(e) for e in x)
            e = rnd.randint(1000, 9999) if numeric else build(G.gen_hashable(rnd))
            try:
                if e not in x:
                    x.add(e)
                    ops.append("%s: add (%s)" % (path, _short(e, 30)))
            except TypeError:
                pass
    return ops


def _history_rounds(case, obj, files, tmp, res):
    """files: [(path, object loaded from it right after the save, list its findings go to)] of the saves made so far"""
    import random
    h = case["hist"]
    rnd = random.Random(h["seed"])
    label = case.get("label", "graph")
    pre = ("" if label == "graph" else label + ":") + "history:"
    res["hist"] = []
    last_tag, last_cfg = "x", case["cfg"]
    for n, rd in enumerate(h["rounds"]):
        rec = {"round": n + 1, "ops": [], "diffs": [], "v": None, "obs": None, "ld": None, "target": rd["target"]}
        res["hist"].append(rec)
        p = h["p"]
        for _ in range(6):
            mutate(obj, rnd, p, rec["ops"])
            if rec["ops"]:
                break
            p = min(1.0, p + 0.2)
        rec["v"] = _term_or_none(alpha, obj)
        if rd["target"] == "same":
            cfg, tag = dict(last_cfg, mode="o", compression=rd["cfg"]["compression"]), last_tag
        else:
            cfg, tag = dict(rd["cfg"]), "hist%d" % n
        rec["cfg"] = cfg
        try:
            pk = real_save(obj, tmp, cfg, tag=tag)
        except Exception as e:  # noqa
            rec["diffs"].append((pre + "save-raises-%s" % _exc_key(e), "save #%d of the same live graph raised %s: %s" % (n + 2, type(e).__name__, str(e)[:160])))
            return
        try:
            rec["obs"] = _term_or_none(lambda: node_term(walk(pk)))
        except Exception as e:  # noqa  (the written store cannot even be read back array by array)
            rec["diffs"].append((pre + "store-unreadable-%s" % _exc_key(e), "the store written by save #%d of the same live graph (%s target, store %s) "
                                 "cannot be read back: %s: %s" % (n + 2, rd["target"], cfg["store"], type(e).__name__, str(e)[:160])))
        try:
            ldk = real_load(pk)
        except Exception as e:  # noqa
            rec["diffs"].append((pre + "load-raises-%s" % _exc_key(e), "load of save #%d raised %s: %s" % (n + 2, type(e).__name__, str(e)[:160])))
            return
        rec["ld"] = _term_or_none(alpha, ldk, loaded=True)
        what = "save #%d of the same live graph (%s, store %s, mode %s) after in-place changes [%s]" % (
            n + 2, "same target" if rd["target"] == "same" else "new target", cfg["store"], cfg["mode"], "; ".join(rec["ops"][:6]))
        for k, m in graph_diff(obj, ldk, exact=False):
            rec["diffs"].append((pre + k, "%s does not load to the state the graph had when it was saved: %s" % (what, m)))
        # the files of the EARLIER saves (not overwritten) still load to the state of their own save
        files = [f for f in files if str(f[0]) != str(pk)]
        for pj, ldj, sink in files:
            try:
                again = real_load(pj)
                for k, m in graph_diff(ldj, again, exact=True):
                    sink.append((pre + "earlier-file:" + k, "a file written before the graph was changed loads differently after the later save: " + m))
            except Exception as e:  # noqa
                sink.append((pre + "earlier-file:load-raises-%s" % _exc_key(e), "an earlier file no longer loads after the later save: %s" % str(e)[:160]))
        files.append((pk, ldk, rec["diffs"]))
        last_tag, last_cfg = tag, cfg
        rec["done"] = True


# ------------------------------------------------------------------------------------------
# C14 oracle
def survivors(obj, names, types):
    """attribute-nested survivors of skipping `names` (at any level) and instances of `types`:
    {attr: None | {...nested...}}"""
    from quantem.core.io.serialize import AutoSerialize
    out = {}
    for k, v in ovars(obj).items():
        if k in names or (types and isinstance(v, tuple(types))):
            continue
        out[k] = survivors(v, names, types) if (isinstance(v, AutoSerialize) and not is_hybrid(v)) else None
    return out


def pruned_diff(ref, got, surv, path="obj", out=None, values=True):
    """`got` must have exactly the surviving attributes, each equal to the one of `ref` (the object
    loaded without any skipping); values=False compares attribute names only"""
    if out is None:
        out = []
    if type(got) is not type(ref):
        out.append(("skip:class", "%s: class %s became %s" % (path, type(ref).__name__, type(got).__name__)))
        return out
    vref, vgot = ovars(ref), ovars(got)
    have = set(vgot)
    for nm in sorted(have - set(surv)):
        out.append(("skip:still-present" + (":" + nm if nm.startswith("_autoserialize") else ""),
                    "%s: attribute %r should have been skipped but is present" % (path, nm)))
    for nm in sorted(set(surv) - have):
        if nm in vref:
            out.append(("skip:lost-survivor", "%s: attribute %r was not skipped but is missing" % (path, nm)))
    for nm, sub in surv.items():
        if nm in have and nm in vref:
            if sub is not None:
                pruned_diff(vref[nm], vgot[nm], sub, path + "." + nm, out, values)
            elif values:
                for k, m in graph_diff(vref[nm], vgot[nm], exact=True, path=path + "." + nm):
                    out.append(("skip:survivor-changed:" + k, m))
    return out


def _oracle_c14(case, obj, ld, tmp, res):
    cfg = case["cfg"]
    sn_s, st_s, sn_l = case.get("skip_save_names", []), case.get("skip_save_types", []), case.get("skip_load_names", [])
    types = resolve_types(st_s)
    # reference: the same object saved and loaded without any skipping
    pb = real_save(obj, tmp, dict(cfg, mode="w"), tag="base")
    base = real_load(pb)
    surv = survivors(obj, set(sn_s) | set(sn_l), types)
    # graphs with objects inside containers are outside C14's quantifier: attribute names only.  Load-time TYPE
    # skipping is not part of the property text (the code does it by exact type): correspondence only.
    if case.get("lookalike"):
        # what the type list meets, per attribute at every level: value kind x (removed: instance of a listed type at save
        # time | kept although a load-time-only type lists its kind | kept)
        st = {}
        lt = tuple(resolve_types(case.get("skip_load_types", [])))

        def walk_la(o, bo, depth):
            from quantem.core.io.serialize import AutoSerialize
            bv = ovars(bo) if bo is not None else {}
            for k, v in ovars(o).items():
                kind = type(v).__name__ + ("-0d" if isinstance(v, np.ndarray) and v.ndim == 0 else "")
                removed = bool(types) and isinstance(v, tuple(types))
                # the value is NOT an instance of a listed type, the form it takes in the file / after a plain load IS
                twin_s = (not removed) and bool(types) and k in bv and isinstance(bv[k], tuple(types))
                twin_l = (not removed) and bool(lt) and (isinstance(v, lt) or (k in bv and isinstance(bv[k], lt)))
                how = "removed-at-save" if removed else "kept:stored-form-is-instance-of-a-save-time-type" if twin_s else \
                    "kept:load-time-type-lists-its-kind" if twin_l else "kept"
                for key in ("%s/%s" % (how, kind), "%s/depth%d" % (how.split(":")[0], depth)):
                    st[key] = st.get(key, 0) + 1
                if isinstance(v, AutoSerialize) and not is_hybrid(v) and not removed:
                    walk_la(v, bv.get(k), depth + 1)
        walk_la(obj, base, 0)
        res["la_stats"] = st
    # a load-time type list that only REPEATS the recorded save-time list is covered by the text ("recorded lists are
    # honoured by later loads without being repeated": repeating them changes nothing)
    if not case.get("skip_load_types") or (case.get("load_types_repeat_saved") and set(case["skip_load_types"]) <= set(st_s)):
        for k, m in pruned_diff(base, ld, surv, values=not case.get("container_objects")):
            res["diffs"].append((k, "save skip=%s+%s, load skip=%s: %s" % (sn_s, st_s, sn_l, m)))
    names = sorted(set(sn_s) | set(sn_l))
    # hybrids below the root are saved whole (module kind): what happens to skipped names inside them is recorded only
    hyb = [v for v in ovars(ld).values() if is_hybrid(v)]
    res["hybrid_children"] = len(hyb)
    res["hybrid_child_skipped_names_surviving"] = sum(1 for h in hyb for nm in names if nm in ovars(h))
    if case.get("save_eq_load") and names:
        # skipping the names at load time only == skipping them at save time only
        p1 = real_save(obj, tmp, dict(cfg, mode="w"), skip=names, tag="at_save")
        a1 = real_load(p1)
        a2 = real_load(pb, skip=names)
        for k, m in graph_diff(a1, a2, exact=True):
            res["diffs"].append(("skip:save-vs-load:" + k, "names %s skipped at save time vs at load time: %s" % (names, m)))
        for k, m in graph_diff(a2, a1, exact=True):
            res["diffs"].append(("skip:save-vs-load:" + k, "names %s skipped at load time vs at save time: %s" % (names, m)))
        # recorded lists: a later plain load of the save-skipped file honours them (a1 above was a
        # plain load); loading it again with the names repeated changes nothing
        a3 = real_load(p1, skip=names)
        for k, m in graph_diff(a1, a3, exact=True):
            res["diffs"].append(("skip:recorded:" + k, m))
        res["save_eq_load_done"] = True
        # recorded lists ALONE: a store that still holds every attribute, with skip lists written into its
        # root metadata afterwards, must load (without skip argument) like an explicit load-time skip
        import zarr
        from zarr.storage import LocalStore
        rec_types = [np.ndarray] if int(hashlib.sha1(case["id"].encode()).hexdigest(), 16) % 2 else []
        pr = real_save(obj, tmp, dict(cfg, store="dir", mode="w", as_path=False), tag="recorded")
        root = zarr.open_group(store=LocalStore(str(pr)), mode="r+")
        root.attrs["_autoserialize_skip_names"] = list(names)
        root.attrs["_autoserialize_skip_types"] = ["%s.%s" % (t.__module__, t.__qualname__) for t in rec_types]
        a4 = real_load(pr)
        a5 = real_load(pb, skip=list(names) + rec_types)
        for k, m in graph_diff(a5, a4, exact=True) + graph_diff(a4, a5, exact=True):
            res["diffs"].append(("skip:recorded-only:" + k, "lists %s+%s recorded in the file vs given to load(): %s" % (
                names, [t.__name__ for t in rec_types], m)))
        res["recorded_only_done"] = True
    if case.get("container_objects"):
        # objects inside containers: pruned at save time, not at load time (outside the quantifier
        # of C14; recorded, never a violation)
        p1 = real_save(obj, tmp, dict(cfg, mode="w"), skip=names, tag="c_at_save")
        a1 = real_load(p1)
        a2 = real_load(pb, skip=names)
        res["asymmetry"] = bool(graph_diff(a1, a2, exact=True) or graph_diff(a2, a1, exact=True))


# ------------------------------------------------------------------------------------------
# Ptychography.save's own use of skip (fixed corpus case of C14)
def run_ptycho_case(_=None):
    """Ptychography.save() skips ["_dset", "dset"] unless save_raw_data=True.  Checks on the real
    objects: the names are absent after a plain load, every other attribute survives, and skipping
    the same names at load time from a file saved WITH the raw data gives the same object."""
    import contextlib
    import warnings
    warnings.filterwarnings("ignore")
    out = {"diffs": [], "notes": []}
    tmp = tempfile.mkdtemp(prefix="c14pt_")
    try:
        from . import toy_ptycho as tp
        from quantem.core.io.serialize import load
        pt = tp.build_toy()
        with contextlib.redirect_stdout(io.StringIO()):
            pt.save(os.path.join(tmp, "a.zip"))
            pt.save(os.path.join(tmp, "b.zip"), save_raw_data=True)
            a1 = load(os.path.join(tmp, "a.zip"))
            a2 = load(os.path.join(tmp, "b.zip"), skip=["_dset", "dset"])
            a3 = load(os.path.join(tmp, "b.zip"))
        names = set(vars(pt))
        out["notes"].append("attributes of the toy Ptychography object: %d" % len(names))
        for a, how in ((a1, "save-time (Ptychography.save default)"), (a2, "load-time skip=['_dset','dset']")):
            for nm in ("_dset", "dset"):
                if nm in vars(a):
                    out["diffs"].append(("ptycho:skip:still-present", "%s: %r is present in the loaded object" % (how, nm)))
            want = (names - {"_dset", "dset"}) | ({"_dataset_metadata"} if a is a1 else set())
            have = set(vars(a))
            if have != want:
                out["diffs"].append(("ptycho:skip:attr-names" + (":_autoserialize_skip" if any(n.startswith("_autoserialize_skip") for n in have - want) else ""),
                                     "%s: attribute names differ: extra %s missing %s" % (how, sorted(have - want), sorted(want - have))))
        if "_dset" not in vars(a3):
            out["diffs"].append(("ptycho:raw-data-lost", "save_raw_data=True did not keep _dset"))
        for nm in sorted(set(vars(a1)) & set(vars(a2))):
            x, y = vars(a1)[nm], vars(a2)[nm]
            for k, m in graph_diff(x, y, exact=True, path="ptycho." + nm):
                out["diffs"].append(("ptycho:skip:save-vs-load:" + k, m))
        out["n_attrs"] = len(names)
    except Exception:
        out["harness_exc"] = traceback.format_exc()[-1500:]
    finally:
        shutil.rmtree(tmp, ignore_errors=True)
    return out


# ---------------------------------------------------------------------------------------------------------------------
# C14: the library's OWN caller of the skip machinery: Ptychography.save(skip=..., save_raw_data=...) / load / from_file
# ---------------------------------------------------------------------------------------------------------------------
def _pt_value(kind, seed):
    import torch
    g = np.random.default_rng(seed)
    if kind == "int":
        return int(g.integers(-50, 50))
    if kind == "float":
        return float(g.integers(-40, 40)) / 8.0
    if kind == "str":
        return "note-%d" % int(g.integers(0, 1000))
    if kind == "ndarray":
        return g.integers(-9, 9, size=(2, 3)).astype(np.float64)
    if kind == "tensor":
        return torch.tensor(g.integers(-9, 9, size=(3,)).astype(np.float32))
    if kind == "gen":
        return np.random.default_rng(seed + 1)
    if kind == "list":
        return [int(x) for x in g.integers(-9, 9, size=3)] + ["s"]
    raise ValueError(kind)


def _pt_hang(pt, hang):
    """attributes put on the toy reconstruction before saving: on its (real, attribute-nested) detector model and a small
    attribute-nested tree `_notes` (NodeA -> inner NodeB); entries [name, kind, seed]"""
    from .c01_classes import NodeA, NodeB
    for nm, kd, sd in hang["det"]:
        setattr(pt._detector_model, nm, _pt_value(kd, sd))
    notes = NodeA()
    for nm, kd, sd in hang["notes"]:
        setattr(notes, nm, _pt_value(kd, sd))
    inner = NodeB()
    for nm, kd, sd in hang["inner"]:
        setattr(inner, nm, _pt_value(kd, sd))
    notes.inner = inner
    pt._notes = notes


def _pt_nested(v):
    import torch
    from quantem.core.io.serialize import AutoSerialize
    return isinstance(v, AutoSerialize) and not isinstance(v, torch.nn.Module)


def _pt_removed(obj, names, types, pre=(), out=None):
    """attribute paths the property says are absent after the load: a listed name, or an instance of a listed type on the
    object being saved, at every level of attribute-nested AutoSerialize objects"""
    if out is None:
        out = []
    for k, v in vars(obj).items():
        if k in names:
            out.append((pre + (k,), "name"))
        elif types and isinstance(v, types):
            out.append((pre + (k,), "type"))
        elif _pt_nested(v):
            _pt_removed(v, names, types, pre + (k,), out)
    return out


def _pt_get(obj, path):
    for p in path:
        if not hasattr(obj, p):
            return False, None
        obj = getattr(obj, p)
    return True, obj


def _pt_type(name):
    import importlib
    mod, _, nm = name.rpartition(".")
    return getattr(importlib.import_module(mod), nm)


class _PtLibraryCall:
    """the library calls of one case: an exception they raise is a finding of that case, not a harness failure"""
    exc = None

    def __enter__(self):
        return self

    def __exit__(self, et, ev, tb):
        if et is not None and issubclass(et, Exception):
            self.exc = "%s: %s" % (et.__name__, str(ev)[:200])
            return True
        return False


def run_ptycho_skip_case(case):
    """one case of {save_raw_data} x {store} x {caller skip names / types at save time, names at load time}: oracle on the
    real objects (the property text): every listed name / instance of a listed type is absent after the load at every
    attribute-nested level, everything else loads exactly as without the caller's lists, the default _dset / dset
    skipping follows save_raw_data, save-time == load-time name skipping."""
    import contextlib
    import warnings
    warnings.filterwarnings("ignore")
    out = {"diffs": [], "stats": {}}
    tmp = tempfile.mkdtemp(prefix="c14ps_")

    def add(key, msg):
        out["diffs"].append((key, "[save_raw_data=%s store=%s save skip names %s types %s, load skip names %s] %s" % (
            case["raw"], case["store"], case["save_names"], case["save_types"], case["load_names"], msg)))

    try:
        from . import toy_ptycho as tp
        from quantem.core.io.serialize import load
        from quantem.diffractive_imaging.ptychography import Ptychography
        raw, store = case["raw"], case["store"]
        ext = ".zip" if store == "zip" else ""
        pt = tp.build_toy()
        _pt_hang(pt, case["hang"])
        types = tuple(_pt_type(t) for t in case["save_types"])
        sn, ln = list(case["save_names"]), list(case["load_names"])
        skip_arg = sn + list(types)
        if case.get("scalar_form") and len(skip_arg) == 1:
            skip_arg = skip_arg[0]                      # a single name / type given as such
        elif case.get("tuple_form"):
            skip_arg = tuple(skip_arg)
        removed = _pt_removed(pt, set(sn) | set(ln), types)
        sink = io.StringIO()
        lib = _PtLibraryCall()
        with contextlib.redirect_stdout(sink), contextlib.redirect_stderr(sink), lib:
            p_ref, p_s = os.path.join(tmp, "ref" + ext), os.path.join(tmp, "s" + ext)
            pt.save(p_ref, mode="o", store=store, skip=[], save_raw_data=raw, verbose=0)
            ref = load(p_ref)
            if sn or types:
                pt.save(p_s, mode="o", store=store, skip=skip_arg, save_raw_data=raw, verbose=0)
            else:
                p_s = p_ref
            if ln:
                got = load(p_s, skip=ln[0] if (case.get("scalar_form") and len(ln) == 1) else ln)
            elif case.get("via") == "from_file":
                got = Ptychography.from_file(p_s, auto_reload_dataset=False)
            else:
                got = load(p_s)
            by_load = load(p_ref, skip=sorted(set(sn) | set(ln))) if not types else None
        if lib.exc:
            add("ptycho:user-skip:raises", "Ptychography.save / load / from_file raised: " + lib.exc)
            return out
        # the default skipping follows save_raw_data
        for a, how in ((ref, "no caller skip"), (got, "with the caller's skip")):
            has = "_dset" in vars(a)
            if raw and not has and not any(p == ("_dset",) for p, _ in removed):
                add("ptycho:raw-data-lost", "%s: save_raw_data=True did not keep _dset" % how)
            if not raw and has:
                add("ptycho:skip:still-present", "%s: save_raw_data=False but '_dset' is present after the load" % how)
        # (1) every listed name / instance of a listed type is absent at every level
        n_present = 0
        for path, why in removed:
            in_ref, _ = _pt_get(ref, path)
            n_present += in_ref
            out["stats"]["removed/%s/depth-%d" % (why, len(path) - 1)] = out["stats"].get("removed/%s/depth-%d" % (why, len(path) - 1), 0) + int(in_ref)
            ok, _ = _pt_get(got, path)
            if ok:
                add("ptycho:user-skip:%s-still-present" % why,
                    "attribute %r (skipped by %s) is present in the loaded object" % (".".join(path), why))
        out["n_removed_present"] = n_present
        # (2) all remaining attributes load exactly as without the caller's lists
        for path, _ in removed:
            ok, par = _pt_get(ref, path[:-1])
            if ok and hasattr(par, path[-1]):
                delattr(par, path[-1])
        for k, m in graph_diff(ref, got, exact=True, path="ptycho"):
            add("ptycho:user-skip:remaining:" + k, m)
        # (3) skipping the same names at load time gives the same object
        if by_load is not None:
            for k, m in graph_diff(by_load, got, exact=True, path="ptycho"):
                add("ptycho:user-skip:save-vs-load:" + k, "load(file saved without the caller's names, skip=names) differs: " + m)
    except Exception:
        out["harness_exc"] = traceback.format_exc()[-1500:]
    finally:
        shutil.rmtree(tmp, ignore_errors=True)
    return out
