"""translate_C07.py — reads the INTEGER GEOMETRY of `iradon_torch` from the current source of
radon.py and emits it as Gallina functions of the detector width, so that the tie between the Coq
model (diagonal, pad_before, padded FFT size, default output size) and the code is a THEOREM
re-proved on every run (coq/gen_proofs/C07_Geom_GenProofs.v) instead of a comparison on samples.

How the source is read (fail closed: anything outside the grammar raises TranslateError, and the
check reports a broken tie):
  * the top-level statements of `iradon_torch` are executed symbolically, once with circle=True and
    once with circle=False, with output_size=None; the environment maps local names to integer
    expressions in the ONE variable N0 (the last component of `sinograms.shape`);
  * `if circle:` takes the branch of the run; `if <name> is None:` takes the body when the name is
    the parameter `output_size`; an `if` whose body only raises is skipped; any other compound
    statement poisons the names it assigns;
  * an assignment whose right-hand side is not in the grammar poisons its target; using a poisoned
    name in an observed expression is an error;
  * observed: the first argument of the call `get_fourier_filter_torch(...)` (filter size), the
    pad tuples of the `pad(...)` calls in order (detector padding, FFT padding), the value of
    `output_size` after its default has been filled in.
Grammar of integer expressions: literals, names, + - * // %, unary -, `**` and `<<` with a non-negative
right operand, max/min/abs/int, `(E).bit_length()`, `a if circle else b`, and the real-number idioms
    int(ceil(sqrt(2) * E))                     -> Z.sqrt_up (2 * E * E)
    int(floor(sqrt(E ** 2 / 2)))               -> Z.sqrt (E * E / 2)
    int(2 ** ceil(log2(E)))  |  1 << ceil(log2(E))     -> 2 ^ Z.log2_up E
with ceil / floor / sqrt / log2 from math, numpy or torch and E optionally wrapped in
torch.tensor(E, dtype=...) / float(E).  These idioms are read as EXACT real arithmetic: float32 log2 /
float64 sqrt round correctly for the sizes the oracle sweeps (N <= 400 compared against scikit-image on
every run); stated in the trusted base.
"""
from __future__ import annotations

import ast
from pathlib import Path


class TranslateError(Exception):
    pass


def _fail(node, msg):
    try:
        src = ast.unparse(node)
    except Exception:  # noqa
        src = repr(node)
    raise TranslateError("line %s: %s: `%s`" % (getattr(node, "lineno", "?"), msg, src[:160]))


def _callname(node):
    """dotted name of a call target: torch.ceil -> 'ceil' (last component), module prefix ignored"""
    f = node.func
    if isinstance(f, ast.Attribute):
        return f.attr
    if isinstance(f, ast.Name):
        return f.id
    return None


def _unwrap_real(node):
    """strip torch.tensor(E, dtype=...) / float(E) / np.float32(E) wrappers around an integer expression"""
    while isinstance(node, ast.Call) and _callname(node) in ("tensor", "float", "float32", "float64", "as_tensor") \
            and len(node.args) == 1:
        node = node.args[0]
    return node


def _is_sqrt2(node):
    if isinstance(node, ast.Call) and _callname(node) == "sqrt" and len(node.args) == 1:
        a = _unwrap_real(node.args[0])
        return isinstance(a, ast.Constant) and a.value in (2, 2.0)
    if isinstance(node, ast.BinOp) and isinstance(node.op, ast.Pow):
        return (isinstance(node.left, ast.Constant) and node.left.value in (2, 2.0)
                and isinstance(node.right, ast.Constant) and node.right.value == 0.5)
    return False


class Sym:
    def __init__(self, circle: bool):
        self.circle = circle
        self.env = {}
        self.poisoned = set()
        self.obs = {"filter_size": [], "pads": []}

    # ---------------------------------------------------------------- integer expressions
    def z(self, node) -> str:
        if isinstance(node, ast.Constant):
            if isinstance(node.value, bool) or not isinstance(node.value, int):
                _fail(node, "not an integer literal")
            return "(%d)" % node.value
        if isinstance(node, ast.Name):
            if node.id in self.env:
                return self.env[node.id]
            _fail(node, "name is not a known integer of the detector width"
                  + (" (poisoned by an untranslatable assignment)" if node.id in self.poisoned else ""))
        if isinstance(node, ast.UnaryOp) and isinstance(node.op, ast.USub):
            return "(- %s)" % self.z(node.operand)
        if isinstance(node, ast.IfExp):
            if isinstance(node.test, ast.Name) and node.test.id == "circle":
                return self.z(node.body if self.circle else node.orelse)
            _fail(node, "conditional on something other than `circle`")
        if isinstance(node, ast.BinOp):
            op = node.op
            if isinstance(op, (ast.Pow, ast.LShift)):
                real = self.real_pow(node)
                if real is not None:
                    return real
                a, b = self.z(node.left), self.z(node.right)
                return "(%s ^ %s)" % (a, b) if isinstance(op, ast.Pow) else "(%s * 2 ^ %s)" % (a, b)
            a, b = self.z(node.left), self.z(node.right)
            if isinstance(op, ast.Add):
                return "(%s + %s)" % (a, b)
            if isinstance(op, ast.Sub):
                return "(%s - %s)" % (a, b)
            if isinstance(op, ast.Mult):
                return "(%s * %s)" % (a, b)
            if isinstance(op, ast.FloorDiv):
                return "(%s / %s)" % (a, b)
            if isinstance(op, ast.Mod):
                return "(%s mod %s)" % (a, b)
            _fail(node, "operator outside the grammar")
        if isinstance(node, ast.Call):
            nm = _callname(node)
            if nm == "bit_length" and isinstance(node.func, ast.Attribute) and not node.args:
                return "(bit_length %s)" % self.z(node.func.value)
            if nm in ("max", "min") and len(node.args) == 2 and not node.keywords:
                return "(Z.%s %s %s)" % (nm, self.z(node.args[0]), self.z(node.args[1]))
            if nm == "abs" and len(node.args) == 1:
                return "(Z.abs %s)" % self.z(node.args[0])
            if nm in ("int", "item") and (len(node.args) == 1 or (nm == "item" and not node.args)):
                inner = node.args[0] if node.args else node.func.value
                r = self.real(inner)
                return r if r is not None else self.z(inner)
            r = self.real(node)
            if r is not None:
                return r
        _fail(node, "expression outside the grammar")

    def real_pow(self, node):
        """2 ** ceil(log2(E))  /  1 << ceil(log2(E))  ->  2 ^ Z.log2_up E"""
        base_ok = isinstance(node.left, ast.Constant) and (
            (isinstance(node.op, ast.Pow) and node.left.value in (2, 2.0))
            or (isinstance(node.op, ast.LShift) and node.left.value == 1))
        r = node.right
        if isinstance(r, ast.Call) and _callname(r) in ("int",) and len(r.args) == 1:
            r = r.args[0]
        if base_ok and isinstance(r, ast.Call) and _callname(r) == "ceil" and len(r.args) == 1:
            lg = r.args[0]
            if isinstance(lg, ast.Call) and _callname(lg) == "log2" and len(lg.args) == 1:
                return "(2 ^ Z.log2_up %s)" % self.z(_unwrap_real(lg.args[0]))
        return None

    def real(self, node):
        """integer value of a real-number idiom, or None"""
        node = _unwrap_real(node)
        if isinstance(node, ast.BinOp) and isinstance(node.op, (ast.Pow, ast.LShift)):
            return self.real_pow(node)
        if not (isinstance(node, ast.Call) and _callname(node) in ("ceil", "floor") and len(node.args) == 1):
            return None
        up = _callname(node) == "ceil"
        a = _unwrap_real(node.args[0])
        # sqrt(2) * E  /  E * sqrt(2)
        if isinstance(a, ast.BinOp) and isinstance(a.op, ast.Mult):
            for s2, e in ((a.left, a.right), (a.right, a.left)):
                if _is_sqrt2(s2):
                    ez = self.z(_unwrap_real(e))
                    return "(Z.sqrt%s (2 * %s * %s))" % ("_up" if up else "", ez, ez)
        # sqrt(E ** 2 / 2)
        if isinstance(a, ast.Call) and _callname(a) == "sqrt" and len(a.args) == 1 and not up:
            q = _unwrap_real(a.args[0])
            if isinstance(q, ast.BinOp) and isinstance(q.op, (ast.Div, ast.FloorDiv)) \
                    and isinstance(q.right, ast.Constant) and q.right.value in (2, 2.0):
                sq = q.left
                if isinstance(sq, ast.BinOp) and isinstance(sq.op, ast.Pow) and isinstance(sq.right, ast.Constant) \
                        and sq.right.value == 2:
                    ez = self.z(sq.left)
                    return "(Z.sqrt (%s * %s / 2))" % (ez, ez)
                if isinstance(sq, ast.BinOp) and isinstance(sq.op, ast.Mult) \
                        and ast.dump(sq.left) == ast.dump(sq.right):
                    ez = self.z(sq.left)
                    return "(Z.sqrt (%s * %s / 2))" % (ez, ez)
        return None

    # ---------------------------------------------------------------- statements
    def observe(self, node):
        """record the observed calls inside any statement / expression"""
        for sub in ast.walk(node):
            if not isinstance(sub, ast.Call):
                continue
            nm = _callname(sub)
            if nm == "get_fourier_filter_torch" and sub.args:
                self.obs["filter_size"].append(self.z(sub.args[0]))
            elif nm == "pad" and len(sub.args) >= 2 and isinstance(sub.args[1], (ast.Tuple, ast.List)) \
                    and len(sub.args[1].elts) == 2:
                self.obs["pads"].append(tuple(self.z(e) for e in sub.args[1].elts))

    def assigned(self, stmts):
        out = set()
        for st in stmts:
            for sub in ast.walk(st):
                if isinstance(sub, (ast.Assign, ast.AugAssign, ast.AnnAssign)):
                    tg = sub.targets if isinstance(sub, ast.Assign) else [sub.target]
                    for t in tg:
                        for n in ast.walk(t):
                            if isinstance(n, ast.Name):
                                out.add(n.id)
                elif isinstance(sub, (ast.For, ast.comprehension)):
                    for n in ast.walk(sub.target):
                        if isinstance(n, ast.Name):
                            out.add(n.id)
        return out

    def poison(self, names):
        for n in names:
            self.env.pop(n, None)
            self.poisoned.add(n)

    def bind(self, name, value):
        try:
            self.env[name] = self.z(value)
            self.poisoned.discard(name)
        except TranslateError:
            self.poison([name])

    def run(self, stmts):
        for st in stmts:
            if isinstance(st, ast.Expr) and isinstance(st.value, ast.Constant):
                continue
            if isinstance(st, ast.If):
                t = st.test
                if isinstance(t, ast.Name) and t.id == "circle":
                    self.run(st.body if self.circle else st.orelse)
                    continue
                if isinstance(t, ast.UnaryOp) and isinstance(t.op, ast.Not) and isinstance(t.operand, ast.Name) \
                        and t.operand.id == "circle":
                    self.run(st.orelse if self.circle else st.body)
                    continue
                if isinstance(t, ast.Compare) and len(t.ops) == 1 and isinstance(t.ops[0], ast.Is) \
                        and isinstance(t.left, ast.Name) and t.left.id == "output_size" \
                        and isinstance(t.comparators[0], ast.Constant) and t.comparators[0].value is None \
                        and "output_size" not in self.env:
                    self.run(st.body)
                    continue
                if all(isinstance(b, ast.Raise) for b in st.body) and not st.orelse:
                    continue
                self.poison(self.assigned(st.body + st.orelse))
                continue
            if isinstance(st, (ast.For, ast.While, ast.With, ast.Try)):
                self.poison(self.assigned([st]))
                continue
            if isinstance(st, ast.Assign) and len(st.targets) == 1:
                self.observe(st.value)
                tg = st.targets[0]
                if isinstance(tg, ast.Name):
                    if isinstance(st.value, ast.IfExp) and isinstance(st.value.test, ast.Compare) \
                            and len(st.value.test.ops) == 1 and isinstance(st.value.test.ops[0], (ast.Is, ast.IsNot)):
                        self.poison([tg.id])       # `x = x if x is not None else default` on a non-integer
                        continue
                    self.bind(tg.id, st.value)
                elif isinstance(tg, ast.Tuple) and isinstance(st.value, ast.Attribute) and st.value.attr == "shape":
                    names = [e.id for e in tg.elts if isinstance(e, ast.Name)]
                    self.poison(names)
                    if names:
                        self.env[names[-1]] = "N0"
                        self.poisoned.discard(names[-1])
                else:
                    self.poison(self.assigned([st]))
                continue
            if isinstance(st, ast.AugAssign) and isinstance(st.target, ast.Name):
                self.observe(st.value)
                fake = ast.BinOp(left=ast.Name(id=st.target.id, ctx=ast.Load()), op=st.op, right=st.value)
                ast.copy_location(fake, st)
                self.bind(st.target.id, fake)
                continue
            if isinstance(st, ast.Return):
                continue
            self.observe(st)
            self.poison(self.assigned([st]))


def translate(path: Path, func: str = "iradon_torch") -> dict:
    tree = ast.parse(Path(path).read_text())
    fn = next((n for n in ast.walk(tree) if isinstance(n, ast.FunctionDef) and n.name == func), None)
    if fn is None:
        raise TranslateError("function %s not found in %s" % (func, path))
    out = {}
    for circle in (True, False):
        s = Sym(circle)
        s.run(fn.body)
        tag = "circle" if circle else "nocircle"
        if len(s.obs["filter_size"]) != 1:
            raise TranslateError("expected exactly one call get_fourier_filter_torch(size, ...) on the %s path, found %d"
                                 % (tag, len(s.obs["filter_size"])))
        out["filter_size_" + tag] = s.obs["filter_size"][0]
        pads = s.obs["pads"]
        if len(pads) != (2 if circle else 1):
            raise TranslateError("expected %d pad((before, after)) calls on the %s path, found %d"
                                 % (2 if circle else 1, tag, len(pads)))
        if circle:
            out["pad_before"], out["pad_after"] = pads[0]
        out["fftpad_before_" + tag], out["fftpad_after_" + tag] = pads[-1]
        if "output_size" not in s.env:
            raise TranslateError("the default of output_size is not an integer expression of the detector width (%s path)" % tag)
        out["out_" + tag] = s.env["output_size"]
    return out


def emit(defs: dict) -> str:
    lines = ["(* GENERATED by harness/translate_C07.py from the current radon.py: do not edit *)",
             "From QV.lib Require Import Prelude.",
             "From QV.model Require Import C07_Model C07_Model_Ext.",
             "Local Open Scope Z_scope.", ""]
    for k in sorted(defs):
        lines.append("Definition gen_%s (N0 : Z) : Z := %s." % (k, defs[k]))
    return "\n".join(lines) + "\n"
