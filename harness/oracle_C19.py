"""C19 — the property itself, evaluated on the implementation's observations alone (no Coq
model involved), with an independent dictionary reference for the merge of defaults.
Each finding is (key, what)."""
from __future__ import annotations

import copy

from .impl_C19 import (Impl, comparable, is_pure, leaf_paths, norm, norm_tree, npath,
                       other_spelling, respell_key, sort_tree, to_abstract, tree_wf)


# ------------------------------------------------------------------------------ reference dictionary
def ref_find(d: dict, k: str):
    """the entry of d whose spelling-insensitive name is that of k"""
    for k2 in d:
        if norm(k2) == norm(k):
            return k2
    return None


def ref_merge(dicts):
    """last-writer-wins nested merge, spelling-insensitive (first spelling kept)"""
    out: dict = {}

    def upd(old, new):
        for k, v in new.items():
            k2 = ref_find(old, k) or k
            if isinstance(v, dict):
                if not isinstance(old.get(k2), dict):
                    old[k2] = {}
                upd(old[k2], v)
            else:
                old[k2] = v

    for d in dicts:
        upd(out, d)
    return out


def ref_get(t, path):
    """(found, value) by normalised path"""
    for k in path:
        if not isinstance(t, dict):
            return False, None
        k2 = ref_find(t, k)
        if k2 is None:
            return False, None
        t = t[k2]
    return True, t


def device_is_cpu_request(v) -> bool:
    """the well-formed requests a host without CUDA/MPS can serve: None (the default device),
    "cpu" in any case, "cpu:<index>" (what str(torch.device("cpu", i)) prints)"""
    if v is None:
        return True
    if isinstance(v, str):
        return v.lower() == "cpu" or (v.startswith("cpu:") and v[4:].isdigit() and v.isascii())
    return False


def device_must_be_rejected(v) -> bool:
    """requests that are malformed ("xcpu", "tpu", "", a mapping, ...) or unavailable on a host
    without CUDA/MPS (cuda*, gpu, mps, device indices)"""
    return not device_is_cpu_request(v)


def set_item_paths(o):
    """[(key string, path tuple, value)] of a set/with op, in application order"""
    out = []
    arg = o[1]
    if isinstance(arg, dict) and set(arg) != {"__bad__"}:
        for k, v in arg.items():
            out.append((k, tuple(k.split(".")), v))
    for k, v in o[2]:
        k2 = k.replace("__", ".")
        out.append((k2, tuple(k2.split(".")), v))
    return out


def op_in_domain(o) -> bool:
    """pure spellings, well-formed mapping values, no dotted keys inside mappings"""
    def nested_device(v, depth=0):
        # update validates a key named "device" at EVERY nesting level, set only the whole key
        # string: nested "device" keys are outside the claim (the theorems exclude them: nodev)
        return isinstance(v, dict) and any((k == "device" and depth > 0) or nested_device(x, depth + 1) for k, x in v.items())

    def val_ok(v, top=False):
        return tree_wf(v) and not any("." in k for p, _ in leaf_paths(v) for k in p) \
            and not nested_device(v, 0 if top else 1)
    if o[0] == "raise":
        return True
    if o[0] in ("set", "with", "withx"):
        arg = o[1]
        if isinstance(arg, dict) and set(arg) == {"__bad__"}:
            return False
        items = set_item_paths(o)
        ok = all(all(is_pure(c) for c in p) and val_ok(v) for _, p, v in items)
        if o[0] != "set":
            ok = ok and all(op_in_domain(b) for b in o[3])
        return ok
    if o[0] == "upd":
        return val_ok(o[1], top=True)
    if o[0] == "refresh":
        return all(val_ok(y, top=True) for y in o[1])
    return False


def expected_device(v):
    return "cpu"  # the only device this host validates


class _BodyError(Exception):
    pass


class Oracle:
    """steps an implementation through ops and evaluates the property clauses"""

    def __init__(self, init_conf=None, init_dflts=None, use_globals=False, impl=None):
        self.im = impl or Impl(use_globals, init_conf, init_dflts)
        self.findings = []
        self.in_domain = True

    def fail(self, key, what):
        self.findings.append((key, what))

    # -- clause checks -------------------------------------------------------------------
    def check_tree_invariants(self, tree, where):
        if self.in_domain:
            def walk(t, pre):
                if isinstance(t, dict):
                    seen = {}
                    for k in t:
                        if norm(k) in seen:
                            self.fail("both-spellings-stored",
                                      "%s: dict at %s holds both %r and %r" % (where, ".".join(pre) or "<root>", seen[norm(k)], k))
                        seen[norm(k)] = k
                        walk(t[k], pre + (k,))
            walk(tree, ())
        dev = tree.get("device", None) if isinstance(tree, dict) else None
        if "device" in tree and not isinstance(dev, dict) and dev != "cpu":
            self.fail("stored-device-invalid", "%s: stored device is %r on a host that only has cpu" % (where, dev))

    def check_set(self, o, before, after, out):
        items = set_item_paths(o)
        # device requests
        for key, p, v in items:
            if key == "device" and device_must_be_rejected(v):
                if out is None:
                    self.fail("device-accepted", "set(device=%r) did not raise; stored device %r" % (v, after.get("device")))
                elif len([1 for _, p2, _ in items if p2[0] == "device"]) == 1 and after.get("device") != before.get("device"):
                    self.fail("device-rejected-but-changed", "set(device=%r) raised %s but the stored device changed %r -> %r"
                              % (v, out, before.get("device"), after.get("device")))
        if not self.in_domain:
            return
        npaths = [npath(p) for _, p, _ in items]
        if out is None:
            for i, (key, p, v) in enumerate(items):
                if any(comparable(npaths[i], q) for q in npaths[i + 1:]):
                    continue
                want = expected_device(v) if key == "device" else v
                for spelled in (key, respell_key(key, lambda: True)):
                    got = self.im.get(spelled)
                    if got != ("ok", sort_tree(want)):
                        self.fail("get-after-set", "after set(%r = %r), get(%r) gives %r" % (key, v, spelled, got))
        # siblings: every leaf that existed and diverges from every written path survives
        self.check_siblings(before, after, npaths, "set %r" % ([k for k, _, _ in items],))

    def check_siblings(self, before, after, written_npaths, where):
        for p, x in leaf_paths(before):
            if not p:
                continue
            if any(comparable(npath(p), q) for q in written_npaths):
                continue
            found, y = ref_get(after, p)
            if not found or y != x:
                self.fail("sibling-dropped", "%s: %s was %r before, now %s" % (where, ".".join(p), x, repr(y) if found else "missing"))

    def check_upd(self, o, before, after, out, dflts_before):
        new = o[1]
        if "device" in new and device_must_be_rejected(new["device"]):
            if out is None:
                self.fail("device-accepted", "update_defaults(device=%r) did not raise" % (new["device"],))
            elif after != before or len(self.im.defaults) != len(dflts_before):
                self.fail("device-rejected-but-changed", "update_defaults(device=%r) raised but the store changed" % (new["device"],))
        if not self.in_domain or out is not None:
            return
        cur = ref_merge(dflts_before)
        written = []
        for p, x in leaf_paths(new):
            if p:
                written.append(npath(p))
            if not p or (isinstance(x, dict)) or (p[0] == "device" and len(p) > 1):
                continue
            had, b = ref_get(before, p)
            dhad, dv = ref_get(cur, p)
            shape_ok = all(not ref_get(before, p[:i])[0] or isinstance(ref_get(before, p[:i])[1], dict)
                           for i in range(1, len(p))) and not isinstance(b, dict) and not isinstance(dv, dict)
            if not shape_ok:
                continue
            xw = expected_device(x) if p == ("device",) else x
            follows = (not had) or (dhad and type(dv) is type(b) and dv == b)
            if (dhad and dv == b) != (dhad and type(dv) is type(b) and dv == b):
                continue  # True == 1 coincidences: Python equality decides, not claimed here
            want = xw if follows else b
            found, got = ref_get(after, p)
            if not found or got != want or type(got) is not type(want):
                self.fail("update-defaults-rule",
                          "update_defaults(%r): %s was %s, current default %s; expected %r afterwards, got %s"
                          % (new, ".".join(p), repr(b) if had else "absent", repr(dv) if dhad else "absent", want,
                             repr(got) if found else "missing"))
        self.check_siblings(before, after, written, "update_defaults %r" % (new,))

    def check_refresh(self, o, after, out):
        if out is not None or not self.in_domain:
            return
        want = ref_merge([d for d in self.im.dflts_snapshot()] + list(o[1]))
        if "device" in want and not isinstance(want["device"], dict):
            want["device"] = "cpu"
        if norm_tree(want) != norm_tree(after):
            self.fail("refresh-not-defaults", "refresh gives %r, the accumulated defaults merge to %r" % (after, sort_tree(want)))

    def check_with_keys_restored(self, o, before, after):
        """round 3 (C19_with_block_restores_key): a key written by the block's own arguments reads
        after the block what it read before it (absent stays absent), when the body only wrote other
        keys and __exit__ did not raise"""
        if not self.in_domain:
            return
        body_paths = []
        for b in o[3]:
            if b[0] == "raise":
                continue
            if b[0] == "refresh":
                return
            if b[0] == "set":
                body_paths += [npath(p) for _, p, _ in set_item_paths(b)]
            elif b[0] == "upd":
                body_paths += [npath(p) for p, _ in leaf_paths(b[1]) if p]
        for key, p, v in set_item_paths(o):
            if any(comparable(npath(p), q) for q in body_paths):
                continue
            had, x = ref_get(before, p)
            has, y = ref_get(after, p)
            if had != has or (had and x != y):
                self.fail("context-manager-key-not-restored",
                          "with set(%r = %r) and a body writing other keys %r: %s was %s before the block, %s after it"
                          % (key, v, o[3], key, repr(x) if had else "absent", repr(y) if has else "absent"))
                return

    # -- stepping ------------------------------------------------------------------------
    def sop(self, o, where):
        before = self.im.snapshot()
        dflts_before = self.im.dflts_snapshot()
        out = self.im.sop(o)
        after = self.im.snapshot()
        if o[0] == "raise":
            return out
        if o[0] == "set":
            self.check_set(o, before, after, out)
        elif o[0] == "upd":
            self.check_upd(o, before, after, out, dflts_before)
        elif o[0] == "refresh":
            self.check_refresh(o, after, out)
        self.check_tree_invariants(after, where)
        return out

    def op(self, o, idx):
        if not op_in_domain(o):
            self.in_domain = False
        if o[0] not in ("with", "withx"):
            return self.sop(o, "op %d" % idx)
        before = self.im.snapshot()
        try:
            cm = self.im.make_set(o[1], o[2])
        except Exception:  # noqa
            self.check_tree_invariants(self.im.snapshot(), "op %d (set raised)" % idx)
            return "raised"
        entered = False
        try:
            with cm:
                entered = True
                mid = self.im.snapshot()
                self.check_set(o, before, mid, None)
                for b in o[3]:
                    bo = self.sop(b, "op %d body" % idx)
                    if bo is not None and o[0] == "withx":
                        raise _BodyError()
        except _BodyError:
            pass
        except Exception as e:  # noqa
            if not entered:
                self.fail("context-manager-no-restore",
                          "`with config.set(%s)` raises %s: %s; values stay set: %r (before: %r)"
                          % (", ".join("%s=%r" % (k, v) for k, _, v in set_item_paths(o)), type(e).__name__, e,
                             self.im.snapshot(), before))
                return "noctx"
            if not [b for b in o[3] if b[0] != "raise"]:
                self.fail("context-manager-exit-raises", "__exit__ raised %s: %s" % (type(e).__name__, e))
            return "exit-raised"
        after = self.im.snapshot()
        self.check_with_keys_restored(o, before, after)
        if not [b for b in o[3] if b[0] != "raise"] and after != before:
            self.fail("context-manager-no-restore",
                      "after `with config.set(%s): pass` the store is %r, before it was %r"
                      % (", ".join("%s=%r" % (k, v) for k, _, v in set_item_paths(o)), after, before))
        self.check_tree_invariants(after, "op %d (after exit)" % idx)
        return None

    def run(self, ops):
        for i, o in enumerate(ops):
            self.op(o, i)
        return self.findings


def oracle_findings(ops, init_conf=None, init_dflts=None):
    return Oracle(init_conf, init_dflts).run(ops)


# ------------------------------------------------------------------------------ respelling (metamorphic)
def respell_ops(ops, rng):
    """the same history with every key component independently respelled"""
    flip = lambda: rng.random() < 0.5  # noqa

    def rkey(k, kwform=False):
        if kwform:
            return "__".join(other_spelling(c) if (flip() and "__" not in other_spelling(c)) else c for c in k.split("__"))
        return respell_key(k, flip)

    def remap(d, fk):
        """respell the keys of one mapping; a key whose new spelling would collide with another key of the
        SAME mapping (both spellings present: two entries, applied in order, of which a later one may never be
        reached when an earlier entry raises) keeps its spelling - collapsing them would change the history"""
        out = {}
        for k, x in d.items():
            nk = fk(k)
            if nk != k and (nk in d or nk in out):
                nk = k
            out[nk] = rval(x)
        return out

    def rval(v):
        if isinstance(v, dict):
            return remap(v, lambda k: other_spelling(k) if flip() else k)
        return v

    def rop(o):
        if o[0] == "raise":
            return ["raise"]
        if o[0] in ("set", "with", "withx"):
            arg = o[1]
            if isinstance(arg, dict) and set(arg) != {"__bad__"}:
                arg = remap(arg, rkey)
            kw, seen = [], set(k for k, _ in o[2])
            for k, v in o[2]:
                nk = rkey(k, True)
                if nk != k and nk in seen:
                    nk = k
                seen.add(nk)
                kw.append([nk, rval(v)])
            if o[0] != "set":
                return [o[0], arg, kw, [rop(b) for b in o[3]]]
            return ["set", arg, kw]
        if o[0] == "upd":
            return ["upd", rval(o[1])]
        if o[0] == "refresh":
            return ["refresh", [rval(y) for y in o[1]]]
        raise ValueError(o)

    return [rop(o) for o in ops]


def respelling_findings(ops, ops2):
    """'-' and '_' spellings are one entry: a history and its respelling give the same
    store up to spelling after every op"""
    a, b = Impl(), Impl()
    for i, (o, o2) in enumerate(zip(ops, ops2)):
        ra = [x["out"] for x in a.op(o, lambda out: {"out": out})]
        rb = [x["out"] for x in b.op(o2, lambda out: {"out": out})]
        if ra and str(ra[0]).startswith("NoContextManager"):
            return []  # reported by the context-manager clause
        ta, tb = norm_tree(a.snapshot()), norm_tree(b.snapshot())
        if ta != tb or ra != rb:
            return [("spelling-sensitive-history",
                     "op %d: %r vs its respelling %r: stores differ up to spelling: %r vs %r (outcomes %r vs %r)"
                     % (i, o, o2, ta, tb, ra, rb))]
    return []


# ------------------------------------------------------------------------------ round 3: statement trees
class _Raise(Exception):
    pass


def clean_shape(t) -> bool:
    """only with-blocks (nested to any depth, entered once or twice) and raise statements"""
    if t[0] == "raise":
        return True
    if t[0] == "block":
        return all(clean_shape(b) for b in t[4])
    if t[0] == "reuse":
        return all(clean_shape(b) for b in t[3] + t[4])
    return False


def stmt_in_domain(t) -> bool:
    if t[0] == "block":
        return op_in_domain(["set", t[2], t[3]]) and all(stmt_in_domain(b) for b in t[4])
    if t[0] == "reuse":
        return op_in_domain(["set", t[1], t[2]]) and all(stmt_in_domain(b) for b in t[3] + t[4])
    return op_in_domain(t)


def _run_tree(orc, t, st, where):
    im = orc.im
    if t[0] == "raise":
        raise _Raise()
    if t[0] not in ("block", "reuse"):
        out = orc.sop(t, where)        # the clauses of plain statements apply inside blocks too
        if out is not None:
            raise _Raise()
        return
    arg, kw = (t[2], t[3]) if t[0] == "block" else (t[1], t[2])
    before = im.snapshot()
    try:
        cm = im.make_set(arg, kw)
    except Exception:  # noqa
        st["enter_failed"] = True
        raise
    bodies = [(t[1], t[4])] if t[0] == "block" else [(False, t[3]), (False, t[4])]
    for n, (x, body) in enumerate(bodies):
        body_exc = None
        try:
            with cm:
                if n == 0:
                    orc.check_set(["set", arg, kw], before, im.snapshot(), None)
                try:
                    for b in body:
                        if x:
                            _run_tree(orc, b, st, where)
                        else:
                            try:
                                _run_tree(orc, b, st, where)
                            except Exception:  # noqa
                                pass
                except Exception as e:  # noqa
                    body_exc = e
                    raise
        except Exception as e:  # noqa
            if e is not body_exc:
                st["exit_raised"] = "%s: %s" % (type(e).__name__, e)
            raise


def nest_findings(ops, init_conf=None, init_dflts=None, impl=None):
    """statement trees: the clauses of the plain statements inside, the set clauses at every enter,
    and for trees made of with-blocks and raise statements only (every __init__ succeeding):
    __exit__ does not raise and the store comes back exactly, at every nesting depth"""
    orc = Oracle(init_conf, init_dflts, impl=impl)
    im = orc.im
    for i, t in enumerate(ops):
        if t[0] not in ("block", "reuse"):
            if not op_in_domain(t):
                orc.in_domain = False
            orc.sop(t, "op %d" % i)
            continue
        if not stmt_in_domain(t):
            orc.in_domain = False
        before = im.snapshot()
        st = {"enter_failed": False, "exit_raised": None}
        try:
            _run_tree(orc, t, st, "op %d (inside)" % i)
        except Exception:  # noqa
            pass
        after = im.snapshot()
        if clean_shape(t) and not st["enter_failed"] and orc.in_domain:
            if st["exit_raised"]:
                orc.fail("context-manager-exit-raises", "op %d %r: __exit__ raised %s" % (i, t, st["exit_raised"]))
            elif after != before:
                orc.fail("nested-context-manager-no-restore",
                         "op %d %r: after the outermost block the store is %r, before it was %r" % (i, t, after, before))
        orc.check_tree_invariants(after, "op %d (after the tree)" % i)
    return orc.findings
