"""translate_C18.py — fail-closed translator tie for the centre-of-mass code that coq/model/C18_Model.v
transcribes by hand.  On every run of ./check C18 the CURRENT source of

  origin_models.py   CenterOfMassOriginModel.calculate_origin, .shift_origin_to, .fit_origin_background, __init__ (num_dps)
  dataset_models.py  PtychographyDatasetRaster._set_intensities_com   (vectorised and looped path, both mask cases)
  ptycho_utils.py    SimpleBatcher.__iter__, fit_origin, _plane, _parabola, _bezier_two

is read with `ast`, executed SYMBOLICALLY (straight-line code with statically decided `if`s; one symbolic
iteration of every `for` with its loop-carried arrays as fold state; every local inlined, so names, the order of
independent statements and temporaries do not matter) and printed as Gallina definitions `gen_*` over the model's
Q tensors into build/C18/Gen_C18.v.  The FIXED scripts coq/gen_proofs/C18_GenProofs.v / C18_GenProperties.v then
prove, for all arguments, gen_* = the hand-written model definition.  Any construct outside the grammar raises
Reject -> the tie is reported broken.  Library calls get the fixed meanings of coq/lib/C18_GenLib.v (TRUSTED)."""
from __future__ import annotations

import ast
import hashlib
import re
import time
from pathlib import Path

from .common import COQ, COQ_FLAGS, SRC, Ctx, sh

GEN_DIR = COQ / "gen_proofs"
OM = "diffractive_imaging/origin_models.py"
DM = "diffractive_imaging/dataset_models.py"
PU = "diffractive_imaging/ptycho_utils.py"

TRUSTED = [
    "harness/translate_C18.py (Python ast -> Gallina by symbolic execution; fail-closed grammar) and the fixed meanings in "
    "coq/lib/C18_GenLib.v: np/torch.arange(n) = [0..n-1]; meshgrid(a, b, indexing='ij') = (a[i], b[j]) on a len(a) x len(b) "
    "grid; x[None] / .view / .astype / .float / np.asarray(dtype) / .to / .cpu = the same exact values; elementwise * / - + with "
    "trailing-axis broadcasting (operands of a commutative product ordered data, mask, grid: mul2_comm); sum over the "
    "last two axes = sum2; tensor.view((-1, H, W)) = the patterns in C order; t[batch_idx] = gather; "
    "a[batch_idx, k] = v = scatter into column k; torch.empty = unwritten cells; np.zeros + a[r, c] = v = upd2; "
    "tqdmnd(range(a), range(b)) = row-major product; SimpleBatcher(n, batch_size=b, shuffle=False) iterates the result of "
    "its own __iter__ (translated: range(0, n, b) / slices, proved = chunks b (arange n)) with train_indices = arange(n) "
    "(C09 glue tie); num_dps = number of patterns; torch float `%` = remainder with the sign of the divisor (qmod); "
    "python max on ints = Z.max; F.grid_sample(bilinear, zeros, align_corners=True) = C18_Model.bilinear at "
    "((g+1)/2*(size-1)) with grid[..., 0] = x (width), grid[..., 1] = y; points.mean(0) = centroid; torch.cov(X.T) = "
    "unbiased covariance cov3; torch.linalg.eigh(M)[1][:, 0] = the oracle normal of eigh_min_contract; "
    "positions @ [u, v] = x*u + y*v; np.mean = mean of all entries; np.ones_like = ones; np.indices(shape) = (row index, "
    "column index); np.vstack((a, b)) = rows (a, b); x ** 2 = x * x",
]


class Reject(Exception):
    pass


def _rej(node, why):
    raise Reject("%s at line %s: %s" % (why, getattr(node, "lineno", "?"), ast.unparse(node)[:140] if node is not None else ""))


# ------------------------------------------------------------------------------------------ values
class V:
    """kind: int (code = Z term, nat = nat term or None) | q | ten (axes = labels, code, prov, fresh) | cols (N x 2 array as
    two columns of option Q) | idx | none | str | bool | tuple | opaque | pw (pointwise: comps = per-component Q codes)"""

    def __init__(self, kind, code=None, **kw):
        self.kind, self.code = kind, code
        self.__dict__.update(kw)

    def __repr__(self):
        return "V(%s, %s)" % (self.kind, self.code if not isinstance(self.code, (list, tuple)) else "[...]")


def Int(code, nat=None, label=None, const=None):
    return V("int", code, nat=nat, label=label, const=const)


def NatSym(name):
    return Int("(Z.of_nat %s)" % name, nat=name, label=name)


def Ten(axes, code, prov=0, fresh=True):
    return V("ten", code, axes=tuple(axes), prov=prov, fresh=fresh)


QOPS = {ast.Add: "+", ast.Sub: "-", ast.Mult: "*", ast.Div: "/"}


def nest(depth, fn, code):
    """map^depth fn code"""
    if depth == 0:
        return "(%s %s)" % (fn, code)
    f = fn
    for _ in range(depth - 1):
        f = "(map %s)" % f
    return "(map %s %s)" % (f, code)


def zipn(depth, op, a, b):
    if depth == 0:
        return "(%s %s %s)%%Q" % (a, op, b)
    if op == "*" and depth == 2:
        return "(mul2 %s %s)" % (a, b)
    f = {"+": "Qplus", "-": "Qminus", "*": "Qmult", "/": "Qdiv"}[op]
    for _ in range(depth):
        f = "(map2 %s)" % f
    return "(%s %s %s)" % (f, a, b)


# ------------------------------------------------------------------------------------------ interpreter
class Interp:
    def __init__(self, env, mode="wt"):
        self.env = dict(env)
        self.mode = mode
        self.out = {}            # self.<attr> stores
        self.ret = None
        self.mods = []           # pointwise mode: operands of `%`
        self.lets = []           # loops: (name, fold term), bound once around the result
        self.fresh_n = 0

    # ---------------------------------------------------------------- helpers
    @staticmethod
    def key(n):
        if isinstance(n, ast.Name):
            return n.id
        if isinstance(n, ast.Attribute):
            k = Interp.key(n.value)
            return None if k is None else k + "." + n.attr
        return None

    def toq(self, v, node=None):
        if v.kind == "q":
            return v.code
        if v.kind == "int":
            if v.const is not None:
                return "(%d # 1)%%Q" % v.const
            return "(inject_Z %s)" % v.code
        _rej(node, "scalar expected, got %s" % v.kind)

    def static_int(self, n):
        if isinstance(n, ast.Constant) and isinstance(n.value, int) and not isinstance(n.value, bool):
            return n.value
        if isinstance(n, ast.UnaryOp) and isinstance(n.op, ast.USub) and isinstance(n.operand, ast.Constant):
            return -n.operand.value
        return None

    def axes_arg(self, call, names=("dim", "axis")):
        a = None
        if len(call.args) >= 2:
            a = call.args[1]
        for k in call.keywords:
            if k.arg in names:
                a = k.value
        if a is None:
            return None
        if isinstance(a, ast.Tuple):
            return tuple(self.static_int(e) for e in a.elts)
        return (self.static_int(a),)

    # ---------------------------------------------------------------- elementwise
    def ew(self, node, opn, a, b):
        op = QOPS.get(type(opn))
        if a.kind == "pw" or b.kind == "pw":
            return self.pw_ew(node, opn, a, b)
        if a.kind == "int" and b.kind == "int":
            if op in ("+", "-", "*"):
                return Int("(%s %s %s)%%Z" % (a.code, op, b.code))
            _rej(node, "integer operator")
        if op is None:
            _rej(node, "operator")
        if a.kind in ("q", "int") and b.kind in ("q", "int"):
            return V("q", "(%s %s %s)%%Q" % (self.toq(a), op, self.toq(b)))
        if a.kind in ("q", "int") and b.kind == "ten":        # scalar with tensor: scalar stays where it is written,
            d = len(b.axes)                                    # except for a product (scalar first)
            return Ten(b.axes, nest(d, "(fun t_ => (%s %s t_)%%Q)" % (self.toq(a), op), b.code), b.prov)
        if a.kind == "ten" and b.kind in ("q", "int"):
            d = len(a.axes)
            body = "(%s * t_)%%Q" % self.toq(b) if op == "*" else "(t_ %s %s)%%Q" % (op, self.toq(b))
            return Ten(a.axes, nest(d, "(fun t_ => %s)" % body, a.code), a.prov)
        if a.kind == "ten" and a.axes == ("P", "3") and b.kind == "p3" and op == "-":
            return V("ten", "(map (fun p_ => sub3 p_ %s) %s)" % (b.code, a.code), axes=("P", "3"), prov=0, fresh=True)
        if a.kind != "ten" or b.kind != "ten":
            _rej(node, "operands %s, %s" % (a.kind, b.kind))
        comm = op in ("*", "+")
        flip = len(b.axes) > len(a.axes) or (comm and len(a.axes) == len(b.axes) and b.prov < a.prov)
        big, small = (b, a) if flip else (a, b)
        d = len(small.axes)
        lead = len(big.axes) - d
        if tuple(big.axes[lead:]) != tuple(small.axes):
            _rej(node, "shapes %s and %s do not broadcast on the trailing axes" % (a.axes, b.axes))
        inner = (lambda x, y: zipn(d, op, x, y)) if (comm or not flip) else (lambda x, y: zipn(d, op, y, x))
        prov = min(a.prov, b.prov)
        if lead == 0:
            return Ten(big.axes, inner(big.code, small.code), prov)
        return Ten(big.axes, nest(lead, "(fun t_ => %s)" % inner("t_", small.code), big.code), prov)

    def sum_last2(self, node, x):
        if x.kind != "ten" or len(x.axes) < 2 or tuple(x.axes[-2:]) != ("H", "W"):
            _rej(node, "sum over the detector axes of a non-detector tensor")
        lead = len(x.axes) - 2
        return Ten(x.axes[:-2], nest(lead, "sum2", x.code), x.prov) if lead else V("q", "(sum2 %s)" % x.code)

    # ---------------------------------------------------------------- pointwise (shift_origin_to)
    def pw(self, comps, batch=False, spatial=False):
        return V("pw", None, comps=list(comps), batch=batch, spatial=spatial)

    def pw_ew(self, node, opn, a, b):
        def lift(v):
            if v.kind == "pw":
                return v
            return self.pw([self.toq(v, node)])
        a, b = lift(a), lift(b)
        n = max(len(a.comps), len(b.comps))
        if len(a.comps) not in (1, n) or len(b.comps) not in (1, n):
            _rej(node, "component broadcast")
        ca = a.comps * (n // len(a.comps))
        cb = b.comps * (n // len(b.comps))
        if isinstance(opn, ast.Mod):
            if self.mods:
                _rej(node, "second `%` in shift_origin_to")
            self.mods = list(zip(ca, cb))
            return self.pw(["s%d_" % k for k in range(n)], a.batch or b.batch, a.spatial or b.spatial)
        op = QOPS.get(type(opn))
        if op is None:
            _rej(node, "operator")
        return self.pw(["(%s %s %s)%%Q" % (x, op, y) for x, y in zip(ca, cb)], a.batch or b.batch, a.spatial or b.spatial)

    # ---------------------------------------------------------------- expressions
    def expr(self, e):
        k = self.key(e)
        if k is not None and k in self.env:
            return self.env[k]
        if isinstance(e, ast.Constant):
            if e.value is None:
                return V("none")
            if isinstance(e.value, bool):
                return V("bool", e.value)
            if isinstance(e.value, str):
                return V("str", e.value)
            if isinstance(e.value, int):
                return Int("(%d)%%Z" % e.value, nat=("%d%%nat" % e.value if e.value >= 0 else None), const=e.value)
            _rej(e, "constant")
        if isinstance(e, ast.Tuple) or isinstance(e, ast.List):
            return V("tuple", [self.expr(x) for x in e.elts])
        if isinstance(e, ast.UnaryOp) and isinstance(e.op, ast.USub):
            v = self.expr(e.operand)
            if v.kind == "int":
                return Int("(- %s)%%Z" % v.code, const=(-v.const if v.const is not None else None))
            if v.kind == "q":
                return V("q", "(- %s)%%Q" % v.code)
            _rej(e, "negation")
        if isinstance(e, ast.UnaryOp) and isinstance(e.op, ast.Not):
            v = self.expr(e.operand)
            if v.kind == "bool":
                return V("bool", not v.code)
            _rej(e, "not")
        if isinstance(e, ast.BinOp):
            if isinstance(e.op, ast.Pow):
                a = self.expr(e.left)
                if self.static_int(e.right) == 2 and a.kind == "q":
                    return V("q", "(%s * %s)%%Q" % (a.code, a.code))
                _rej(e, "power")
            if isinstance(e.op, ast.MatMult):
                a, b = self.expr(e.left), self.expr(e.right)
                if a.kind == "pos" and b.kind == "vec2":
                    return V("q", "(row_matvec2 x_ y_ %s %s)" % tuple(b.code))
                _rej(e, "matrix product")
            return self.ew(e, e.op, self.expr(e.left), self.expr(e.right))
        if isinstance(e, ast.Compare) and len(e.ops) == 1:
            a, b = self.expr(e.left), self.expr(e.comparators[0])
            op = e.ops[0]
            if isinstance(op, (ast.Is, ast.IsNot)) and b.kind == "none":
                if a.kind == "maybe":
                    _rej(e, "None test on a value that is not statically known")
                return V("bool", (a.kind == "none") == isinstance(op, ast.Is))
            if isinstance(op, (ast.Eq, ast.NotEq)) and a.kind == "str" and b.kind == "str":
                return V("bool", (a.code == b.code) == isinstance(op, ast.Eq))
            if isinstance(op, (ast.Eq, ast.NotEq)) and a.kind == "shape" and b.kind == "shape":
                same = [x.label for x in a.code] == [x.label for x in b.code] and None not in [x.label for x in a.code]
                if not same:
                    _rej(e, "shape comparison that is not statically true")
                return V("bool", isinstance(op, ast.Eq))
            _rej(e, "comparison")
        if isinstance(e, ast.Attribute):
            v = self.expr(e.value)
            if e.attr == "shape" and v.kind == "ten":
                return V("shape", [NatSym({"B": "Bn_", "N": "Nn_", "R": "Rn", "C": "Cn"}.get(a, a)) for a in v.axes])
            if e.attr == "shape" and v.kind == "opaque":
                return V("opaque", v.code + ".shape")
            if e.attr == "T" and v.kind == "ten" and v.axes == ("P", "3"):
                return V("ten", v.code, axes=("3", "P"), prov=v.prov, fresh=False)
            _rej(e, "attribute")
        if isinstance(e, ast.Subscript):
            return self.subscript(e)
        if isinstance(e, ast.Call):
            return self.call(e)
        if isinstance(e, ast.Name):
            _rej(e, "unknown name")
        _rej(e, "expression")

    def subscript(self, e):
        v = self.expr(e.value)
        sl = e.slice
        elts = list(sl.elts) if isinstance(sl, ast.Tuple) else [sl]
        if v.kind == "shape":
            if isinstance(sl, ast.Slice) and sl.step is None:
                lo = self.static_int(sl.lower) if sl.lower is not None else None
                hi = self.static_int(sl.upper) if sl.upper is not None else None
                if (sl.lower is not None and lo is None) or (sl.upper is not None and hi is None):
                    _rej(e, "shape slice")
                return V("shape", v.code[slice(lo, hi)])
            i = self.static_int(sl)
            if i is None or not -len(v.code) <= i < len(v.code):
                _rej(e, "shape index")
            return v.code[i]
        if v.kind == "tuple":
            i = self.static_int(sl)
            if i is None:
                _rej(e, "tuple index")
            return v.code[i]
        is_none = lambda n: isinstance(n, ast.Constant) and n.value is None           # noqa
        is_full = lambda n: isinstance(n, ast.Slice) and n.lower is None and n.upper is None and n.step is None  # noqa
        is_ell = lambda n: isinstance(n, ast.Constant) and n.value is Ellipsis          # noqa
        if v.kind == "pw":
            if all(is_none(x) or is_full(x) or is_ell(x) for x in elts):
                return v
            if len(elts) == 1 and self.key(elts[0]) in self.env and self.env[self.key(elts[0])].kind == "idx" and v.batch:
                return v
            if len(elts) == 2 and is_ell(elts[0]) and self.static_int(elts[1]) in range(len(v.comps)) and len(v.comps) == 2:
                return self.pw([v.comps[self.static_int(elts[1])]], v.batch, v.spatial)
            _rej(e, "subscript of a pointwise tensor")
        if v.kind == "opaque" and v.code == "pats4" and len(elts) == 1 and self.expr(elts[0]).kind == "idx":
            return V("opaque", "pat")
        if v.kind == "cols" and len(elts) == 3 and is_full(elts[0]) and self.static_int(elts[1]) in (0, 1) and is_none(elts[2]):
            return V("col", self.static_int(elts[1]), of=v)               # origin_measured[:, k, None]
        if v.kind == "eigvecs" and len(elts) == 2 and is_full(elts[0]) and self.static_int(elts[1]) is not None:
            self.out["eig_col"] = self.static_int(elts[1])
            return V("normal", "nrm%d_" % getattr(self, "zcol", 0))
        if v.kind != "ten":
            _rej(e, "subscript of %s" % v.kind)
        if all(is_none(x) or is_full(x) for x in elts):                     # x[None, :, :] / x[None, None]: broadcast markers
            if sum(is_full(x) for x in elts) not in (0, len(v.axes)):
                _rej(e, "partial slice")
            return v
        vals = [self.expr(x) for x in elts]
        if len(vals) == 1 and vals[0].kind == "idx" and v.axes[0] == "N":    # tensor_3d[batch_idx]
            return Ten(("B",) + v.axes[1:], "(gather [] %s %s)" % (v.code, vals[0].code), v.prov, fresh=True)
        if len(vals) == 2 and all(x.kind == "int" and x.nat for x in vals) and v.axes[:2] == ("R", "C") and len(v.axes) == 4:
            return Ten(v.axes[2:], "(nth %s (nth %s %s []) [])" % (vals[1].nat, vals[0].nat, v.code), v.prov, fresh=False)
        _rej(e, "subscript")

    FLOAT_DTYPES = ("torch.float", "torch.float32", "torch.float64", "config.get('dtype_real')", "np.float32", "np.float64", "float")

    def kw(self, call):
        kws = {k.arg: k.value for k in call.keywords}
        if "dtype" in kws and ast.unparse(kws["dtype"]) not in self.FLOAT_DTYPES:
            _rej(call, "dtype that is not a floating-point type")
        return kws

    def call(self, e):
        f = ast.unparse(e.func)
        args, kws = e.args, self.kw(e)
        # ---- methods on values
        if isinstance(e.func, ast.Attribute) and self.key(e.func.value) not in ("np", "torch", "F", "config", "math", "torch.linalg"):
            recv = self.expr(e.func.value)
            m = e.func.attr
            if m == "astype" and (len(args) != 1 or kws or ast.unparse(args[0]) not in self.FLOAT_DTYPES):
                _rej(e, "astype to something that is not a floating-point type")
            if m in ("astype", "float", "to", "cpu", "detach") and recv.kind in ("ten", "pw", "opaque", "eigvecs", "m3"):
                return recv if recv.kind != "ten" else Ten(recv.axes, recv.code, recv.prov, fresh=True)
            if m == "sum" and not args and not kws and recv.kind == "ten" and recv.axes == ("H", "W"):
                return V("q", "(sum2 %s)" % recv.code)
            if m == "view":
                dims = args[0].elts if len(args) == 1 and isinstance(args[0], ast.Tuple) else args
                if recv.kind == "opaque" and recv.code == "tensor":
                    labs = [self.static_int(d) if self.static_int(d) is not None else getattr(self.expr(d), "label", "?") for d in dims]
                    if labs == [-1, "H", "W"]:
                        return Ten(("N", "H", "W"), "pats", 0, fresh=False)
                    if labs == [-1, 1, "H", "W"]:
                        return V("opaque", "pats4")
                    _rej(e, "view of the data tensor with dims %s" % labs)
                if recv.kind == "pw" and [self.static_int(d) for d in dims] == [-1, 1, 1, 2] and len(recv.comps) == 2 and recv.batch:
                    return recv
                if recv.kind == "opaque" and recv.code == "outbuf" and ast.unparse(dims[0]) == "self.tensor.shape":
                    return recv
                _rej(e, "view")
            if m == "mean" and [self.static_int(a) for a in args] == [0] and not kws:
                if recv.kind == "cols":
                    return V("pairq", ["(mean %s)" % c for c in recv.code])
                if recv.kind == "ten" and recv.axes == ("P", "3"):
                    return V("p3", "(centroid %s)" % recv.code)
            _rej(e, "method call")
        # ---- library functions
        if f in ("np.arange", "torch.arange") and len(args) == 1 and set(kws) <= {"dtype", "device"}:
            n = self.expr(args[0])
            if n.kind != "int" or not n.nat or not n.label:
                _rej(e, "arange of something that is not a shape entry")
            return V("ar", "(arange %s)" % n.nat, label=n.label)
        if f in ("np.meshgrid", "torch.meshgrid") and len(args) == 2 and set(kws) <= {"indexing"}:
            a, b = self.expr(args[0]), self.expr(args[1])
            if a.kind != "ar" or b.kind != "ar":
                _rej(e, "meshgrid of non-arange vectors")
            ix = self.expr(kws["indexing"]).code if "indexing" in kws else ("xy" if f.startswith("np.") else "ij")
            if ix == "ij":
                ax, fn = (a.label, b.label), "meshgrid_ij"
            elif ix == "xy":
                ax, fn = (b.label, a.label), "meshgrid_xy"
            else:
                _rej(e, "indexing")
            if self.mode == "pw":
                if ix != "ij" or ax != ("H", "W"):
                    _rej(e, "base grid is not the (H, W) 'ij' grid")
                return V("tuple", [self.pw(["(Qn y_)"], spatial=True), self.pw(["(Qn x_)"], spatial=True)])
            return V("tuple", [Ten(ax, "(%s (%s %s %s))" % (p, fn, a.code, b.code), prov=2, fresh=False) for p in ("fst", "snd")])
        if f in ("np.sum", "torch.sum") and len(args) >= 1:
            x = self.expr(args[0])
            axes = self.axes_arg(e)
            if axes is None and x.kind == "ten" and x.axes == ("H", "W") and not kws:
                return V("q", "(sum2 %s)" % x.code)
            if axes is not None and sorted(axes) == [-2, -1]:
                return self.sum_last2(e, x)
            _rej(e, "sum over axes %s" % (axes,))
        if f == "np.asarray" and len(args) == 1 and set(kws) <= {"dtype"}:
            return self.expr(args[0])
        if f == "config.get" and len(args) == 1:
            return V("opaque", "cfg")
        if f in ("max", "min") and len(args) == 2 and not kws:
            a, b = self.expr(args[0]), self.expr(args[1])
            if a.kind == "int" and b.kind == "int":
                return Int("(Z.%s %s %s)" % (f, a.code, b.code))
            _rej(e, "max / min of non-integers")
        if f == "SimpleBatcher" and len(args) == 1 and set(kws) == {"batch_size", "shuffle"}:
            n, b = self.expr(args[0]), self.expr(kws["batch_size"])
            sh_ = self.expr(kws["shuffle"])
            if sh_.kind != "bool" or sh_.code is not False or n.kind != "int" or n.nat != "(length pats)" or b.kind != "int" or not b.nat:
                _rej(e, "SimpleBatcher arguments")
            return V("batcher", "(simple_batcher %s %s)" % (n.nat, b.nat))
        if f == "torch.empty" and len(args) == 1 and isinstance(args[0], ast.Tuple) and len(args[0].elts) == 2:
            n, two = self.expr(args[0].elts[0]), self.static_int(args[0].elts[1])
            if n.kind == "int" and n.nat and two == 2:
                return V("cols", ["(repeat None %s)" % n.nat] * 2, n=n.nat)
            _rej(e, "torch.empty shape")
        if f == "np.zeros" and len(args) == 1 and isinstance(args[0], ast.Tuple) and len(args[0].elts) == 2 and not kws:
            a, b = [self.expr(x) for x in args[0].elts]
            if (a.label, b.label) == ("Rn", "Cn"):
                return Ten(("R", "C"), "(zeros2 Rn Cn)", fresh=True)
            _rej(e, "np.zeros shape")
        if f == "range" and len(args) == 1:
            n = self.expr(args[0])
            if n.kind == "int" and n.label:
                return V("range", n.label)
            _rej(e, "range")
        if f == "tqdmnd" and len(args) == 2:
            a, b = self.expr(args[0]), self.expr(args[1])
            if a.kind == "range" and b.kind == "range" and (a.code, b.code) == ("Rn", "Cn"):
                return V("product", "(product_range Rn Cn)")
            _rej(e, "tqdmnd ranges")
        if f == "np.isfinite" and len(args) == 1:
            return V("opaque", "finite")
        if f == "fit_origin":
            return V("tuple", [V("opaque", "fit")] * 4)
        if f == "np.ones_like" and len(args) == 1:
            x = self.expr(args[0])
            if x.kind == "ten":
                return Ten(x.axes, nest(len(x.axes), "(fun _ => 1%Q)", x.code), prov=3)
        if f == "np.mean" and len(args) == 1 and not kws:
            x = self.expr(args[0])
            if x.kind == "ten" and x.axes == ("R", "C"):
                return V("q", "(mean (concat %s))" % x.code)
        # ---- pointwise (shift_origin_to)
        if self.mode == "pw":
            if f == "torch.empty_like" and len(args) == 1 and self.expr(args[0]).code == "pats4":
                return V("opaque", "outbuf")
            if f == "torch.as_tensor" and self.key(args[0]) == "origin_coordinate" and set(kws) <= {"dtype", "device"}:
                return self.pw(["cy", "cx"])
            if f == "torch.tensor" and len(args) == 1 and isinstance(args[0], ast.List) and set(kws) <= {"dtype", "device"}:
                vs = [self.expr(x) for x in args[0].elts]
                return self.pw([self.toq(v, e) for v in vs])
            if f == "torch.stack" and len(args) == 1 and isinstance(args[0], (ast.Tuple, ast.List)) \
                    and self.static_int(kws.get("dim", args[1] if len(args) > 1 else None)) == -1:
                vs = [self.expr(x) for x in args[0].elts]
                if any(v.kind != "pw" or len(v.comps) != 1 for v in vs):
                    _rej(e, "stack")
                return self.pw([v.comps[0] for v in vs], any(v.batch for v in vs), any(v.spatial for v in vs))
            if f == "F.grid_sample" and len(args) == 2 and set(kws) == {"mode", "padding_mode", "align_corners"}:
                x, g = self.expr(args[0]), self.expr(args[1])
                md, pm, ac = (self.expr(kws[k]) for k in ("mode", "padding_mode", "align_corners"))
                if x.code != "pat" or g.kind != "pw" or len(g.comps) != 2 or md.code != "bilinear" or pm.code != "zeros" or ac.code is not True:
                    _rej(e, "grid_sample arguments")
                return V("sampled", g.comps)
        # ---- plane fit (fit_origin_background)
        if f == "torch.concatenate" and len(args) == 2 and isinstance(args[0], ast.Tuple) and self.static_int(args[1]) == 1:
            a, b = [self.expr(x) for x in args[0].elts]
            if a.kind == "pos" and b.kind == "col":
                return V("ten", "(points_of pos %s)" % ("o%d" % b.code), axes=("P", "3"), prov=0, fresh=True, zcol=b.code)
            _rej(e, "concatenate")
        if f == "torch.cov" and len(args) == 1 and not kws:
            x = self.expr(args[0])
            if x.kind == "ten" and x.axes == ("3", "P"):
                return V("m3", "(cov3 %s)" % x.code)
        if f == "torch.linalg.eigh" and len(args) == 1 and not kws:
            x = self.expr(args[0])
            if x.kind == "m3":
                self.out["cov"] = x.code
                return V("tuple", [V("opaque", "eigvals"), V("eigvecs", None)])
        if f == "torch.dot" and len(args) == 2:
            a, b = self.expr(args[0]), self.expr(args[1])
            if a.kind == "normal" and b.kind == "p3":
                return V("q", "(dot3 %s %s)" % (a.code, b.code))
        if f == "torch.tensor" and len(args) == 1 and isinstance(args[0], ast.List) and len(args[0].elts) == 2:
            vs = [self.expr(x) for x in args[0].elts]
            if all(v.kind == "q" for v in vs):
                return V("vec2", [v.code for v in vs])
        if f == "torch.stack" and len(args) == 2 and self.static_int(args[1]) == -1 and isinstance(args[0], ast.List):
            vs = [self.expr(x) for x in args[0].elts]
            if len(vs) == 2 and all(v.kind == "q" for v in vs):
                return V("pairq", [v.code for v in vs])
        if f == "fit_linear_plane" and "fit_linear_plane" in self.env and len(args) == 1:
            return self.inline(self.env["fit_linear_plane"].code, [self.expr(args[0])], e)
        _rej(e, "call")

    def inline(self, fdef, vals, node):
        sub = Interp({k: v for k, v in self.env.items()}, self.mode)
        params = [a.arg for a in fdef.args.args]
        if len(params) != len(vals):
            _rej(node, "arity")
        sub.env.update(dict(zip(params, vals)))
        sub.zcol = getattr(vals[0], "zcol", 0)
        sub.block(fdef.body)
        if sub.ret is None:
            _rej(node, "no return value")
        for k, v in sub.out.items():
            tag = "%s_%d" % (k, getattr(vals[0], "zcol", 0))
            self.out[tag] = v
        return sub.ret

    # ---------------------------------------------------------------- statements
    def block(self, stmts):
        for s in stmts:
            if self.ret is not None:
                return
            self.stmt(s)

    def assign(self, tgt, val, node):
        if isinstance(tgt, ast.Tuple):
            vs = val.code if val.kind in ("tuple", "shape") else \
                ([V("q", "(%s %s)" % (p, val.code)) for p in ("px", "py", "pz")] if val.kind == "normal" else None)
            if vs is None or len(vs) != len(tgt.elts):
                _rej(node, "tuple assignment")
            for t, v in zip(tgt.elts, vs):
                self.assign(t, v, node)
            return
        k = self.key(tgt)
        if k is not None:
            if k.startswith("self."):
                self.out[k] = val
            self.env[k] = val
            return
        if isinstance(tgt, ast.Subscript):
            arr = self.expr(tgt.value)
            name = self.key(tgt.value)
            elts = list(tgt.slice.elts) if isinstance(tgt.slice, ast.Tuple) else [tgt.slice]
            if arr.kind == "cols" and len(elts) == 2 and name:
                i, c = self.expr(elts[0]), self.static_int(elts[1])
                if i.kind == "idx" and c in (0, 1) and val.kind == "ten" and val.axes == ("B",):
                    code = list(arr.code)
                    code[c] = "(scatter %s (map Some %s) %s)" % (i.code, val.code, code[c])
                    self.env[name] = V("cols", code, n=arr.n)
                    return
            if arr.kind == "ten" and arr.axes == ("R", "C") and arr.fresh and len(elts) == 2 and name:
                r, c = self.expr(elts[0]), self.expr(elts[1])
                if r.kind == "int" and c.kind == "int" and r.nat and c.nat and val.kind == "q":
                    self.env[name] = Ten(arr.axes, "(upd2 %s %s %s %s)" % (r.nat, c.nat, val.code, arr.code), fresh=True)
                    return
            if arr.kind == "opaque" and arr.code == "outbuf" and len(elts) == 1 and self.expr(elts[0]).kind == "idx" and val.kind == "sampled":
                self.out["sampled"] = val
                return
        _rej(node, "assignment target")

    def stmt(self, s):
        if isinstance(s, ast.Expr) and isinstance(s.value, ast.Constant):
            return
        if isinstance(s, ast.Assign) and len(s.targets) == 1:
            return self.assign(s.targets[0], self.expr(s.value), s)
        if isinstance(s, ast.AugAssign) and self.key(s.target):
            cur = self.expr(s.target)
            if cur.kind == "ten" and not cur.fresh:
                _rej(s, "in-place update through a view of the caller's array")
            return self.assign(s.target, self.ew(s, s.op, cur, self.expr(s.value)), s)
        if isinstance(s, ast.If):
            c = self.expr(s.test)
            if c.kind != "bool":
                _rej(s, "condition is not statically decided")
            return self.block(s.body if c.code else s.orelse)
        if isinstance(s, ast.Raise):
            _rej(s, "reachable raise")
        if isinstance(s, ast.Return):
            self.ret = self.expr(s.value) if s.value is not None else V("none")
            return
        if isinstance(s, ast.FunctionDef):
            self.env[s.name] = V("fdef", s)
            return
        if isinstance(s, ast.For) and not s.orelse:
            return self.loop(s)
        _rej(s, "statement")

    def loop(self, s):
        it = self.expr(s.iter)
        before = dict(self.env)
        if it.kind == "batcher" and isinstance(s.target, ast.Name):
            self.env[s.target.id] = V("idx", "idx_")
            binder, iters = "idx_", it.code
        elif it.kind == "product" and isinstance(s.target, ast.Tuple) and len(s.target.elts) == 2:
            for t, p in zip(s.target.elts, ("fst", "snd")):
                self.env[t.id] = Int("(Z.of_nat (%s rc_))" % p, nat="(%s rc_)" % p)
            binder, iters = "rc_", it.code
        else:
            _rej(s, "loop")
        self.loop_iters = iters
        # loop-carried arrays: existing arrays stored into by subscript in the body
        carried = []
        for n in ast.walk(s):
            if isinstance(n, (ast.Assign, ast.AugAssign)):
                for t in (n.targets if isinstance(n, ast.Assign) else [n.target]):
                    if isinstance(t, ast.Subscript) and self.key(t.value) in before and self.key(t.value) not in carried:
                        carried.append(self.key(t.value))
        inits = {}
        if self.mode == "wt":
            slots = []
            for name in carried:
                v = before[name]
                if v.kind == "cols":
                    inits[name] = list(v.code)
                    self.env[name] = V("cols", ["c0_%s" % name, "c1_%s" % name], n=v.n)
                    slots += ["c0_%s" % name, "c1_%s" % name]
                elif v.kind == "ten" and v.axes == ("R", "C"):
                    inits[name] = [v.code]
                    self.env[name] = Ten(v.axes, "a_%s" % name, fresh=True)
                    slots += ["a_%s" % name]
                else:
                    _rej(s, "loop-carried value %s" % name)
        self.block(s.body)
        local = [k for k in self.env if k not in before]
        if self.mode == "wt":
            if not carried:
                _rej(s, "loop without effect")
            # one fold per loop-carried array (its update may read only itself: independent of the order of the stores)
            for name in carried:
                v, old = self.env[name], before[name]
                mine = ["c0_%s" % name, "c1_%s" % name] if old.kind == "cols" else ["a_%s" % name]
                news = list(v.code) if v.kind == "cols" else [v.code]
                for other in slots:
                    if other not in mine and any(re.search(r"\b%s\b" % re.escape(other), c) for c in news):
                        _rej(s, "loop-carried arrays depend on each other")
                tup = lambda xs: xs[0] if len(xs) == 1 else "(" + ", ".join(xs) + ")"      # noqa
                pat = mine[0] if len(mine) == 1 else "'(" + ", ".join(mine) + ")"
                fold = "loop%d_" % (len(self.lets) + 1)
                self.lets.append((fold, "(fold_left (fun st_ %s => let %s := st_ in %s) %s %s)"
                                  % (binder, pat, tup(news), iters, tup(inits[name]))))
                if old.kind == "cols":
                    self.env[name] = V("cols", ["(fst %s)" % fold, "(snd %s)" % fold], n=old.n)
                else:
                    self.env[name] = Ten(old.axes, fold, fresh=True)
        for k in local:                      # loop locals must not be read after the loop
            self.env[k] = V("dead")


# ------------------------------------------------------------------------------------------ locating the sources
def _find(tree, cls, name):
    body = tree.body
    if cls:
        c = [n for n in body if isinstance(n, ast.ClassDef) and n.name == cls]
        if len(c) != 1:
            raise Reject("class %s not found" % cls)
        body = c[0].body
    f = [n for n in body if isinstance(n, ast.FunctionDef) and n.name == name]
    if len(f) != 1:
        raise Reject("%s.%s not found (or defined twice)" % (cls, name))
    if [d for d in f[0].decorator_list]:
        raise Reject("%s.%s is decorated" % (cls, name))
    return f[0]


def _defaults(fdef):
    a = fdef.args
    pos = [x.arg for x in a.args]
    d = dict(zip(pos[len(pos) - len(a.defaults):], a.defaults))
    return pos, d


def _tuple(xs, it=None):
    body = "(" + ", ".join(xs) + ")"
    for name, code in reversed(it.lets if it is not None else []):
        body = "(let %s := %s in %s)" % (name, code, body)
    return body


# ------------------------------------------------------------------------------------------ the six pieces
def tr_calculate_origin(tree):
    f = _find(tree, "CenterOfMassOriginModel", "calculate_origin")
    pos, d = _defaults(f)
    if pos != ["self", "max_batch_size"] or ast.unparse(d.get("max_batch_size")) != "None":
        raise Reject("signature of calculate_origin changed")
    init = _find(tree, "CenterOfMassOriginModel", "__init__")
    nd = [s for s in init.body if isinstance(s, ast.Assign) and Interp.key(s.targets[0]) == "self.num_dps"]
    if len(nd) != 1 or ast.unparse(nd[0].value) != "math.prod(self.dataset.shape[:-2])":
        raise Reject("num_dps is no longer math.prod(self.dataset.shape[:-2])")
    prop = [n for n in tree.body if isinstance(n, ast.ClassDef) and n.name == "CenterOfMassOriginModel"][0]
    tens = [n for n in prop.body if isinstance(n, ast.FunctionDef) and n.name == "tensor" and len(n.args.args) == 1]
    if len(tens) != 1 or ast.unparse(tens[0].body[-1]) != "return self._tensor":
        raise Reject("the tensor property no longer returns self._tensor")
    codes = {}
    for case, mb in (("None", V("none")), ("Some", Int("(Z.of_nat b)", nat="b", label="b"))):
        env = {"self.dataset.shape": V("shape", [NatSym("R_"), NatSym("C_"), NatSym("H"), NatSym("W")]),
               "self.tensor": V("opaque", "tensor"), "self.device": V("opaque", "dev"), "torch.float": V("opaque", "dt"),
               "self.num_dps": Int("(Z.of_nat (length pats))", nat="(length pats)", label="n"),
               "max_batch_size": mb, "self": V("opaque", "self")}
        it = Interp(env)
        it.block(f.body)
        if it.ret is None or it.ret.code != "self" or "self.origin_measured" not in it.out:
            raise Reject("calculate_origin does not store origin_measured and return self")
        o = it.out["self.origin_measured"]
        if o.kind != "cols":
            raise Reject("origin_measured is not the (num, 2) array of the loop")
        codes[case] = _tuple(o.code, it)
    text = ("Definition gen_calculate_origin (mb : option nat) (H W : nat) (pats : list matrix)\n"
            "  : list (option Q) * list (option Q) :=\n  match mb with\n  | None => %s\n  | Some b => %s\n  end.\n"
            % (codes["None"], codes["Some"]))
    return text, f


def tr_set_intensities_com(tree):
    f = _find(tree, "PtychographyDatasetRaster", "_set_intensities_com")
    pos, d = _defaults(f)
    if pos != ["self", "intensities", "dp_mask", "fit_function", "vectorized_calculation"]:
        raise Reject("signature of _set_intensities_com changed")
    if ast.unparse(d["dp_mask"]) != "None" or ast.unparse(d["vectorized_calculation"]) != "True":
        raise Reject("defaults of _set_intensities_com changed")
    parts = {}
    for vec in (True, False):
        for mk in ("None", "Some"):
            env = {"intensities": Ten(("R", "C", "H", "W"), "I4", prov=0, fresh=False), "self": V("opaque", "self"),
                   "dp_mask": V("none") if mk == "None" else Ten(("H", "W"), "m", prov=1, fresh=False),
                   "fit_function": V("str", "none"), "vectorized_calculation": V("bool", vec),
                   "self._verbose": V("bool", False)}
            it = Interp(env)
            it.block(f.body)
            cm, cf = it.out.get("self.com_measured"), it.out.get("self.com_fit")
            if cm is None or cm.kind != "tuple" or len(cm.code) != 2 or any(v.kind != "ten" or v.axes != ("R", "C") for v in cm.code):
                raise Reject("com_measured is not the pair (row, column) of scan-shaped arrays")
            if cf is None or cf.kind != "tuple" or [v.code for v in cf.code] != [v.code for v in cm.code]:
                raise Reject("fit_function='none' no longer returns the measured centres of mass as com_fit")
            parts[(vec, mk)] = _tuple([v.code for v in cm.code], it)
    text = ""
    for vec, name, sig in ((True, "gen_com_vectorised", "(H W : nat)"), (False, "gen_com_looped", "(Rn Cn H W : nat)")):
        text += ("Definition %s %s (mask : option matrix) (I4 : list (list matrix))\n  : list (list Q) * list (list Q) :=\n"
                 "  match mask with\n  | None => %s\n  | Some m => %s\n  end.\n\n" % (name, sig, parts[(vec, "None")], parts[(vec, "Some")]))
    # the caller's array: no statement of either path writes through `intensities` (a store or an in-place operator on
    # a view raises Reject above), so after the call it is what it was
    text += ("Definition gen_com_step (Rn Cn H W : nat) (I4 : list (list matrix)) (c : com_call)\n"
             "  : (list (list Q) * list (list Q)) * list (list matrix) :=\n"
             "  match c with\n  | ComCall true m => (gen_com_vectorised H W m I4, I4)\n"
             "  | ComCall false m => (gen_com_looped Rn Cn H W m I4, I4)\n  end.\n")
    # dispatch chain of the fit: the order of the string tests
    chain, node = [], [s for s in f.body if isinstance(s, ast.If) and "fit_function" in ast.unparse(s.test)]
    if len(node) != 1:
        raise Reject("fit dispatch of _set_intensities_com")
    n = node[0]
    while True:
        t = n.test
        if not (isinstance(t, ast.Compare) and Interp.key(t.left) == "fit_function" and isinstance(t.ops[0], ast.Eq)
                and isinstance(t.comparators[0], ast.Constant)):
            raise Reject("fit dispatch test")
        chain.append(t.comparators[0].value)
        if len(n.orelse) == 1 and isinstance(n.orelse[0], ast.If):
            n = n.orelse[0]
        else:
            last = [c for c in ast.walk(ast.Module(body=n.orelse, type_ignores=[])) if isinstance(c, ast.Call) and ast.unparse(c.func) == "fit_origin"]
            if len(last) != 1 or ast.unparse(last[0].keywords[0].value) != "(com_measured_r, com_measured_c)" \
                    or {k.arg: ast.unparse(k.value) for k in last[0].keywords}.get("fit_function") != "fit_function":
                raise Reject("the remaining fit functions are no longer handed to fit_origin(data=(row, column), fit_function=...)")
            break
    text += "\nDefinition gen_com_fit_chain : list String.string := [%s].\n" % "; ".join('"%s"%%string' % c for c in chain)
    return text, f


def tr_shift(tree):
    f = _find(tree, "CenterOfMassOriginModel", "shift_origin_to")
    pos, d = _defaults(f)
    if pos != ["self", "origin_coordinate", "max_batch_size", "mode"] or ast.unparse(d["mode"]) != "'bilinear'":
        raise Reject("signature / default mode of shift_origin_to changed")
    env = {"self.dataset.shape": V("shape", [NatSym("R_"), NatSym("C_"), NatSym("H"), NatSym("W")]),
           "self.tensor": V("opaque", "tensor"), "self.device": V("opaque", "dev"), "torch.float": V("opaque", "dt"),
           "self._origin_fitted": V("opaque", "set"), "self.origin_fitted": V("pw", None, comps=["oy", "ox"], batch=True, spatial=False),
           "self.num_dps": Int("(Z.of_nat (length pats))", nat="(length pats)", label="n"),
           "max_batch_size": V("none"), "mode": V("str", "bilinear"), "self": V("opaque", "self"),
           "origin_coordinate": V("opaque", "coord")}
    iters = {}
    for case, mb in (("Some", Int("(Z.of_nat b)", nat="b", label="b")), ("None", V("none"))):
        env["max_batch_size"] = mb
        it = Interp(env, mode="pw")
        it.block(f.body)
        if "sampled" not in it.out or "self.shifted_tensor" not in it.out or it.ret is None or it.ret.code != "self":
            raise Reject("shift_origin_to does not store the resampled batches in shifted_tensor")
        if len(it.mods) != 2:
            raise Reject("no `%` over both grid components")
        iters[case] = it.loop_iters
    gx, gy = it.out["sampled"].code
    sig = "(H W : nat) (oy ox cy cx : Q) (y_ x_ : nat)"
    text = ""
    for k, (a, n) in enumerate(it.mods):
        text += "Definition gen_shift_modarg%d %s : Q := %s.\nDefinition gen_shift_modden%d %s : Q := %s.\n" % (k, sig, a, k, sig, n)
    text += "Definition gen_shift_gridx %s (s0_ s1_ : Q) : Q := %s.\n" % (sig, gx)
    text += "Definition gen_shift_gridy %s (s0_ s1_ : Q) : Q := %s.\n" % (sig, gy)
    text += ("Definition gen_shift_pattern (H W : nat) (oy ox cy cx : Q) (I : matrix) : matrix :=\n"
             "  grid_sample_bilinear_ac H W I (fun y_ x_ =>\n"
             "    let s0_ := qmod (gen_shift_modarg0 H W oy ox cy cx y_ x_) (gen_shift_modden0 H W oy ox cy cx y_ x_) in\n"
             "    let s1_ := qmod (gen_shift_modarg1 H W oy ox cy cx y_ x_) (gen_shift_modden1 H W oy ox cy cx y_ x_) in\n"
             "    (gen_shift_gridx H W oy ox cy cx y_ x_ s0_ s1_, gen_shift_gridy H W oy ox cy cx y_ x_ s0_ s1_)).\n")
    # the batch loop: pattern, fitted origin and output are indexed by the SAME batch indices (checked above: the only
    # index value is the loop variable), the output starts as torch.empty_like
    body = ("fold_left (fun out_ idx_ => scatter idx_ (map (fun i_ => Some (gen_shift_pattern H W (fst (nth i_ org (0, 0)%%Q)) "
            "(snd (nth i_ org (0, 0)%%Q)) cy cx (nth i_ pats []))) idx_) out_) %s (repeat None (length pats))")
    text += ("Definition gen_shift_all (mb : option nat) (H W : nat) (cy cx : Q) (org : list (Q * Q)) (pats : list matrix)\n"
             "  : list (option matrix) :=\n  match mb with\n  | None => %s\n  | Some b => %s\n  end.\n"
             % (body % iters["None"], body % iters["Some"]))
    return text, f


def tr_fit_background(tree):
    f = _find(tree, "CenterOfMassOriginModel", "fit_origin_background")
    pos, d = _defaults(f)
    if pos != ["self", "probe_positions", "fit_method"]:
        raise Reject("signature of fit_origin_background changed")
    text = ""
    # constant
    env = {"self._origin_measured": V("opaque", "set"), "self.origin_measured": V("cols", ["o0", "o1"], n="n"),
           "probe_positions": V("pos", "pos"), "fit_method": V("str", "constant"), "self": V("opaque", "self"),
           "self.device": V("opaque", "dev"), "torch.float": V("opaque", "dt"),
           "validate_tensor": V("opaque", "vt")}
    body = [s for s in f.body if not (isinstance(s, ast.If) and "probe_positions is None" in ast.unparse(s.test))]
    if len(body) != len(f.body) - 1:
        raise Reject("probe position block of fit_origin_background")
    it = Interp(env)
    it.block(body)
    o = it.out.get("self.origin_fitted")
    if o is None or o.kind != "pairq":
        raise Reject("constant fit")
    text += "Definition gen_fit_constant_origin (o0 o1 : list Q) : Q * Q := %s.\n" % _tuple(o.code)
    env["fit_method"] = V("str", "plane")
    it = Interp(env)          # the two calls of fit_linear_plane get their own oracle normal (nrm0_, nrm1_)
    it.block(body)
    o = it.out.get("self.origin_fitted")
    if o is None or o.kind != "pairq" or it.out.get("eig_col_0") is None or "cov_0" not in it.out or "cov_1" not in it.out:
        raise Reject("plane fit")
    text += "Definition gen_plane_eig_column : Z := (%d)%%Z.\n" % it.out["eig_col_0"]
    if it.out["eig_col_0"] != it.out.get("eig_col_1"):
        raise Reject("eigenvector column")
    text += "Definition gen_plane_cov_r (pos : list (Q * Q)) (o0 o1 : list Q) : M3 := %s.\n" % it.out["cov_0"]
    text += "Definition gen_plane_cov_c (pos : list (Q * Q)) (o0 o1 : list Q) : M3 := %s.\n" % it.out["cov_1"]
    text += ("Definition gen_plane_fitted (pos : list (Q * Q)) (o0 o1 : list Q) (nrm0_ nrm1_ : P3) (x_ y_ : Q) : Q * Q := %s.\n"
             % _tuple(o.code))
    return text, f


def tr_scalar_family(tree, name, params):
    f = _find(tree, None, name)
    pos, _ = _defaults(f)
    if pos != ["xy"] + params:
        raise Reject("parameters of %s changed: %s" % (name, pos))
    env = {"xy": V("tuple", [V("q", "(Qn r)"), V("q", "(Qn c)")])}
    env.update({p: V("q", p) for p in params})
    it = Interp(env)
    it.block(f.body)
    if it.ret is None or it.ret.kind != "q":
        raise Reject("%s does not return a scalar expression" % name)
    return it.ret.code, f


def tr_fit_origin(tree):
    f = _find(tree, None, "fit_origin")
    pos, _ = _defaults(f)
    if pos[:3] != ["data", "mask", "fit_function"]:
        raise Reject("signature of fit_origin changed")
    # (a) constant branch, executed
    env = {"data": V("tuple", [Ten(("R", "C"), "g0", fresh=False), Ten(("R", "C"), "g1", fresh=False)]),
           "fit_function": V("str", "constant"), "mask": V("none"), "robust": V("bool", False)}
    env.update({n: V("opaque", n) for n in ("_plane", "_parabola", "_bezier_two")})
    it = Interp(env)
    it.block(f.body)
    if it.ret is None or it.ret.kind != "tuple" or len(it.ret.code) != 4 or it.ret.code[0].kind != "ten":
        raise Reject("constant branch of fit_origin")
    text = "Definition gen_fit_origin_constant (g0 g1 : list (list Q)) : list (list Q) * list (list Q) := %s.\n" % _tuple(
        [it.ret.code[0].code, it.ret.code[1].code])
    # (b) dispatch chain: which family function each name selects
    chain = []
    n = [s for s in f.body if isinstance(s, ast.If) and "fit_function" in ast.unparse(s.test)]
    if len(n) != 1:
        raise Reject("dispatch of fit_origin")
    n = n[0]
    while True:
        t = n.test
        if not (isinstance(t, ast.Compare) and Interp.key(t.left) == "fit_function" and isinstance(t.ops[0], ast.Eq)
                and isinstance(t.comparators[0], ast.Constant)):
            raise Reject("dispatch test of fit_origin")
        if len(n.body) == 1 and isinstance(n.body[0], ast.Assign) and Interp.key(n.body[0].targets[0]) == "f" and isinstance(n.body[0].value, ast.Name):
            chain.append((t.comparators[0].value, n.body[0].value.id))
        else:
            chain.append((t.comparators[0].value, "<mean>"))
        if len(n.orelse) == 1 and isinstance(n.orelse[0], ast.If):
            n = n.orelse[0]
        elif len(n.orelse) == 1 and isinstance(n.orelse[0], ast.Raise):
            break
        else:
            raise Reject("tail of the dispatch of fit_origin")
    text += "Definition gen_fit_origin_chain : list (String.string * String.string) := [%s].\n" % "; ".join('("%s"%%string, "%s"%%string)' % c for c in chain)
    # (c) coordinates handed to the family function and to curve_fit: rc = vstack((r1D, c1D)) of np.indices(shape)
    src = {}
    for s in ast.walk(f):
        if isinstance(s, ast.Assign) and len(s.targets) == 1:
            t = s.targets[0]
            src.setdefault(ast.unparse(t), []).append(ast.unparse(s.value))
    want = {"shape": ["qr0_meas.shape"], "(r, c)": ["np.indices(shape)"], "r1D": ["r.reshape(1, np.prod(shape))"],
            "c1D": ["c.reshape(1, np.prod(shape))"], "rc": ["np.vstack((r1D, c1D))"],
            "rc_masked": ["np.vstack((r1D * mask1D, c1D * mask1D))"],
            "qr0_fit": ["np.mean(qr0_meas) * np.ones_like(qr0_meas)", "f(rc, *popt_r).reshape(shape)"],
            "qc0_fit": ["np.mean(qc0_meas) * np.ones_like(qc0_meas)", "f(rc, *popt_c).reshape(shape)"]}
    for k, v in want.items():
        if k in ("qr0_fit", "qc0_fit"):
            if len(src.get(k, [])) != 2 or v[1] not in src[k]:       # the constant branch itself is executed above
                raise Reject("fit_origin: `%s = %s` expected, found %r" % (k, v[1], src.get(k)))
        elif src.get(k) != v:
            raise Reject("fit_origin: `%s = %s` expected, found %r" % (k, v[0], src.get(k)))
    fits = sorted(ast.unparse(c) for c in ast.walk(f) if isinstance(c, ast.Call) and ast.unparse(c.func) == "curve_fit")
    if fits != sorted(["curve_fit(f, rc, qc0_meas)", "curve_fit(f, rc, qr0_meas)", "curve_fit(f, rc_masked, qc0_meas_masked)",
                       "curve_fit(f, rc_masked, qr0_meas_masked)"]):
        raise Reject("curve_fit calls of fit_origin changed: %s" % fits)
    text += ("Definition gen_fit_origin_eval {P : Type} (f : P -> nat -> nat -> Q) (p : P) (Rn Cn : nat) : list (list Q) :=\n"
             "  map (fun r => map (fun c => f p r c) (seq 0 Cn)) (seq 0 Rn).\n")
    return text, f


def tr_iter(tree):
    f = _find(tree, "SimpleBatcher", "__iter__")
    want = ("train_order = self.rng.permutation(self.train_indices) if self.shuffle else self.train_indices\n"
            "for i in range(0, len(train_order), self.batch_size):\n    yield train_order[i:i + self.batch_size]")
    got = "\n".join(ast.unparse(s) for s in f.body)
    if got != want:
        raise Reject("SimpleBatcher.__iter__ changed:\n%s" % got)
    init = _find(tree, "SimpleBatcher", "__init__")
    bs = [ast.unparse(s.value) for s in init.body if isinstance(s, ast.Assign) and Interp.key(s.targets[0]) == "self.batch_size"]
    if bs != ["batch_size if batch_size is not None else num"]:
        raise Reject("SimpleBatcher.batch_size")
    text = ("Definition gen_batches {A : Type} (b : nat) (train_order : list A) : list (list A) :=\n"
            "  map (fun i => py_slice i (i + b) train_order) (range_step (length train_order) b).\n")
    return text, f


def translate(src_root: Path):
    om = ast.parse((src_root / "quantem" / OM).read_text())
    dm = ast.parse((src_root / "quantem" / DM).read_text())
    pu = ast.parse((src_root / "quantem" / PU).read_text())
    parts, info = [], {}

    def add(title, res):
        text, node = res
        parts.append("(* ---- %s (lines %d-%d) *)\n%s" % (title, node.lineno, node.end_lineno, text))
        info[title] = {"lines": "%d-%d" % (node.lineno, node.end_lineno),
                       "ast_sha256": hashlib.sha256(ast.dump(node).encode()).hexdigest()[:16]}

    add(PU + ":SimpleBatcher.__iter__", tr_iter(pu))
    add(OM + ":CenterOfMassOriginModel.calculate_origin", tr_calculate_origin(om))
    add(DM + ":PtychographyDatasetRaster._set_intensities_com", tr_set_intensities_com(dm))
    add(OM + ":CenterOfMassOriginModel.shift_origin_to", tr_shift(om))
    add(OM + ":CenterOfMassOriginModel.fit_origin_background", tr_fit_background(om))
    add(PU + ":fit_origin", tr_fit_origin(pu))
    fams = [("_plane", ["mx", "my", "b"], "gen_plane_fn", "(p : Q * Q * Q)", "let '(mx, my, b) := p in"),
            ("_parabola", ["c0", "cx1", "cx2", "cy1", "cy2", "cxy"], "gen_parabola_fn", "(p : Q * Q * Q * Q * Q * Q)",
             "let '(c0, cx1, cx2, cy1, cy2, cxy) := p in"),
            ("_bezier_two", ["c00", "c01", "c02", "c10", "c11", "c12", "c20", "c21", "c22"], "gen_bezier2_fn",
             "(p : (Q * Q * Q) * (Q * Q * Q) * (Q * Q * Q))", "let '((c00, c01, c02), (c10, c11, c12), (c20, c21, c22)) := p in")]
    for py, params, gname, ty, pat in fams:
        code, node = tr_scalar_family(pu, py, params)
        add(PU + ":" + py, ("Definition %s %s (r c : nat) : Q :=\n  %s %s.\n" % (gname, ty, pat, code), node))
    text = ("(* GENERATED by harness/translate_C18.py from the current sources — do not edit *)\n"
            "From Coq Require Import String.\n"
            "From QV.lib Require Import Prelude Chunks C18_QTensor C18_GenLib.\nFrom QV.model Require Import C18_Model.\n"
            "From Coq Require Import QArith Qround.\nLocal Close Scope Q_scope.\n\n"
            + "\n".join(parts))
    return text, info


# ------------------------------------------------------------------------------------------ the tie, run by ./check C18
GEN_FLAGS = lambda ctx: ["-Q", str(ctx.dir), "GenC18"]  # noqa


def gen_preamble(pre: str) -> str:
    """the check's evaluation preamble with every model function replaced by its translated counterpart: the same
    instances evaluated through gen_* are compared with the implementation by the same comparators (cross-test)"""
    subs = [(r"\bcom_vectorised\b", "gen_com_vectorised"), (r"\bcom_looped\b", "gen_com_looped"),
            (r"\bcom_step\b", "gen_com_step"), (r"\bcalculate_origin (\w+) ", r"gen_calculate_origin (Some \1) "),
            (r"\bshift_pattern_r\b", "gen_shift_pattern"), (r"\bplane_fn\b", "gen_plane_fn"),
            (r"\bparabola_fn\b", "gen_parabola_fn"), (r"\bbezier2_fn\b", "gen_bezier2_fn")]
    out = pre
    for a, b in subs:
        out = re.sub(a, b, out)
    out = out.replace("From QV.model Require Import C18_Model.",
                      "From QV.lib Require Import C18_GenLib.\nFrom QV.model Require Import C18_Model.\n"
                      "From GenC18 Require Import Gen_C18.")
    return out


def run_tie(ctx: Ctx) -> dict:
    """translate -> coqc Gen_C18.v -> coqc the fixed proof script -> require_proofs(C18_GenProperties).
    Returns {"gen_compiled": bool, "tie_ok": bool}."""
    t0 = time.time()
    rec = {"status": "ok", "theorems_file": "coq/gen_proofs/C18_GenProperties.v"}
    ctx.cov["translator_tie"] = rec
    for s in TRUSTED:
        if s not in ctx.cov["trusted_base"]:
            ctx.cov["trusted_base"].append(s)
    saved_cmd = ctx.cov.get("checker_cmd", "")
    saved_problems = list(getattr(ctx, "_proof_problems", []))
    problems, state = [], {"gen_compiled": False, "tie_ok": False}
    props, script = GEN_DIR / "C18_GenProperties.v", GEN_DIR / "C18_GenProofs.v"

    def not_checked(why):
        ths = re.findall(r"(?m)^\s*Theorem\s+(\w+)", props.read_text())
        ctx.cov["obligations"] += len(ths)
        for t in ths:
            ctx.cov["theorems"][t] = "NOT CHECKED (%s)" % why

    text = None
    try:
        text, info = translate(SRC)
        rec["sources"] = info
        rec["generated_sha256"] = hashlib.sha256(text.encode()).hexdigest()
    except Reject as e:
        problems.append("translator tie: the tie theorems of C18_GenProperties.v can no longer be established: the translator "
                        "(fail closed) rejected the current source: %s" % e)
        not_checked("translator rejected the source")
    except Exception as e:  # noqa  (syntax error in the source, missing file, ...)
        problems.append("translator tie: the translator could not read the source: %r" % (e,))
        not_checked("translator could not read the source")
    if text is not None:
        gen = ctx.dir / "Gen_C18.v"
        for stale in (gen.with_suffix(".vo"), ctx.dir / "C18_GenProofs.vo", ctx.dir / "C18_GenProperties.vo"):
            if stale.exists():
                stale.unlink()
        gen.write_text(text)
        rec["generated_file"] = str(gen)
        flags = COQ_FLAGS + GEN_FLAGS(ctx)
        bad = ctx.static_scan([gen, script, props])
        if bad:
            problems.append("forbidden declarations: %s" % bad[:5])
        rc, out = ctx.coq_make(["lib/C18_GenLib.vo", "proof/C18_Proofs_Ext.vo", "proof/C18_Proofs_Shift.vo", "proof/C18_Proofs_Plane.vo"])
        if rc != 0:
            problems.append("translator tie: library build failed:\n" + "\n".join(out.strip().splitlines()[-10:]))
        rc, out = sh(["timeout", "300", "coqc"] + flags + [str(gen)], cwd=ctx.dir, timeout=330)
        if rc != 0:
            problems.append("translator tie: generated file Gen_C18.v does not compile:\n" + "\n".join(out.strip().splitlines()[-12:]))
            not_checked("generated file does not compile")
        else:
            state["gen_compiled"] = True
            rc, out = sh(["timeout", "300", "coqc"] + flags + ["-o", str(ctx.dir / "C18_GenProofs.vo"), str(script)],
                         cwd=ctx.dir, timeout=330)
            if rc != 0:
                where = ""
                m = re.search(r"line (\d+), characters", out)
                if m:
                    for i, line in enumerate(script.read_text().splitlines(), 1):
                        if i > int(m.group(1)):
                            break
                        mm = re.match(r"\s*(?:Lemma|Theorem)\s+(\w+)", line)
                        if mm:
                            where = mm.group(1)
                rec["failed_lemma"] = where
                problems.append("translator tie: the code translated from the current source no longer equals the model "
                                "(C18_Model.v): fixed proof script C18_GenProofs.v fails at `%s`:\n%s"
                                % (where, "\n".join(out.strip().splitlines()[-10:])))
                not_checked("fixed proof script fails at %s" % where)
            elif not ctx.require_proofs(props_name="C18_GenProperties", props_path=props, extra_flags=GEN_FLAGS(ctx), make_targets=[]):
                problems += ["translator tie: " + p for p in ctx._proof_problems]
            else:
                state["tie_ok"] = True
    ctx._proof_problems = saved_problems
    ctx.cov["checker_cmd"] = (saved_cmd + "  ;  python -m harness.translate_C18 > build/C18/Gen_C18.v && coqc ... Gen_C18.v && "
                              "coqc ... coq/gen_proofs/C18_GenProofs.v && coqc ... coq/gen_proofs/C18_GenProperties.v")
    rec["wall_s"] = round(time.time() - t0, 2)
    if problems:
        rec["status"] = "broken"
        rec["problems"] = [p[:1500] for p in problems]
        msg = "; ".join(problems)
        ctx.broken_obligation = (ctx.broken_obligation + "; " + msg) if ctx.broken_obligation else msg
        ctx.log("PROOF OBLIGATION BROKEN (translator tie):", msg[:2500])
    else:
        ctx.log("translator tie: %d source functions translated and tied by theorem to C18_Model.v (%.1fs)"
                % (len(rec.get("sources", {})), rec["wall_s"]))
    return state


if __name__ == "__main__":
    import sys
    try:
        sys.stdout.write(translate(SRC)[0])
    except Reject as e:
        print("REJECTED:", e)
        sys.exit(1)
