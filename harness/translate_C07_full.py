"""translate_C07_full.py — reads the REST of radon.py (beyond the integer geometry read by translate_C07.py) from the
CURRENT source by symbolic execution of the three functions and emits Gallina definitions (build/C07/C07_GenFull.v)
that the fixed script coq/gen_proofs/C07_GenFull_Properties.v proves equal to the hand-written model for ALL arguments:

  get_fourier_filter_torch   the `size % 2` guard, the index vector n (arange / cat), the spatial kernel (zeros, f[0],
                             f[1::2], the pi-power of each entry), 2 Re fft -> rampF, and per filter NAME (the if/elif
                             chain is executed once per name, in the order of the source) the window: slices [1:] /
                             [:-1], linspace endpoints, fftfreq, fftshift, hamming/hann window arguments, `[:] = 1`
  radon_torch                disc mask (centre H//2, W//2, radius min//2), crop offsets, centre N//2, meshgrid axes,
                             stack order, rotation matrix entries and signs, matmul with rot^T, + centre,
                             2 p / (N-1) - 1, grid_sample keywords, WHICH axis is summed, default theta
  iradon_torch               default theta, pixel grid (meshgrid - radius), t = x cos - y sin, t + N//2, floor / clamp /
                             t0 + 1 / weights, gather, validity mask, accumulation, circle mask, pi / (2 A), the
                             FFT pipeline as a provenance term (pad, pad, fft dim, * filter, ifft dim, real, [:N])

Fail closed: a construct outside the grammar poisons the names it defines; a poisoned name reaching an observed value
raises TranslateError (reported by the check as a broken tie).  Loops are executed once, symbolically in the loop index;
names carried from one iteration to the next (other than the result accumulators) are rejected.
Control flow is part of what is read: `continue` / `break` / `return` / `raise` under a condition the translator cannot
read, or under one that is not a constant of the configuration, is rejected (such a branch assigns nothing, so poisoning
names cannot carry it to the result: `if blank[i]: continue` used to be dropped silently); a raise-only guard is
accepted only when it mentions nothing but theta / A / len; the skipped forms are matched exactly:
`if x.ndim == 2: x = x.unsqueeze(0)`, `if <ignored argument> is None: <that name> = ...`,
`x.squeeze(0) if x.shape[0] == 1 else x`.

FIXED MEANINGS given to library calls (the trusted part; everything else is read from the source):
  torch.arange(a, b, s) -> torch_arange a b s (model) / j |-> a + j s;   torch.cat -> ++;   zeros -> 0
  meshgrid(u, v, indexing="ij")[0][r, k] = u[r], [1][r, k] = v[k]   ("xy": swapped);   stack((a, b), -1) -> pair
  matmul(v, M)[j] = sum_i v[i] M[i][j];  transpose swaps;  view / reshape / flatten / expand / unsqueeze whose arguments
  are among {B, 1, -1, N, out, 2}: batch / row-major re-shapes, identity on (row, col) indexed values
  grid_sample(bilinear, zeros, align_corners=True): pixel = unnormalize_ac (model), grid[..., 0] = x (column)
  x.squeeze(1).sum(dim=d): d counted on [B, row, col];  floor -> Qfloor;  clamp(lo, hi) -> clampZ (min hi (max lo x))
  gather(f, 1, idx) -> f idx;  tensor * bool -> * (1 | 0);  torch.pi -> the symbol pi (filter: powers of pi tracked)
  linspace(lo, hi, steps)[j] = lo + j (hi - lo)/(steps - 1);  fftfreq / fftshift -> model's fftfreq / fftshift_src
  hamming_window / hann_window(M, periodic) -> a - b cos(2 pi j / (M - 1 | M));  sin / cos of (q pi) -> sinpi q / cospi q;
  sin(x)/x with x = q pi -> sincpi q;  2 * real(fft(f)) -> rampF f
"""
from __future__ import annotations

import ast
from fractions import Fraction
from pathlib import Path

from .translate_C07 import Sym, TranslateError, _callname, _fail


# =============================================================================== scalar IR
class Ex:
    """typed scalar expression: kind in Z / Q / B"""
    __slots__ = ("kind", "op", "args")

    def __init__(self, kind, op, *args):
        self.kind, self.op, self.args = kind, op, args


def zc(n):
    return Ex("Z", "const", int(n))


def zv(name):
    return Ex("Z", "var", name)


def qc(fr):
    return Ex("Q", "const", Fraction(fr))


def qv(name):
    return Ex("Q", "var", name)


def _isc(e, v=None):
    return isinstance(e, Ex) and e.op == "const" and (v is None or e.args[0] == v)


def zadd(a, b):
    if _isc(a) and _isc(b):
        return zc(a.args[0] + b.args[0])
    if _isc(a):
        a, b = b, a
    if _isc(b):
        if b.args[0] == 0:
            return a
        if a.op == "add" and _isc(a.args[1]):
            return zadd(a.args[0], zc(a.args[1].args[0] + b.args[0]))
    return Ex("Z", "add", a, b)


def zsub(a, b):
    if _isc(b):
        return zadd(a, zc(-b.args[0]))
    return Ex("Z", "sub", a, b)


def zmul(a, b):
    if _isc(a) and _isc(b):
        return zc(a.args[0] * b.args[0])
    for x, y in ((a, b), (b, a)):
        if _isc(x, 1):
            return y
    return Ex("Z", "mul", a, b)


def qmul(a, b):
    for x, y in ((a, b), (b, a)):
        if _isc(x, 1):
            return y
    return Ex("Q", "mul", a, b)


def to_q(e):
    if e.kind == "Q":
        return e
    if e.kind != "Z":
        raise TranslateError("a boolean used as a number")
    if e.op == "const":
        return qc(e.args[0])
    if e.op == "add" and _isc(e.args[1]) and e.args[1].args[0] < 0:
        return Ex("Q", "sub", to_q(e.args[0]), qc(-e.args[1].args[0]))
    if e.op in ("add", "sub", "mul"):
        return Ex("Q", e.op, to_q(e.args[0]), to_q(e.args[1]))
    if e.op == "neg":
        return Ex("Q", "neg", to_q(e.args[0]))
    if e.op == "pow":
        return Ex("Q", "pow", to_q(e.args[0]), e.args[1])
    return Ex("Q", "iz", e)


def render(e) -> str:
    k, op, a = e.kind, e.op, e.args
    if k == "Z":
        if op == "const":
            return "(%d)%%Z" % a[0]
        if op in ("var", "raw"):
            return a[0] if op == "var" else "(%s)%%Z" % a[0]
        if op == "add" and _isc(a[1]) and a[1].args[0] < 0:
            return "(%s - %d)%%Z" % (render(a[0]), -a[1].args[0])
        if op in ("add", "sub", "mul", "fdiv", "mod"):
            return "(%s %s %s)%%Z" % (render(a[0]), {"add": "+", "sub": "-", "mul": "*", "fdiv": "/", "mod": "mod"}[op], render(a[1]))
        if op == "neg":
            return "(- %s)%%Z" % render(a[0])
        if op == "pow":
            return "(%s ^ %d)%%Z" % (render(a[0]), a[1])
        if op in ("min", "max"):
            return "(Z.%s %s %s)" % (op, render(a[0]), render(a[1]))
        if op == "abs":
            return "(Z.abs %s)" % render(a[0])
        if op == "qfloor":
            return "(Qfloor %s)" % render(a[0])
        if op == "clamp":
            return "(clampZ %s %s %s)" % (render(a[0]), render(a[1]), render(a[2]))
        if op == "nth":
            return "(nth (Z.to_nat %s) %s 0%%Z)" % (render(a[1]), a[0])
        if op == "len":
            return "(Z.of_nat (length %s))" % a[0]
        if op == "if":
            return "(if %s then %s else %s)" % (render(a[0]), render(a[1]), render(a[2]))
    if k == "Q":
        if op == "const":
            f = a[0]
            if f.denominator == 1 and f.numerator >= 0:
                return "(%d)%%Q" % f.numerator
            return "(Qmake (%d) %d)" % (f.numerator, f.denominator)
        if op == "var":
            return a[0]
        if op in ("add", "sub", "mul", "div"):
            return "(%s %s %s)%%Q" % (render(a[0]), {"add": "+", "sub": "-", "mul": "*", "div": "/"}[op], render(a[1]))
        if op == "neg":
            return "(- %s)%%Q" % render(a[0])
        if op == "pow":
            return "(%s ^ %d)%%Q" % (render(a[0]), a[1])
        if op == "iz":
            return "(iz %s)" % render(a[0])
        if op == "app":
            return "(%s %s)" % (a[0], " ".join(render(x) if isinstance(x, Ex) else str(x) for x in a[1:]))
        if op == "if":
            return "(if %s then %s else %s)" % (render(a[0]), render(a[1]), render(a[2]))
    if k == "B":
        if op == "const":
            return "true" if a[0] else "false"
        if op in ("zle", "zlt", "zeq"):
            return "(%s %s %s)%%Z" % (render(a[0]), {"zle": "<=?", "zlt": "<?", "zeq": "=?"}[op], render(a[1]))
        if op == "qle":
            return "(Qle_bool %s %s)" % (render(a[0]), render(a[1]))
        if op == "qlt":
            return "(negb (Qle_bool %s %s))" % (render(a[1]), render(a[0]))
        if op == "qeq":
            return "(Qeq_bool %s %s)" % (render(a[0]), render(a[1]))
        if op in ("and", "or"):
            return "(%s %s %s)%%bool" % (render(a[0]), "&&" if op == "and" else "||", render(a[1]))
        if op == "not":
            return "(negb %s)" % render(a[0])
    raise TranslateError("internal: cannot render %s/%s" % (k, op))


class PiVal:
    """coef * pi ** e  (get_fourier_filter_torch only)"""
    def __init__(self, coef, e):
        self.coef, self.e = coef, e


class IfS:
    """scalar chosen by a boolean"""
    def __init__(self, c, a, b):
        self.c, self.a, self.b = c, a, b


def sc_map(f, x):
    if isinstance(x, IfS):
        return IfS(x.c, sc_map(f, x.a), sc_map(f, x.b))
    return f(x)


def as_q(x):
    """plain Q expression of a scalar (no power of pi left)"""
    if isinstance(x, IfS):
        return Ex("Q", "if", x.c, as_q(x.a), as_q(x.b))
    if isinstance(x, PiVal):
        if x.e != 0:
            raise TranslateError("a power of pi (pi ** %d) remains in a value that must be a plain number" % x.e)
        return x.coef
    if isinstance(x, Ex) and x.kind in ("Z", "Q"):
        return to_q(x)
    raise TranslateError("not a number")


def as_pair(x):
    """kernel entry a + b / pi**2 as a Gallina pair"""
    if isinstance(x, IfS):
        return "(if %s then %s else %s)" % (render(x.c), as_pair(x.a), as_pair(x.b))
    if isinstance(x, PiVal):
        if x.e == 0:
            return "(%s, 0%%Q)" % render(x.coef)
        if x.e == -2:
            return "(0%%Q, %s)" % render(x.coef)
        raise TranslateError("spatial kernel entry with pi ** %d (only pi ** 0 and pi ** -2 are representable)" % x.e)
    return "(%s, 0%%Q)" % render(as_q(x))


CMP = {ast.LtE: "le", ast.Lt: "lt", ast.GtE: "ge", ast.Gt: "gt", ast.Eq: "eq", ast.NotEq: "ne"}


def sbin(op, x, y):
    """scalar binary operation (op: add sub mul div fdiv mod pow and or le lt ge gt eq ne)"""
    if isinstance(x, IfS):
        return IfS(x.c, sbin(op, x.a, y), sbin(op, x.b, y))
    if isinstance(y, IfS):
        return IfS(y.c, sbin(op, x, y.a), sbin(op, x, y.b))
    if isinstance(x, PiVal) or isinstance(y, PiVal):
        px = x if isinstance(x, PiVal) else PiVal(as_q(x), 0)
        py = y if isinstance(y, PiVal) else PiVal(as_q(y), 0)
        if op == "mul":
            return PiVal(qmul(px.coef, py.coef), px.e + py.e)
        if op == "div":
            return PiVal(Ex("Q", "div", px.coef, py.coef), px.e - py.e)
        if op in ("add", "sub") and px.e == py.e:
            return PiVal(Ex("Q", op, px.coef, py.coef), px.e)
        if op == "pow" and isinstance(y, Ex) and _isc(y) and y.kind == "Z":
            return PiVal(Ex("Q", "pow", px.coef, y.args[0]), px.e * y.args[0])
        raise TranslateError("operation %s on powers of pi outside the grammar" % op)
    if not (isinstance(x, Ex) and isinstance(y, Ex)):
        raise TranslateError("operation %s on non-scalars" % op)
    if op in ("and", "or"):
        if x.kind == y.kind == "B":
            return Ex("B", op, x, y)
        raise TranslateError("& / | on non-booleans")
    if x.kind == "B" or y.kind == "B":
        if op == "mul":
            b, v = (x, y) if x.kind == "B" else (y, x)
            if v.kind == "B":
                return Ex("B", "and", x, y)
            return qmul_keep(to_q(v), Ex("Q", "if", b, qc(1), qc(0)), b is x)
        raise TranslateError("arithmetic %s on a boolean" % op)
    if op in ("le", "lt", "ge", "gt", "eq", "ne"):
        if op in ("ge", "gt"):
            x, y, op = y, x, {"ge": "le", "gt": "lt"}[op]
        if x.kind == y.kind == "Z":
            e = Ex("B", {"le": "zle", "lt": "zlt", "eq": "zeq", "ne": "zeq"}[op], x, y)
        else:
            e = Ex("B", {"le": "qle", "lt": "qlt", "eq": "qeq", "ne": "qeq"}[op], to_q(x), to_q(y))
        return Ex("B", "not", e) if op == "ne" else e
    if x.kind == y.kind == "Z":
        if op == "add":
            return zadd(x, y)
        if op == "sub":
            return zsub(x, y)
        if op == "mul":
            return zmul(x, y)
        if op in ("fdiv", "mod"):
            return Ex("Z", op, x, y)
        if op == "pow" and _isc(y) and y.args[0] >= 0:
            return Ex("Z", "pow", x, y.args[0])
        if op == "div":
            return Ex("Q", "div", to_q(x), to_q(y))
        raise TranslateError("integer operation %s outside the grammar" % op)
    if op == "pow":
        if _isc(y) and y.kind == "Z":
            return Ex("Q", "pow", to_q(x), y.args[0])
        raise TranslateError("power with a non-constant exponent")
    if op in ("add", "sub", "div"):
        return Ex("Q", op, to_q(x), to_q(y))
    if op == "mul":
        return qmul(to_q(x), to_q(y))
    raise TranslateError("rational operation %s outside the grammar" % op)


def qmul_keep(v, ind, ind_first):
    return Ex("Q", "mul", ind, v) if ind_first else Ex("Q", "mul", v, ind)


def sneg(x):
    if isinstance(x, IfS):
        return IfS(x.c, sneg(x.a), sneg(x.b))
    if isinstance(x, PiVal):
        return PiVal(Ex("Q", "neg", x.coef), x.e)
    if _isc(x):
        return zc(-x.args[0]) if x.kind == "Z" else qc(-x.args[0])
    return Ex(x.kind, "neg", x)


# =============================================================================== tensor values
class Ten:
    """tensor as an index function; shape: list of Z Ex (None = unknown); lst: Gallina list term of a 1-D int vector;
    items: python list for literal vectors; zero: created by torch.zeros and not written yet"""
    def __init__(self, shape, fn, lst=None, items=None, zero=False):
        self.shape, self.fn, self.lst, self.items, self.zero = shape, fn, lst, items, zero

    def map(self, f):
        return Ten(self.shape, lambda idx: f(self.fn(idx)))


class Vec2:
    def __init__(self, x, y):
        self.x, self.y = x, y


class Mat2:
    def __init__(self, m, batched=False):
        self.m, self.batched = m, batched


class Tup:
    def __init__(self, items):
        self.items = list(items)


class Opaque:
    """a data tensor: symbolic shape + provenance term"""
    def __init__(self, prov, shape=None):
        self.prov, self.shape = prov, shape


class Marker:
    def __init__(self, what, **kw):
        self.what = what
        self.__dict__.update(kw)


class Poison:
    def __init__(self, why):
        self.why = why


IGN = Marker("ignored")
NONE = Marker("none")
SHAPE_ARGS_OK = {"B", "1", "-1", "N", "out", "2", "A"}


def _z_str(e):
    return render(e) if isinstance(e, Ex) else str(e)


def prov_str(p):
    if isinstance(p, tuple):
        return "(" + " ".join(prov_str(x) for x in p) + ")"
    if isinstance(p, Ex):
        return render(p)
    return str(p)


# =============================================================================== evaluator
class Ev:
    def __init__(self, func, circle=None, fname="__none__"):
        self.func, self.circle, self.fname = func, circle, fname
        self.env = {}
        self.obs = {}
        self.shapes = []          # (what, Z Ex, Z Ex) pairs that must be equal for the in-place operations to be well shaped
        self.params_z = set()

    # ------------------------------------------------------------ helpers
    def get(self, name, node):
        if name not in self.env:
            _fail(node, "unknown name")
        v = self.env[name]
        if isinstance(v, Poison):
            if v.why.startswith("[poisoned]"):
                raise TranslateError(v.why)
            raise TranslateError("[poisoned] `%s` is defined by a statement outside the grammar: %s" % (name, v.why))
        return v

    def scalar(self, v, node):
        if isinstance(v, (Ex, PiVal, IfS)):
            return v
        _fail(node, "a scalar is required")

    def zarg(self, node):
        v = self.ev(node)
        if isinstance(v, Ex) and v.kind == "Z":
            return v
        _fail(node, "an integer expression is required")

    def old_int(self, node):
        """integer idioms of translate_C07.py (ceil(sqrt(2) N), 2 ** ceil(log2 ..), bit_length ...)"""
        old = Sym(bool(self.circle))
        old.env = {n: render(v) for n, v in self.env.items() if isinstance(v, Ex) and v.kind == "Z"}
        return Ex("Z", "raw", old.z(node))

    def kw(self, call, name, default=None):
        for k in call.keywords:
            if k.arg == name:
                return k.value
        return default

    def kw_const(self, call, name, default):
        n = self.kw(call, name)
        if n is None:
            return default
        try:
            return ast.literal_eval(n)
        except Exception:  # noqa
            _fail(n, "keyword %s must be a literal" % name)

    def only_kw(self, call, allowed):
        for k in call.keywords:
            if k.arg not in allowed:
                _fail(call, "keyword `%s` outside the grammar" % k.arg)

    # ------------------------------------------------------------ expressions
    def ev(self, node):
        if isinstance(node, ast.Constant):
            v = node.value
            if v is None:
                return NONE
            if isinstance(v, bool):
                return Ex("B", "const", v)
            if isinstance(v, int):
                return zc(v)
            if isinstance(v, float):
                return qc(Fraction(repr(v)))
            if isinstance(v, str):
                return Marker("str", s=v)
            _fail(node, "literal outside the grammar")
        if isinstance(node, ast.Name):
            return self.get(node.id, node)
        if isinstance(node, ast.Tuple) or isinstance(node, ast.List):
            return Tup([self.ev(e) for e in node.elts])
        if isinstance(node, ast.UnaryOp) and isinstance(node.op, ast.USub):
            return self.neg(self.ev(node.operand), node)
        if isinstance(node, ast.BinOp):
            return self.binop(node)
        if isinstance(node, ast.Compare) and len(node.ops) == 1:
            return self.compare(node)
        if isinstance(node, ast.IfExp):
            return self.ifexp(node)
        if isinstance(node, ast.Attribute):
            return self.attribute(node)
        if isinstance(node, ast.Subscript):
            return self.subscript(node)
        if isinstance(node, ast.Call):
            return self.call(node)
        _fail(node, "expression outside the grammar")

    def neg(self, v, node):
        if isinstance(v, (Ex, PiVal, IfS)):
            return sneg(v)
        if isinstance(v, Ten):
            return v.map(sneg)
        _fail(node, "negation of this value")

    OPS = {ast.Add: "add", ast.Sub: "sub", ast.Mult: "mul", ast.Div: "div", ast.FloorDiv: "fdiv", ast.Mod: "mod",
           ast.Pow: "pow", ast.BitAnd: "and", ast.BitOr: "or"}

    def binop(self, node):
        if type(node.op) not in self.OPS:
            try:
                return self.old_int(node)
            except TranslateError:
                _fail(node, "operator outside the grammar")
        op = self.OPS[type(node.op)]
        # 2 * torch.real(torch.fft.fft(f))  ->  rampF
        try:
            a, b = self.ev(node.left), self.ev(node.right)
        except TranslateError:
            if all(not isinstance(n, ast.Call) or _callname(n) in ("int", "ceil", "floor", "sqrt", "log2", "tensor", "float",
                                                                   "bit_length", "max", "min", "abs")
                   for n in ast.walk(node)):
                return self.old_int(node)
            raise
        return self.apply(op, a, b, node)

    def apply(self, op, a, b, node):
        for x, y in ((a, b), (b, a)):
            if isinstance(x, Marker) and x.what == "refft" and op == "mul" and _isc(y, 2):
                kern = x.kernel
                self.obs["kernel"] = kern
                return Ten(kern.shape, lambda idx: Ex("Q", "app", "rampF", "(gen_filter_kernel size)", idx[0]))
        if isinstance(a, Opaque) or isinstance(b, Opaque):
            pa = a.prov if isinstance(a, Opaque) else self.describe(a)
            pb = b.prov if isinstance(b, Opaque) else self.describe(b)
            shape = a.shape if isinstance(a, Opaque) else b.shape
            return Opaque((op, pa, pb), shape)
        sc = (Ex, PiVal, IfS)
        try:
            if isinstance(a, sc) and isinstance(b, sc):
                return sbin(op, a, b)
            if isinstance(a, Ten) and isinstance(b, sc):
                if a.items is not None:
                    return Ten(a.shape, None, items=[sbin(op, x, b) for x in a.items])
                return Ten(a.shape, lambda idx: sbin(op, a.fn(idx), b))
            if isinstance(a, sc) and isinstance(b, Ten):
                if b.items is not None:
                    return Ten(b.shape, None, items=[sbin(op, a, x) for x in b.items])
                return Ten(b.shape, lambda idx: sbin(op, a, b.fn(idx)))
            if isinstance(a, Ten) and isinstance(b, Ten):
                ra, rb = len(a.shape), len(b.shape)
                if ra != rb:
                    _fail(node, "broadcast between tensors of different rank")
                return Ten(a.shape, lambda idx: sbin(op, a.fn(idx), b.fn(idx)))
            if isinstance(a, Vec2) or isinstance(b, Vec2):
                ax, ay = (a.x, a.y) if isinstance(a, Vec2) else (a, a)
                bx, by = (b.x, b.y) if isinstance(b, Vec2) else (b, b)
                return Vec2(self.apply(op, ax, bx, node), self.apply(op, ay, by, node))
        except TranslateError as e:
            _fail(node, str(e))
        _fail(node, "operands outside the grammar")

    def describe(self, v):
        if isinstance(v, Ex):
            return v
        if isinstance(v, Ten):
            return ("tensor",)
        return ("value",)

    def compare(self, node):
        opn = node.ops[0]
        left, right = node.left, node.comparators[0]
        if isinstance(opn, (ast.Is, ast.IsNot, ast.Eq, ast.NotEq)):
            lv, rv = self.ev(left), self.ev(right)
            def lit(v):
                if v is NONE:
                    return (None,)
                if isinstance(v, Marker) and v.what == "str":
                    return (v.s,)
                return None
            if lit(lv) is not None and lit(rv) is not None:
                same = lit(lv) == lit(rv)
                return Ex("B", "const", same if isinstance(opn, (ast.Is, ast.Eq)) else not same)
            if isinstance(opn, (ast.Is, ast.IsNot)):
                _fail(node, "identity test outside the grammar")
        if type(opn) not in CMP:
            _fail(node, "comparison outside the grammar")
        return self.apply(CMP[type(opn)], self.ev(left), self.ev(right), node)

    def ifexp(self, node):
        t = node.test
        if isinstance(t, ast.Name) and t.id == "circle" and self.circle is not None:
            return self.ev(node.body if self.circle else node.orelse)
        # `x if x is not None else default`  (theta)
        if isinstance(t, ast.Compare) and isinstance(t.ops[0], (ast.Is, ast.IsNot)) and isinstance(t.left, ast.Name) \
                and t.left.id == "theta":
            default = node.orelse if isinstance(t.ops[0], ast.IsNot) else node.body
            self.obs["default_theta"] = self.ev(default)
            return Marker("angles")
        # batch squeeze of the result
        if "shape" in ast.unparse(t):
            nm = node.orelse.id if isinstance(node.orelse, ast.Name) else None
            if nm is None or ast.unparse(node) != "%s.squeeze(0) if %s.shape[0] == 1 else %s" % (nm, nm, nm):
                _fail(node, "a conditional on a shape other than `x.squeeze(0) if x.shape[0] == 1 else x` is outside the grammar")
            self.obs.setdefault("return_squeeze", ast.unparse(node))
            body = self.ev(node.orelse)
            return body
        c = self.ev(t)
        if isinstance(c, Ex) and c.kind == "B":
            if c.op == "const":
                return self.ev(node.body if c.args[0] else node.orelse)
            a, b = self.ev(node.body), self.ev(node.orelse)
            if isinstance(a, Marker) and a.what == "slice" and isinstance(b, Marker) and b.what == "slice":
                return Marker("slice", cond=c, then=a, orelse=b, start=None, stop=None)
            return IfS(c, self.scalar(a, node), self.scalar(b, node))
        _fail(node, "conditional expression outside the grammar")

    def attribute(self, node):
        if isinstance(node.value, ast.Name) and node.value.id in ("torch", "math", "np", "numpy") and node.attr == "pi":
            return PiVal(qc(1), 1) if self.func == "get_fourier_filter_torch" else qv("pi")
        if isinstance(node.value, ast.Name) and node.value.id == "torch":
            return IGN                                  # dtypes
        v = self.ev(node.value)
        if node.attr in ("device", "dtype"):
            return IGN
        if node.attr == "shape":
            if isinstance(v, Opaque) and v.shape is not None:
                return Tup(v.shape)
            if isinstance(v, Opaque) and self.func == "radon_torch" and isinstance(v.prov, tuple) and v.prov[0] == "crop":
                return Tup([zv("B"), zv("N"), zv("N")])      # the central square: N = min(H, W), tied separately
            if isinstance(v, Marker) and v.what == "acc":
                return Tup(v.shape)
            if isinstance(v, Ten) and all(s is not None for s in v.shape):
                return Tup(v.shape)
            _fail(node, "shape of this value is not known")
        if node.attr == "ndim":
            return Marker("ndim")
        _fail(node, "attribute outside the grammar")

    def const_index(self, node):
        v = self.ev(node)
        if isinstance(v, Ex) and _isc(v) and v.kind == "Z":
            return v.args[0]
        return None

    def subscript(self, node):
        v = self.ev(node.value)
        sl = node.slice
        if isinstance(v, Tup):
            i = self.const_index(sl)
            if i is None or not -len(v.items) <= i < len(v.items):
                _fail(node, "tuple index must be a literal in range")
            return v.items[i]
        if isinstance(v, Ten) and v.items is not None:
            i = self.const_index(sl)
            if i is None or not -len(v.items) <= i < len(v.items):
                _fail(node, "index into a literal vector must be a literal in range")
            return v.items[i]
        if isinstance(v, Ten) and len(v.shape) == 1 and isinstance(sl, ast.Slice):
            lo, hi, st = self.slice_parts(sl, node)
            if st != 1:
                _fail(node, "strided read outside the grammar")
            n = v.shape[0]
            stop = n if hi is None else (zadd(n, zc(hi)) if hi < 0 else zc(hi))
            if lo < 0:
                _fail(node, "negative slice start outside the grammar")
            return Ten([zsub(stop, zc(lo))], lambda idx: v.fn([zadd(idx[0], zc(lo))]))
        if isinstance(v, Opaque) and isinstance(sl, ast.Tuple):
            return self.opaque_index(v, sl.elts, node)
        _fail(node, "subscript outside the grammar")

    def slice_parts(self, sl, node):
        def c(x, default):
            if x is None:
                return default
            i = self.const_index(x)
            if i is None:
                _fail(node, "slice bounds must be literals")
            return i
        return c(sl.lower, 0), c(sl.upper, None), c(sl.step, 1)

    def opaque_index(self, v, elts, node):
        full = lambda e: isinstance(e, ast.Slice) and e.lower is None and e.upper is None and e.step is None  # noqa: E731
        if len(elts) == 3 and full(elts[0]) and full(elts[2]) and isinstance(elts[1], ast.Name):
            i = self.ev(elts[1])
            if isinstance(i, Ex) and i.op == "var" and i.args[0] == "i":
                return Marker("fp", prov=v.prov, length=v.shape[-1] if v.shape else None)
        if len(elts) == 3 and full(elts[0]) and full(elts[1]) and isinstance(elts[2], ast.Slice) \
                and elts[2].lower is None and elts[2].step is None and elts[2].upper is not None:
            hi = self.zarg(elts[2].upper)
            shape = list(v.shape[:-1]) + [Ex("Z", "min", hi, v.shape[-1])] if v.shape else None
            return Opaque(("slice_last", hi, v.prov), shape)
        if len(elts) == 3 and full(elts[0]):
            a, b = self.ev(elts[1]), self.ev(elts[2])
            if all(isinstance(x, Marker) and x.what == "slice" for x in (a, b)):
                self.obs["crop"] = (a, b)
                return Opaque(("crop", v.prov), None)
        _fail(node, "indexing of a data tensor outside the grammar")

    # ------------------------------------------------------------ calls
    def call(self, node):
        nm = _callname(node)
        f = node.func
        recv = f.value if isinstance(f, ast.Attribute) else None
        modcall = recv is not None and ast.unparse(recv) in ("torch", "torch.fft", "F", "math", "np", "numpy", "torch.nn.functional")
        if recv is None or modcall:
            h = getattr(self, "f_" + nm, None)
            if h is None:
                try:
                    return self.old_int(node)
                except TranslateError:
                    _fail(node, "call outside the grammar")
            return h(node)
        h = getattr(self, "m_" + nm, None)
        if h is None:
            try:
                return self.old_int(node)
            except TranslateError:
                _fail(node, "method outside the grammar")
        return h(node, self.ev(recv))

    # --- constructors
    def f_arange(self, node):
        self.only_kw(node, {"device", "dtype"})
        a = [self.zarg(x) for x in node.args]
        if len(a) == 1:
            start, stop, step = zc(0), a[0], zc(1)
        elif len(a) == 2:
            start, stop, step = a[0], a[1], zc(1)
        elif len(a) == 3:
            start, stop, step = a
        else:
            _fail(node, "arange arity")
        lst = "(torch_arange %s %s %s)" % (render(start), render(stop), render(step))
        length = stop if (len(a) == 1) else Ex("Z", "len", lst)
        return Ten([length], lambda idx: zadd(zmul(idx[0], step), start) if not _isc(start, 0) or not _isc(step, 1) else idx[0], lst=lst)

    def f_cat(self, node):
        parts = self.ev(node.args[0])
        if not (isinstance(parts, Tup) and all(isinstance(p, Ten) and p.lst for p in parts.items)):
            _fail(node, "cat of anything but integer ranges")
        lst = "(" + " ++ ".join(p.lst for p in parts.items) + ")"
        return Ten([Ex("Z", "len", lst)], lambda idx: Ex("Z", "nth", lst, idx[0]), lst=lst)

    def f_zeros(self, node):
        self.only_kw(node, {"device", "dtype"})
        s = self.ev(node.args[0])
        shape = s.items if isinstance(s, Tup) else [s]
        if not all(isinstance(x, Ex) and x.kind == "Z" for x in shape):
            _fail(node, "zeros with a non-integer shape")
        return Ten(list(shape), lambda idx: qc(0), zero=True)

    def f_tensor(self, node):
        self.only_kw(node, {"device", "dtype"})
        a = node.args[0]
        if isinstance(a, ast.List) and len(a.elts) == 2 and all(isinstance(r, ast.List) and len(r.elts) == 2 for r in a.elts):
            return Mat2([[self.scalar(self.ev(e), e) for e in r.elts] for r in a.elts])
        v = self.ev(a)
        if isinstance(v, Tup):
            items = [self.scalar(x, node) for x in v.items]
            return Ten([zc(len(items))], None, items=items)
        return self.scalar(v, node)

    def f_meshgrid(self, node):
        self.only_kw(node, {"indexing"})
        ix = self.kw_const(node, "indexing", "ij")
        if ix not in ("ij", "xy") or len(node.args) != 2:
            _fail(node, "meshgrid outside the grammar")
        u, v = self.ev(node.args[0]), self.ev(node.args[1])
        if not (isinstance(u, Ten) and isinstance(v, Ten) and len(u.shape) == len(v.shape) == 1):
            _fail(node, "meshgrid of non-vectors")
        if ix == "ij":
            return Tup([Ten([u.shape[0], v.shape[0]], lambda idx: u.fn([idx[0]])),
                        Ten([u.shape[0], v.shape[0]], lambda idx: v.fn([idx[1]]))])
        return Tup([Ten([v.shape[0], u.shape[0]], lambda idx: u.fn([idx[1]])),
                    Ten([v.shape[0], u.shape[0]], lambda idx: v.fn([idx[0]]))])

    def f_stack(self, node):
        self.only_kw(node, {"dim"})
        dim = self.kw_const(node, "dim", 0)
        parts = self.ev(node.args[0])
        if dim != -1 or not (isinstance(parts, Tup) and len(parts.items) == 2 and all(isinstance(p, Ten) for p in parts.items)):
            _fail(node, "stack outside the grammar (two fields, dim=-1)")
        return Vec2(parts.items[0], parts.items[1])

    def f_matmul(self, node):
        v, m = self.ev(node.args[0]), self.ev(node.args[1])
        if not (isinstance(v, Vec2) and isinstance(m, Mat2)):
            _fail(node, "matmul outside the grammar (coordinate field @ 2x2 matrix)")
        M = m.m
        comp = lambda j: self.apply("add", self.apply("mul", v.x, M[0][j], node), self.apply("mul", v.y, M[1][j], node), node)  # noqa: E731
        return Vec2(comp(0), comp(1))

    def f_deg2rad(self, node):
        v = self.ev(node.args[0])
        if isinstance(v, Marker) and v.what in ("angles", "angle"):
            return v
        _fail(node, "deg2rad of anything but the projection angles")

    def trig(self, node, which):
        v = self.ev(node.args[0])
        if isinstance(v, Marker) and v.what == "angle":
            return qv("c" if which == "cos" else "s")
        fn = "cospi" if which == "cos" else "sinpi"
        def one(x):
            if isinstance(x, PiVal) and x.e == 1:
                return Marker("trig", fn=fn, arg=x.coef)
            raise TranslateError("%s of a value that is not a rational multiple of pi" % which)
        if isinstance(v, Ten):
            return Ten(v.shape, lambda idx: sc_map(lambda x: Ex("Q", "app", fn, one(x).arg), v.fn(idx)))
        _fail(node, "%s outside the grammar" % which)

    def f_cos(self, node):
        return self.trig(node, "cos")

    def f_sin(self, node):
        return self.trig(node, "sin")

    def f_floor(self, node):
        v = self.ev(node.args[0])
        if isinstance(v, Ten):
            return v.map(lambda x: Ex("Z", "qfloor", as_q(x)))
        _fail(node, "floor outside the grammar")

    def f_gather(self, node):
        src, dim, idx = self.ev(node.args[0]), self.const_index(node.args[1]), self.ev(node.args[2])
        if not (isinstance(src, Marker) and src.what == "fp" and dim == 1 and isinstance(idx, Ten)):
            _fail(node, "gather outside the grammar (gather(filtered[:, i, :], 1, index field))")
        self.obs.setdefault("fp", src)
        def one(z):
            if isinstance(z, Ex) and z.kind == "Z":
                return Ex("Q", "app", "fp", z)
            raise TranslateError("gather index is not an integer")
        return idx.map(lambda z: sc_map(one, z))

    def f_real(self, node):
        v = self.ev(node.args[0])
        if isinstance(v, Marker) and v.what == "fftk":
            return Marker("refft", kernel=v.kernel)
        if isinstance(v, Opaque):
            return Opaque(("real", v.prov), v.shape)
        _fail(node, "real outside the grammar")

    def fftlike(self, node, name):
        self.only_kw(node, {"dim"})
        v = self.ev(node.args[0])
        if isinstance(v, Ten) and len(v.shape) == 1 and name == "fft" and not node.keywords:
            return Marker("fftk", kernel=v)
        if isinstance(v, Opaque):
            return Opaque((name, self.kw_const(node, "dim", -1), v.prov), v.shape)
        _fail(node, "%s outside the grammar" % name)

    def f_fft(self, node):
        return self.fftlike(node, "fft")

    def f_ifft(self, node):
        return self.fftlike(node, "ifft")

    def f_fftfreq(self, node):
        self.only_kw(node, {"device", "dtype"})
        n = self.zarg(node.args[0])
        return Ten([n], lambda idx: Ex("Q", "app", "fftfreq", n, idx[0]))

    def f_fftshift(self, node):
        v = self.ev(node.args[0])
        if not (isinstance(v, Ten) and len(v.shape) == 1):
            _fail(node, "fftshift of a non-vector")
        n = v.shape[0]
        return Ten([n], lambda idx: v.fn([Ex("Z", "raw", "fftshift_src %s %s" % (render(n), render(idx[0])))]))

    def f_linspace(self, node):
        self.only_kw(node, {"steps", "device", "dtype"})
        args = list(node.args)
        steps = self.kw(node, "steps") or (args[2] if len(args) > 2 else None)
        if steps is None or len(args) < 2:
            _fail(node, "linspace(lo, hi, steps=...) required")
        lo, hi, st = self.ev(args[0]), self.ev(args[1]), self.zarg(steps)
        if isinstance(hi, PiVal):
            if not _isc(lo, 0):
                _fail(node, "linspace from a non-zero start to a multiple of pi")
            return Ten([st], lambda idx: PiVal(Ex("Q", "app", "t_linspace", qc(0), hi.coef, st, idx[0]), hi.e))
        lo, hi = as_q(self.scalar(lo, node)), as_q(self.scalar(hi, node))
        return Ten([st], lambda idx: Ex("Q", "app", "t_linspace", lo, hi, st, idx[0]))

    def window(self, node, name):
        self.only_kw(node, {"periodic", "device", "dtype"})
        M = self.zarg(node.args[0])
        per = self.kw_const(node, "periodic", True) if len(node.args) < 2 else self.ev(node.args[1]).args[0]
        return Ten([M], lambda idx: Ex("Q", "app", name, "cospi", M, "true" if per else "false", idx[0]))

    def f_hamming_window(self, node):
        return self.window(node, "t_hamming")

    def f_hann_window(self, node):
        return self.window(node, "t_hann")

    def f_pad(self, node):
        v, p = self.ev(node.args[0]), self.ev(node.args[1])
        if not (isinstance(v, Opaque) and isinstance(p, Tup) and len(p.items) == 2 and len(node.args) == 2 and not node.keywords):
            _fail(node, "pad outside the grammar")
        a, b = p.items
        shape = list(v.shape[:-1]) + [sbin("add", sbin("add", v.shape[-1], a), b)] if v.shape else None
        return Opaque(("pad", a, b, v.prov), shape)

    def f_get_fourier_filter_torch(self, node):
        size = self.zarg(node.args[0])
        name = self.ev(node.args[1]) if len(node.args) > 1 else self.ev(self.kw(node, "filter_name"))
        return Opaque(("filter", size, "filter_name" if isinstance(name, Marker) and name.what == "fname" else "?"), [zc(1), size])

    def f_grid_sample(self, node):
        self.only_kw(node, {"mode", "padding_mode", "align_corners"})
        if (self.kw_const(node, "mode", "bilinear"), self.kw_const(node, "padding_mode", "zeros"),
                self.kw_const(node, "align_corners", False)) != ("bilinear", "zeros", True):
            _fail(node, "grid_sample keywords other than bilinear / zeros / align_corners=True")
        img, grid = self.ev(node.args[0]), self.ev(node.args[1])
        if not (isinstance(img, Opaque) and isinstance(grid, Vec2)):
            _fail(node, "grid_sample arguments outside the grammar")
        n = self.get("N", node)
        un = lambda t: t.map(lambda g: Ex("Q", "app", "unnormalize_ac", n, as_q(g)))  # noqa: E731
        return Marker("sampled", image=img.prov, px=un(grid.x), py=un(grid.y), dims=["B", "C", "R", "K"], summed=None)

    def f_min(self, node):
        a, b = self.zarg(node.args[0]), self.zarg(node.args[1])
        return Ex("Z", "min", a, b)

    def f_max(self, node):
        a, b = self.zarg(node.args[0]), self.zarg(node.args[1])
        return Ex("Z", "max", a, b)

    def f_int(self, node):
        try:
            v = self.ev(node.args[0])
            if isinstance(v, Ex) and v.kind == "Z":
                return v
        except TranslateError:
            pass
        return self.old_int(node)

    def f_len(self, node):
        v = self.ev(node.args[0])
        if isinstance(v, Marker) and v.what == "angles":
            return zv("A")
        _fail(node, "len outside the grammar")

    def f_slice(self, node):
        a = [self.ev(x) for x in node.args]
        if len(a) == 1 and a[0] is NONE:
            return Marker("slice", start=None, stop=None, cond=None)
        if len(a) == 2 and all(isinstance(x, Ex) and x.kind == "Z" for x in a):
            return Marker("slice", start=a[0], stop=a[1], cond=None)
        _fail(node, "slice outside the grammar")

    def f_tuple(self, node):
        g = node.args[0]
        if isinstance(g, ast.GeneratorExp) and len(g.generators) == 1 and isinstance(g.generators[0].target, ast.Name) \
                and not g.generators[0].ifs:
            it = self.ev(g.generators[0].iter)
            if isinstance(it, Ten) and it.items is not None:
                out = []
                saved = dict(self.env)
                for item in it.items:
                    self.env[g.generators[0].target.id] = item
                    out.append(self.ev(g.elt))
                self.env = saved
                return Tup(out)
        _fail(node, "tuple(...) outside the grammar")

    # --- methods
    def shape_noop(self, node, v):
        for a in node.args:
            s = ast.unparse(a)
            ok = s in SHAPE_ARGS_OK or s in ("output_size",) or (s.lstrip("-").isdigit() and int(s) in (0, 1, 2, -1))
            if not ok:
                _fail(node, "re-shape argument outside the grammar")
        if isinstance(v, (Ten, Vec2, Opaque)) or (isinstance(v, Marker) and v.what in ("fp",)):
            return v
        if isinstance(v, Mat2):
            return Mat2(v.m, batched=True)
        _fail(node, "re-shape of this value")

    m_view = m_reshape = m_expand = m_unsqueeze = m_flatten = shape_noop

    def m_clone(self, node, v):
        if isinstance(v, Opaque):
            return Opaque(("clone", v.prov), v.shape)
        return v

    def m_float(self, node, v):
        if isinstance(v, Ten):
            return v.map(lambda x: sc_map(lambda y: to_q(y) if isinstance(y, Ex) else y, x))
        if isinstance(v, Ex):
            return to_q(v)
        _fail(node, ".float() of this value")

    def m_long(self, node, v):
        def chk(x):
            if isinstance(x, Ex) and x.kind == "Z":
                return x
            raise TranslateError(".long() of a non-integer (truncation is outside the grammar; use floor first)")
        if isinstance(v, Ten):
            return v.map(lambda x: sc_map(chk, x))
        _fail(node, ".long() of this value")

    def m_item(self, node, v):
        return self.scalar(v, node)

    def m_clamp(self, node, v):
        lo, hi = self.zarg(node.args[0]), self.zarg(node.args[1])
        if isinstance(v, Ten):
            return v.map(lambda x: sc_map(lambda z: Ex("Z", "clamp", lo, hi, z), x))
        _fail(node, "clamp of this value")

    def m_transpose(self, node, v):
        dims = tuple(sorted(self.const_index(a) for a in node.args))
        if isinstance(v, Mat2) and ((v.batched and dims in ((1, 2), (-2, -1))) or (not v.batched and dims in ((0, 1), (-2, -1)))):
            m = v.m
            return Mat2([[m[0][0], m[1][0]], [m[0][1], m[1][1]]], v.batched)
        _fail(node, "transpose outside the grammar")

    def m_squeeze(self, node, v):
        if isinstance(v, Marker) and v.what == "sampled":
            d = self.const_index(node.args[0]) if node.args else None
            if d is None or not 0 <= d < len(v.dims) or v.dims[d] not in ("C",):
                _fail(node, "squeeze of a non-singleton axis")
            return Marker("sampled", image=v.image, px=v.px, py=v.py, dims=[x for i, x in enumerate(v.dims) if i != d], summed=v.summed)
        if isinstance(v, (Opaque, Ten)) or (isinstance(v, Marker) and v.what == "acc"):
            return v
        _fail(node, "squeeze of this value")

    def m_sum(self, node, v):
        self.only_kw(node, {"dim"})
        d = self.kw_const(node, "dim", None) if not node.args else self.const_index(node.args[0])
        if isinstance(v, Marker) and v.what == "sampled" and d is not None and v.summed is None:
            d = d % len(v.dims)
            if v.dims[d] in ("R", "K"):
                return Marker("sampled", image=v.image, px=v.px, py=v.py, dims=[x for i, x in enumerate(v.dims) if i != d],
                              summed=v.dims[d])
        _fail(node, "sum outside the grammar")

    # ------------------------------------------------------------ statements
    def assigned_names(self, stmts):
        out = set()
        for st in stmts:
            for sub in ast.walk(st):
                tg = []
                if isinstance(sub, ast.Assign):
                    tg = sub.targets
                elif isinstance(sub, (ast.AugAssign, ast.AnnAssign)):
                    tg = [sub.target]
                elif isinstance(sub, ast.For):
                    tg = [sub.target]
                for t in tg:
                    base = t
                    while isinstance(base, ast.Subscript):
                        base = base.value
                    for n in ast.walk(base):
                        if isinstance(n, ast.Name):
                            out.add(n.id)
        return out

    def touched(self, stmts):
        """names a statement outside the grammar may change: assigned ones and every tensor-valued name it mentions
        (in-place methods, out= arguments)"""
        out = set(self.assigned_names(stmts))
        for st in stmts:
            for sub in ast.walk(st):
                if isinstance(sub, ast.Name) and isinstance(self.env.get(sub.id), (Ten, Vec2, Mat2, Opaque)) \
                        or isinstance(sub, ast.Name) and isinstance(self.env.get(sub.id), Marker) \
                        and self.env[sub.id].what in ("acc", "sampled", "fp"):
                    out.add(sub.id)
        return out

    def bind(self, name, node):
        try:
            self.env[name] = self.ev(node)
        except TranslateError as e:
            self.env[name] = Poison(str(e))

    def run(self, stmts):
        for st in stmts:
            self.stmt(st)

    @staticmethod
    def control_flow(stmts, raises=True):
        """the control-flow statements (continue / break / return, and raise) anywhere inside stmts"""
        kinds = (ast.Continue, ast.Break, ast.Return) + ((ast.Raise,) if raises else ())
        return [sub for st in stmts for sub in ast.walk(st) if isinstance(sub, kinds)]

    def stmt(self, st):
        if isinstance(st, ast.Expr) and isinstance(st.value, ast.Constant):
            return
        if isinstance(st, (ast.Continue, ast.Break)):
            # a skipped / truncated projection changes what is accumulated: never readable as a no-op
            _fail(st, "`%s` inside the loop over the angles is outside the grammar" % ast.unparse(st))
        if isinstance(st, ast.Pass):
            return
        if isinstance(st, ast.Raise):
            self.obs["raised"] = True
            raise StopIteration
        if isinstance(st, ast.Return):
            self.obs["return"] = self.ev(st.value)
            raise StopIteration
        if isinstance(st, ast.If):
            return self.if_stmt(st)
        if isinstance(st, ast.For):
            return self.for_stmt(st)
        if isinstance(st, ast.Assign) and len(st.targets) == 1:
            tg = st.targets[0]
            if isinstance(tg, ast.Name):
                return self.bind(tg.id, st.value)
            if isinstance(tg, ast.Tuple) and all(isinstance(e, ast.Name) for e in tg.elts):
                try:
                    v = self.ev(st.value)
                    if not (isinstance(v, Tup) and len(v.items) == len(tg.elts)):
                        raise TranslateError("tuple assignment of a non-tuple")
                    for e, x in zip(tg.elts, v.items):
                        self.env[e.id] = x
                except TranslateError as e:
                    for el in tg.elts:
                        self.env[el.id] = Poison(str(e))
                return
            if isinstance(tg, ast.Subscript) and isinstance(tg.value, ast.Name):
                return self.store(tg, None, st.value, st)
        if isinstance(st, ast.AugAssign):
            op = self.OPS.get(type(st.op))
            if isinstance(st.target, ast.Name) and op:
                return self.aug_name(st.target.id, op, st.value, st)
            if isinstance(st.target, ast.Subscript) and isinstance(st.target.value, ast.Name) and op:
                return self.store(st.target, op, st.value, st)
        if getattr(self, "in_loop", False):
            # a statement we cannot read inside the loop over the angles may carry state to the next projection
            _fail(st, "statement outside the grammar inside the loop over the angles")
        for n in self.touched([st]):
            self.env[n] = Poison("statement outside the grammar: `%s`" % ast.unparse(st)[:80])

    def aug_name(self, name, op, value, st):
        try:
            cur = self.get(name, st)
            v = self.ev(value)
            if isinstance(cur, Ten) and cur.zero and op == "add" and isinstance(v, Ten):      # recon += proj
                self.env[name] = Marker("acc", term=v, shape=cur.shape, mask=None, scale=None)
                return
            if isinstance(cur, Marker) and cur.what == "acc" and op == "mul":                  # recon *= pi / (2 A)
                if cur.scale is not None:
                    raise TranslateError("the accumulated result is rescaled twice")
                cur.scale = as_q(self.scalar(v, st))
                return
            if isinstance(cur, Opaque) and op == "mul" and isinstance(v, Ten):                 # images *= mask
                self.obs.setdefault("masks", []).append(v)
                self.env[name] = Opaque(("masked", cur.prov), cur.shape)
                return
            if isinstance(cur, Ten) and isinstance(v, Ten) and len(cur.shape) == 1 and len(v.shape) == 1 and op == "mul":
                self.shapes.append(("`%s`" % ast.unparse(st), v.shape[0], cur.shape[0]))         # fourier_filter *= window
            self.env[name] = self.apply(op, cur, v, st)
        except TranslateError as e:
            self.env[name] = Poison(str(e))

    def store(self, tg, op, value, st):
        name = tg.value.id
        try:
            cur = self.get(name, st)
            v = self.ev(value)
            sl = tg.slice
            if isinstance(cur, Marker) and cur.what == "acc" and op is None and isinstance(sl, ast.Tuple) and len(sl.elts) == 2:
                m = self.ev(sl.elts[1])                                                   # recon[:, mask] = 0.0
                if not (isinstance(m, Ten) and _isc(v, 0) and cur.mask is None and cur.scale is None):
                    raise TranslateError("masked store into the result outside the grammar")
                cur.mask = m
                return
            if isinstance(cur, Ten) and cur.zero and len(cur.shape) == 3 and op is None and isinstance(sl, ast.Tuple):
                if ast.unparse(sl) not in ("(:, i, :)", ":, i, :") or not (isinstance(v, Marker) and v.what == "sampled"):
                    raise TranslateError("store into the sinogram outside the grammar")
                if "projection" in self.obs:
                    raise TranslateError("more than one store into the sinogram")
                self.obs["projection"] = v                                                # radon_images[:, i, :] = projection
                self.obs["sino_shape"] = cur.shape
                self.obs["sino_target"] = cur
                return
            if not (isinstance(cur, Ten) and len(cur.shape) == 1):
                raise TranslateError("indexed store outside the grammar")
            n = cur.shape[0]
            old = cur.fn
            comb = (lambda o, x: x) if op is None else (lambda o, x: sbin(op, o, x))
            if isinstance(sl, ast.Slice):
                lo, hi, step = self.slice_parts(sl, st)
                if hi is not None or lo < 0 or step < 1:
                    raise TranslateError("slice store with an upper bound / negative start")
                count = Ex("Z", "fdiv", zadd(zsub(n, zc(lo)), zc(step - 1)), zc(step)) if step != 1 else zsub(n, zc(lo))
                if isinstance(v, Ten):
                    self.shapes.append(("`%s`" % ast.unparse(st)[:60], v.shape[0], count))
                def fn(idx, old=old, v=v, lo=lo, step=step):
                    k = idx[0]
                    j = zsub(k, zc(lo))
                    pos = j if step == 1 else Ex("Z", "fdiv", j, zc(step))
                    x = v.fn([pos]) if isinstance(v, Ten) else v
                    if lo == 0 and step == 1:
                        return comb(old(idx), x)
                    cond = Ex("B", "zle", zc(lo), k)
                    if step != 1:
                        cond = Ex("B", "and", cond, Ex("B", "zeq", Ex("Z", "mod", j, zc(step)), zc(0)))
                    return IfS(cond, comb(old(idx), x), old(idx))
                self.env[name] = Ten(cur.shape, fn)
                return
            i = self.const_index(sl)
            if i is None or i < 0:
                raise TranslateError("store at a non-literal index")
            x = self.scalar(v, st)
            self.env[name] = Ten(cur.shape, lambda idx, old=old: IfS(Ex("B", "zeq", idx[0], zc(i)), comb(old(idx), x), old(idx)))
        except TranslateError as e:
            self.env[name] = Poison(str(e))

    def if_stmt(self, st):
        t = st.test
        src = ast.unparse(t)
        if ".ndim" in src:                       # 2-D input -> batch of one: exactly `if x.ndim == 2: x = x.unsqueeze(0)`
            ok = (isinstance(t, ast.Compare) and len(t.ops) == 1 and isinstance(t.ops[0], ast.Eq)
                  and isinstance(t.left, ast.Attribute) and t.left.attr == "ndim" and isinstance(t.left.value, ast.Name)
                  and isinstance(t.comparators[0], ast.Constant) and t.comparators[0].value == 2
                  and not st.orelse and len(st.body) == 1
                  and ast.unparse(st.body[0]) == "%s = %s.unsqueeze(0)" % (t.left.value.id, t.left.value.id))
            if not ok:
                _fail(st, "a branch on .ndim other than `if x.ndim == 2: x = x.unsqueeze(0)` is outside the grammar")
            return
        if isinstance(t, ast.Name) and t.id == "circle" and self.circle is not None:
            return self.run(st.body if self.circle else st.orelse)
        if isinstance(t, ast.Compare) and isinstance(t.ops[0], ast.Is) and isinstance(t.left, ast.Name) \
                and isinstance(t.comparators[0], ast.Constant) and t.comparators[0].value is None and not st.orelse:
            nm = t.left.id
            cur = self.env.get(nm)
            if cur is IGN or nm == "output_size":
                # a default for an argument the tie does not follow (device) / ties elsewhere (output_size, geometry
                # translator): the body may only give that name a value
                if self.assigned_names(st.body) - {nm} or self.control_flow(st.body) or \
                        not all(isinstance(b, ast.Assign) and len(b.targets) == 1 and isinstance(b.targets[0], ast.Name)
                                for b in st.body):
                    _fail(st, "the body of `if %s is None` does more than give `%s` a default" % (nm, nm))
                return
            if nm == "theta":
                sub = Ev(self.func, self.circle, self.fname)
                sub.env = dict(self.env)
                try:
                    sub.run(st.body)
                except StopIteration:
                    pass
                self.obs["default_theta"] = sub.env.get("theta")
                return
        raise_only = all(isinstance(b, ast.Raise) for b in st.body) and not st.orelse
        try:
            c = self.ev(t)
        except TranslateError as e:
            if raise_only:
                self.obs.setdefault("guards_skipped", []).append(src)
                self.obs.setdefault("guards_skipped_nodes", []).append(t)
                return
            if self.control_flow(st.body + st.orelse):
                # `if <something the translator cannot read>: continue / break / return / raise`: the branch assigns
                # nothing, so poisoning names cannot carry it to the result - it changes WHICH statements run
                _fail(st, "control flow (%s) under a condition outside the grammar `%s` (%s)" % (
                    ", ".join(sorted({type(c).__name__.lower() for c in self.control_flow(st.body + st.orelse)})), src[:80], e))
            for n in self.touched(st.body + st.orelse):
                self.env[n] = Poison("assigned under a condition outside the grammar (%s)" % e)
            return
        if isinstance(c, Ex) and c.kind == "B":
            if c.op == "const":
                return self.run(st.body if c.args[0] else st.orelse)
            if raise_only:
                self.obs.setdefault("guards", []).append(c)
                return
        if self.control_flow(st.body + st.orelse):
            _fail(st, "control flow (%s) under a condition that is not a constant of the configuration: `%s`" % (
                ", ".join(sorted({type(c).__name__.lower() for c in self.control_flow(st.body + st.orelse)})), src[:80]))
        for n in self.touched(st.body + st.orelse):
            self.env[n] = Poison("assigned under a symbolic condition `%s`" % src[:60])

    def for_stmt(self, st):
        it = st.iter
        if not (isinstance(it, ast.Call) and _callname(it) == "enumerate" and len(it.args) == 1 and isinstance(st.target, ast.Tuple)
                and len(st.target.elts) == 2 and all(isinstance(e, ast.Name) for e in st.target.elts) and not st.orelse):
            for n in self.touched([st]):
                self.env[n] = Poison("loop outside the grammar")
            return
        try:
            seq = self.ev(it.args[0])
        except TranslateError as e:
            seq = Poison(str(e))
        if not (isinstance(seq, Marker) and seq.what == "angles"):
            for n in self.touched([st]):
                self.env[n] = Poison("loop over something other than the projection angles")
            return
        iname, aname = (e.id for e in st.target.elts)
        assigned = self.assigned_names(st.body)
        carried = {n for n in assigned if n in self.env and not
                   ((isinstance(self.env[n], Ten) and self.env[n].zero) or isinstance(self.env[n], Poison))}
        if carried:
            raise TranslateError("line %d: the loop over the angles modifies names defined before it (%s): a value carried from "
                                 "one projection to the next is outside the grammar" % (st.lineno, ", ".join(sorted(carried))))
        self.env[iname], self.env[aname] = zv("i"), Marker("angle")
        self.obs["loops"] = self.obs.get("loops", 0) + 1
        before = set(self.env)
        self.in_loop = True
        try:
            self.run(st.body)
        finally:
            self.in_loop = False
        for n in assigned:
            v = self.env.get(n)
            if n in before and (isinstance(v, Marker) and v.what == "acc" or (isinstance(v, Ten) and v.zero)):
                continue
            self.env[n] = Poison("assigned inside the loop over the angles")
        self.env.pop(iname, None)
        self.env.pop(aname, None)


# =============================================================================== per-function drivers
def _function(tree, name):
    fn = next((n for n in ast.walk(tree) if isinstance(n, ast.FunctionDef) and n.name == name), None)
    if fn is None:
        raise TranslateError("function %s not found" % name)
    return fn


def _run(ev, fn):
    try:
        ev.run(fn.body)
    except StopIteration:
        pass
    return ev


FILTER_NAMES = [("Ramp", "ramp"), ("SheppLogan", "shepp-logan"), ("Cosine", "cosine"), ("Hamming", "hamming"),
                ("Hann", "hann"), ("NoFilter", None)]


def translate_filter(tree) -> list[str]:
    fn = _function(tree, "get_fourier_filter_torch")
    args = [a.arg for a in fn.args.args]
    if args[:2] != ["size", "filter_name"]:
        raise TranslateError("get_fourier_filter_torch: parameters %s" % args)
    lines = []
    guard = kern = nvec = None
    per = {}
    for ctor, name in FILTER_NAMES + [("_unknown", "__no_such_filter__")]:
        ev = Ev("get_fourier_filter_torch", fname=name)
        ev.env.update(size=zv("size"), device=IGN, dtype=IGN,
                      filter_name=NONE if name is None else Marker("str", s=name))
        _run(ev, fn)
        if ctor == "_unknown":
            if not ev.obs.get("raised"):
                raise TranslateError("get_fourier_filter_torch: an unknown filter name does not raise")
            continue
        if ev.obs.get("raised") or "return" not in ev.obs:
            raise TranslateError("get_fourier_filter_torch(%r): no value is returned" % (name,))
        ret = ev.obs["return"]
        if not (isinstance(ret, Ten) and len(ret.shape) == 1):
            raise TranslateError("get_fourier_filter_torch(%r): the returned value is not a translated vector" % (name,))
        g = ev.obs.get("guards", [])
        if len(g) != 1 or ev.obs.get("guards_skipped"):
            raise TranslateError("get_fourier_filter_torch: expected exactly one translatable raise-guard (size parity)")
        k = ev.obs.get("kernel")
        if k is None:
            raise TranslateError("get_fourier_filter_torch(%r): 2 * real(fft(f)) not found" % (name,))
        kt = "map (fun k : Z => %s) (zrange %s)" % (as_pair(k.fn([zv("k")])), render(k.shape[0]))
        gt = render(g[0])
        if guard is None:
            guard, kern = gt, kt
        elif (guard, kern) != (gt, kt):
            raise TranslateError("get_fourier_filter_torch: the guard / spatial kernel depends on the filter name")
        per[ctor] = (render(as_q(ret.fn([zv("k")]))), render(ret.shape[0]),
                     [(w, render(a), render(b)) for (w, a, b) in ev.shapes])
    lines.append("Definition gen_filter_raises (size : Z) : bool := %s." % guard)
    lines.append("Definition gen_filter_kernel (size : Z) : list (Q * Q) := %s." % kern)
    lines.append("Section GEN_FILTER.")
    lines.append("  Variables sinpi cospi sincpi : Q -> Q.")
    lines.append("  Variable rampF : list (Q * Q) -> Z -> Q.")
    for ctor, _ in FILTER_NAMES:
        lines.append("  Definition gen_filter_%s (size k : Z) : Q := %s." % (ctor, per[ctor][0]))
    lines.append("  Definition gen_filter (nm : fname) (size k : Z) : Q :=\n    match nm with %s end." %
                 " | ".join("%s => gen_filter_%s size k" % (c, c) for c, _ in FILTER_NAMES))
    lines.append("End GEN_FILTER.")
    lines.append("Definition gen_filter_len (nm : fname) (size : Z) : Z :=\n  match nm with %s end." %
                 " | ".join("%s => %s" % (c, per[c][1]) for c, _ in FILTER_NAMES))
    lines.append("(* lengths that the in-place operations need to be equal, per filter name *)")
    lines.append("Definition gen_filter_shapes (nm : fname) (size : Z) : list (Z * Z) :=\n  match nm with %s end." %
                 " | ".join("%s => [%s]" % (c, "; ".join("(%s, %s)" % (a, b) for (_, a, b) in per[c][2])) for c, _ in FILTER_NAMES))
    return lines


# sincpi: sin(x) / x with x = q pi  (recognised on the quotient of two translated vectors)
def _patch_sinc():
    base_apply = Ev.apply

    def apply(self, op, a, b, node):
        if op == "div" and isinstance(a, Ten) and isinstance(b, Ten) and isinstance(node, ast.BinOp):
            l, r = node.left, node.right
            if isinstance(l, ast.Call) and _callname(l) == "sin" and len(l.args) == 1 and ast.dump(l.args[0]) == ast.dump(r):
                def one(x):
                    if isinstance(x, PiVal) and x.e == 1:
                        return Ex("Q", "app", "sincpi", x.coef)
                    raise TranslateError("sin(x)/x with x not a rational multiple of pi")
                return Ten(b.shape, lambda idx: sc_map(one, b.fn(idx)))
        return base_apply(self, op, a, b, node)
    Ev.apply = apply


_patch_sinc()


def _check_skipped_guards(ev, what, allowed_names=()):
    """a raise-only guard whose condition the translator cannot read is accepted only when it mentions nothing but the
    angle vector and the number of projections (it cannot depend on the image / sinogram values)"""
    for node in ev.obs.get("guards_skipped_nodes", []):
        names = {n.id for n in ast.walk(node) if isinstance(n, ast.Name)}
        if not names <= set(allowed_names):
            raise TranslateError("%s: a guard the translator cannot read mentions %s: `%s`" % (
                what, ", ".join(sorted(names - set(allowed_names))), ast.unparse(node)[:100]))
    # a raise guard on a symbolic condition: symbolic values are sizes, never data; accepted when it speaks about the
    # number of projections only (`len(theta) != A`), a guard on the image / detector / output size is outside the grammar
    def free(e, out):
        if isinstance(e, Ex):
            if e.op == "var":
                out.add(e.args[0])
            elif e.op == "raw":
                out.add("<raw:%s>" % (e.args[0],))
            else:
                for a in e.args:
                    free(a, out)
        elif isinstance(e, IfS):
            for a in (e.c, e.a, e.b):
                free(a, out)
        elif isinstance(e, (list, tuple)):
            for a in e:
                free(a, out)
        return out
    for g in ev.obs.get("guards", []):
        fv = free(g, set())
        if not fv <= {"A"}:
            raise TranslateError("%s: a raise guard on the sizes %s is outside the grammar: %s" % (
                what, ", ".join(sorted(fv)), render(g)[:200]))


def _theta_default(v, what):
    if not (isinstance(v, Ten) and len(v.shape) == 1):
        raise TranslateError("%s: the default of theta is not a translated vector" % what)
    return v


def translate_radon(tree) -> list[str]:
    fn = _function(tree, "radon_torch")
    ev = Ev("radon_torch")
    ev.env.update(images=Opaque("images", [zv("B"), zv("H"), zv("W")]), theta=Marker("angles"), device=IGN)
    _run(ev, fn)
    _check_skipped_guards(ev, "radon_torch")
    o = ev.obs
    lines = []
    if o.get("loops") != 1 or "projection" not in o:
        raise TranslateError("radon_torch: the loop over the angles storing one projection per angle was not found")
    if o.get("return") is not o.get("sino_target"):
        raise TranslateError("radon_torch: the returned value is not the tensor the projections are stored into")
    p = o["projection"]
    if p.summed is None or p.dims != ["B", "K" if p.summed == "R" else "R"]:
        raise TranslateError("radon_torch: the projection is not the sampled image summed over one image axis")
    if p.image != ("unsqueeze_noop",) and prov_str(p.image) != "(crop (masked (clone images)))":
        raise TranslateError("radon_torch: the sampled tensor is not the cloned, masked, cropped input (%s)" % prov_str(p.image))
    masks = o.get("masks", [])
    if len(masks) != 1 or len(masks[0].shape) != 2:
        raise TranslateError("radon_torch: expected exactly one 2-D mask multiplied into the images")
    m = masks[0].fn([zv("r"), zv("k")])
    if not (isinstance(m, Ex) and m.kind == "B"):
        raise TranslateError("radon_torch: the mask is not a boolean field")
    lines.append("Definition gen_radon_mask (H W r k : Z) : bool := %s." % render(m))
    crop = o.get("crop")
    if crop is None:
        raise TranslateError("radon_torch: the crop to the central square was not found")
    exc = ev.env.get("excess")
    if not (isinstance(exc, Ten) and exc.items is not None and len(exc.items) == 2):
        raise TranslateError("radon_torch: `excess` is not a translated pair")
    # the slice of one axis as a function of its excess e: re-evaluate the generator element with e symbolic
    gen = next((n for n in ast.walk(fn) if isinstance(n, ast.GeneratorExp)), None)
    if gen is None:
        raise TranslateError("radon_torch: crop slices are not built by a generator over `excess`")
    ev2 = Ev("radon_torch")
    ev2.env = dict(ev.env)
    ev2.env[gen.generators[0].target.id] = zv("e")
    ev2.env["shape_min"] = zv("m")
    s = ev2.ev(gen.elt)
    if not (isinstance(s, Marker) and s.what == "slice" and s.cond is not None and s.then.start is not None and s.orelse.start is None):
        raise TranslateError("radon_torch: crop slice is not `slice(a, b) if e > 0 else slice(None)`")
    lines.append("Definition gen_radon_crop_start (e : Z) : Z := if %s then %s else 0%%Z." % (render(s.cond), render(s.then.start)))
    lines.append("Definition gen_radon_crop_len (e m : Z) : Z := if %s then %s else (m + e)%%Z." %
                 (render(s.cond), render(zsub(s.then.stop, s.then.start))))
    lines.append("Definition gen_radon_excess (H W : Z) : Z * Z := (%s, %s)." % (render(exc.items[0]), render(exc.items[1])))
    lines.append("Definition gen_radon_point (c s : Q) (N r k : Z) : Q * Q := (%s, %s)." %
                 (render(as_q(p.px.fn([zv("r"), zv("k")]))), render(as_q(p.py.fn([zv("r"), zv("k")])))))
    lines.append("Definition gen_radon_sums_rows : bool := %s." % ("true" if p.summed == "R" else "false"))
    sh = o["sino_shape"]
    lines.append("Definition gen_radon_out_shape (B A N : Z) : list Z := [%s]." % "; ".join(render(x) for x in sh))
    dt = _theta_default(o.get("default_theta"), "radon_torch")
    lines.append("Definition gen_radon_default_theta (i : Z) : Z := %s." % render(dt.fn([zv("i")])))
    lines.append("Definition gen_radon_default_theta_len : Z := %s." % render(dt.shape[0]))
    return lines


EXPECTED_PIPE = "(slice_last {S} (real (ifft 2 (mul (fft 2 (pad (0)%Z {FP} {PADDED})) (filter {P} filter_name)))))"


def translate_iradon(tree) -> list[str]:
    fn = _function(tree, "iradon_torch")
    lines = []
    for circle in (True, False):
        tag = "circle" if circle else "nocircle"
        ev = Ev("iradon_torch", circle=circle)
        ev.env.update(sinograms=Opaque("sinograms", [zv("B"), zv("A"), zv("N0")]), theta=Marker("angles"), device=IGN,
                      output_size=zv("out"), filter_name=Marker("fname"), circle=Ex("B", "const", circle))
        _run(ev, fn)
        _check_skipped_guards(ev, "iradon_torch(%s)" % tag, ("theta", "A", "len"))
        o = ev.obs
        acc = o.get("return")
        if not (isinstance(acc, Marker) and acc.what == "acc"):
            raise TranslateError("iradon_torch(%s): the returned value is not the accumulated back-projection" % tag)
        if o.get("loops") != 1:
            raise TranslateError("iradon_torch(%s): expected exactly one loop over the angles" % tag)
        if acc.scale is None:
            raise TranslateError("iradon_torch(%s): the final scaling of the reconstruction was not found" % tag)
        if len(acc.shape) != 3:
            raise TranslateError("iradon_torch(%s): the reconstruction is not [B, out, out]" % tag)
        idx = [zv("row"), zv("col")]
        term = as_q(acc.term.fn(idx))
        lines.append("Definition gen_bp_term_%s (N0 out : Z) (fp : Z -> Q) (c s : Q) (row col : Z) : Q := %s." % (tag, render(term)))
        if acc.mask is None:
            mk = "false"
        else:
            mm = acc.mask.fn(idx)
            if not (isinstance(mm, Ex) and mm.kind == "B"):
                raise TranslateError("iradon_torch(%s): the circle mask is not a boolean field" % tag)
            mk = render(mm)
        lines.append("Definition gen_bp_outside_%s (out row col : Z) : bool := %s." % (tag, mk))
        lines.append("Definition gen_bp_scale_%s (pi : Q) (A : Z) : Q := %s." % (tag, render(acc.scale)))
        lines.append("Definition gen_bp_shape_%s (B out : Z) : list Z := [%s]." % (tag, "; ".join(render(x) for x in acc.shape)))
        fp = o.get("fp")
        if fp is None or fp.length is None:
            raise TranslateError("iradon_torch(%s): the filtered projection read by gather was not found" % tag)
        lines.append("Definition gen_bp_fp_len_%s (N0 : Z) : Z := %s." % (tag, render(fp.length)))
        lines.append("(* FFT pipeline (%s): %s *)" % (tag, prov_str(fp.prov)))
        # structural tie of the FFT pipeline (not expressible as arithmetic): fail closed on any other shape
        pv = fp.prov
        ok = False
        try:
            (sl, S, (re_, (ifft, d2, (mul, (fft, d1, pad2), flt)))) = pv
            ok = (sl, re_, ifft, mul, fft) == ("slice_last", "real", "ifft", "mul", "fft") and d1 == 2 and d2 == 2 \
                and pad2[0] == "pad" and _isc(pad2[1], 0) and flt[0] == "filter" and flt[2] == "filter_name"
            inner = pad2[3]
            if circle:
                ok = ok and inner[0] == "pad" and inner[3] == "sinograms"
            else:
                ok = ok and inner == "sinograms"
        except (ValueError, TypeError, IndexError):
            ok = False
        if not ok:
            raise TranslateError("iradon_torch(%s): the filtering pipeline is not real(ifft(fft(pad(sinograms), dim=2) * "
                                 "get_fourier_filter_torch(P, filter_name), dim=2))[:, :, :N]: %s" % (tag, prov_str(pv)))
        lines.append("Definition gen_bp_pipe_%s (N0 : Z) : Z * Z * Z := (%s, %s, %s)." %
                     (tag, render(S), render(flt[1]), render(pad2[2])))
        if circle:
            dt = _theta_default(o.get("default_theta"), "iradon_torch")
            lines.append("Definition gen_bp_default_theta (A i : Z) : Q := %s." % render(as_q(dt.fn([zv("i")]))))
            lines.append("Definition gen_bp_default_theta_len (A : Z) : Z := %s." % render(dt.shape[0]))
    return lines


def translate_full(path: Path) -> str:
    tree = ast.parse(Path(path).read_text())
    lines = ["(* GENERATED by harness/translate_C07_full.py from the current radon.py: do not edit *)",
             "From QV.lib Require Import Prelude C07_TorchSem.",
             "From QV.model Require Import C07_Model C07_Model_Ext.",
             "From Coq Require Import QArith Qround.", ""]
    lines += ["(* ---- get_fourier_filter_torch *)"] + translate_filter(tree) + [""]
    lines += ["(* ---- radon_torch *)"] + translate_radon(tree) + [""]
    lines += ["(* ---- iradon_torch *)"] + translate_iradon(tree) + [""]
    return "\n".join(lines) + "\n"


if __name__ == "__main__":
    import sys
    print(translate_full(Path(sys.argv[1] if len(sys.argv) > 1 else "/repo/src/quantem/tomography/radon/radon.py")))
