"""C19 — drivers for quantem.core.config: abstract op sequences, their rendering as Python
calls and as Coq terms, the implementation runner (private (config, defaults) pair or the
real module globals), and the property oracle evaluated on the implementation alone.

Abstract values: None | bool | int | str | dict (ordered, str keys) — JSON-serialisable.
Abstract ops (JSON lists):
  ["set", arg, kw]            arg: None | dict | {"__bad__": scalar}; kw: list of [key, value]
  ["upd", dict]               update_defaults
  ["refresh", [dict, ...]]    refresh with these yaml files present in the config directory
  ["with", arg, kw, body]     `with set(arg, **kw): body` (body: list of set/upd/refresh ops,
                              each statement in its own try/except)
  ["withx", arg, kw, body]    the same, but the first exception raised by a body statement leaves
                              the with-block (through __exit__); body may end with ["raise"]
  ["raise"]                   (inside a withx body) `raise TypeError`
  ["update", old, new, prio, defaults]   direct call update(old, new, priority=prio, defaults=defaults)
  ["merge", [dict, ...]]      direct call merge(*dicts)
Round 3:
  ["block", x, arg, kw, body] statement tree: `with set(arg, **kw): body`, body a list of statement trees
                              (plain ops, blocks, reuse); x true: the first exception leaves the block
  ["reuse", arg, kw, b1, b2]  cm = set(arg, **kw); with cm: b1; with cm: b2
  ["ckv", depr, alias, key, value]                 check_key_val with the two tables installed
  ["set_t", depr, alias, arg, kw, conf]            set(arg, config=conf, **kw) with the tables installed
  ["update_t", depr, alias, old, new, prio, dfl]   update(...) with the tables installed
  ["collect_env", env]                             collect_env(env), values given as Python literals
  depr: {key: new name | None}; alias: {key: [[value, replacement], ...]} (scalars)
"""
from __future__ import annotations

import copy
import json
import os
import sys
import tempfile

ERRS = {"KeyError": "KeyErr", "TypeError": "TypeErr", "ValueError": "ValueErr",
        "RuntimeError": "RuntimeErr", "AttributeError": "AttrErr"}


# ------------------------------------------------------------------------------ key helpers
def norm(k: str) -> str:
    return k.replace("-", "_")


def is_pure(k: str) -> bool:
    return not ("-" in k and "_" in k)


def other_spelling(k: str) -> str:
    """the other pure spelling of a pure key"""
    return k.replace("_", "-") if "_" in k else k.replace("-", "_")


def respell_key(k: str, flip) -> str:
    """respell every dotted / double-underscore-free component independently"""
    return ".".join(other_spelling(c) if flip() else c for c in k.split("."))


def norm_tree(t):
    if isinstance(t, dict):
        return {norm(k): norm_tree(v) for k, v in sorted(t.items())}
    return t


def sort_tree(t):
    if isinstance(t, dict):
        return {k: sort_tree(t[k]) for k in sorted(t)}
    return t


def leaf_paths(t, pre=()):
    """all (path, leaf value) of a tree; an empty dict is a leaf-like endpoint too"""
    if isinstance(t, dict) and t:
        for k, v in t.items():
            yield from leaf_paths(v, pre + (k,))
    else:
        yield pre, t


def npath(p):
    return tuple(norm(k) for k in p)


def comparable(p, q):
    """one normalised path is a prefix of the other"""
    n = min(len(p), len(q))
    return p[:n] == q[:n]


def tree_wf(t) -> bool:
    """every dict spells each key once, purely (the domain of the theorems)"""
    if isinstance(t, dict):
        ks = list(t)
        if not all(is_pure(k) for k in ks):
            return False
        if len({norm(k) for k in ks}) != len(ks):
            return False
        return all(tree_wf(v) for v in t.values())
    return True


# ------------------------------------------------------------------------------ Coq printers
def cstr(s: str) -> str:
    assert all(32 <= ord(c) < 127 for c in s), s
    return '"%s"%%string' % s.replace('"', '""')


def ccfg(v) -> str:
    if isinstance(v, dict):
        return "(Node [%s])" % "; ".join("(%s, %s)" % (cstr(k), ccfg(x)) for k, x in v.items())
    if v is None:
        return "(Leaf JNone)"
    if isinstance(v, bool):
        return "(Leaf (JBool %s))" % ("true" if v else "false")
    if isinstance(v, int):
        return "(Leaf (JInt (%d)%%Z))" % v
    if isinstance(v, str):
        return "(Leaf (JStr %s))" % cstr(v)
    raise TypeError("not an abstract value: %r" % (v,))


def citems(d) -> str:
    pairs = d.items() if isinstance(d, dict) else d
    return "[%s]" % "; ".join("(%s, %s)" % (cstr(k), ccfg(x)) for k, x in pairs)


def carg(arg) -> str:
    if arg is None:
        return "None"
    if isinstance(arg, dict) and set(arg) == {"__bad__"}:
        return "(Some %s)" % ccfg(arg["__bad__"])
    return "(Some %s)" % ccfg(arg)


def csop(o) -> str:
    if o[0] == "set":
        return "(SSet %s %s)" % (carg(o[1]), citems(o[2]))
    if o[0] == "upd":
        return "(SUpd %s)" % citems(o[1])
    if o[0] == "refresh":
        return "(SRefresh [%s])" % "; ".join(citems(y) for y in o[1])
    if o[0] == "raise":
        return "(SSet (Some (Leaf JNone)) [])"      # a statement that raises TypeError and changes nothing
    raise ValueError(o)


def cop(o) -> str:
    if o[0] in ("with", "withx"):
        return "(%s %s %s [%s])" % ("With" if o[0] == "with" else "WithX", carg(o[1]), citems(o[2]),
                                    "; ".join(csop(b) for b in o[3]))
    return "(Do %s)" % csop(o)


def cjval(v) -> str:
    c = ccfg(v)
    assert c.startswith("(Leaf "), v
    return c[len("(Leaf "):-1]


def cdepr(depr) -> str:
    return "[%s]" % "; ".join("(%s, %s)" % (cstr(k), "None" if v is None else "(Some %s)" % cstr(v)) for k, v in depr.items())


def calias(alias) -> str:
    return "[%s]" % "; ".join("(%s, [%s])" % (cstr(k), "; ".join("(%s, %s)" % (cjval(a), cjval(b)) for a, b in tbl))
                              for k, tbl in alias.items())


def cstmt(t) -> str:
    if t[0] == "block":
        return "(Block %s %s %s [%s])" % ("true" if t[1] else "false", carg(t[2]), citems(t[3]),
                                          "; ".join(cstmt(b) for b in t[4]))
    if t[0] == "reuse":
        return "(Reuse %s %s [%s] [%s])" % (carg(t[1]), citems(t[2]), "; ".join(cstmt(b) for b in t[3]),
                                            "; ".join(cstmt(b) for b in t[4]))
    return "(Plain %s)" % csop(t)


def cstore(conf, dflts) -> str:
    return "{| conf := %s; dflts := [%s] |}" % (citems(conf), "; ".join(citems(d) for d in dflts))


# ------------------------------------------------------------------------------ parsing Coq output
def from_coq_cfg(v):
    """parsed `Leaf (JInt 3)` / `Node [...]` -> abstract value"""
    if v[0] == "Leaf":
        j = v[1]
        if j[0] == "JNone":
            return None
        if j[0] == "JBool":
            return bool(j[1])
        if j[0] == "JInt":
            return int(j[1])
        if j[0] == "JStr":
            return j[1]
        raise ValueError(j)
    if v[0] == "Node":
        items = v[1] if len(v) > 1 else []
        return {k: from_coq_cfg(x) for k, x in items}
    raise ValueError(v)


def from_coq_res(v):
    """err + cfg -> ("ok", value) | ("err", kind)"""
    if v[0] == "inl":
        return ("err", v[1][0])
    return ("ok", sort_tree(from_coq_cfg(v[1])))


def from_coq_outcome(v):
    return None if v is None else v[1][0]


# ------------------------------------------------------------------------------ implementation side
def to_abstract(x, opaque=None):
    """config tree -> abstract value (lists etc. become opaque string tokens)"""
    if isinstance(x, dict):
        return {str(k): to_abstract(v, opaque) for k, v in x.items()}
    if x is None or isinstance(x, (bool, int, str)):
        return x
    import hashlib
    tok = "opaque:" + hashlib.sha1(repr(x).encode()).hexdigest()[:10]
    if opaque is not None:
        opaque[tok] = x
    return tok


def py_arg(arg):
    if arg is None:
        return None
    if isinstance(arg, dict) and set(arg) == {"__bad__"}:
        return copy.deepcopy(arg["__bad__"])
    return copy.deepcopy(arg)


def classify(e: BaseException) -> str:
    return ERRS.get(type(e).__name__, "Other:" + type(e).__name__)


_TMP_ROOT = None


def _tmp_root():
    """one scratch directory per process (removed at exit) for the empty config directory and
    the yaml directories handed to refresh"""
    global _TMP_ROOT
    if _TMP_ROOT is None:
        import atexit
        import shutil
        _TMP_ROOT = tempfile.mkdtemp(prefix="c19_")
        os.mkdir(os.path.join(_TMP_ROOT, "empty"))
        atexit.register(shutil.rmtree, _TMP_ROOT, True)
    return _TMP_ROOT


# handed to every refresh as `env=` (and exported into os.environ of the globals subprocess): collect() takes the
# mapping and — today — does not read it; were collect_env switched on, these would show up in the store
ENV_PROBE = {"QUANTEM_ALPHA": "99", "QUANTEM_DTYPE_REAL": "'envfloat'", "QUANTEM_VIZ__CMAP": "'envcmap'",
             "QUANTEMALPHA": "98", "QUANQUANTEM_ALPHA": "97", "QUANTEM_DEVICE": "'cuda:7'",
             "QUANQUANTEM_VIZ__CMAP": "'envcmap2'"}
DFLT_TOKEN = "<dflt>"


class Impl:
    """runs abstract ops on quantem.core.config; private pair or module globals"""

    def __init__(self, use_globals=False, init_conf=None, init_dflts=None):
        from quantem.core import config as C
        self.C = C
        self.use_globals = use_globals
        self.empty_dir = os.path.join(_tmp_root(), "empty")
        if use_globals:
            self.config, self.defaults = C.config, C.defaults
        else:
            self.config = copy.deepcopy(init_conf) if init_conf is not None else {}
            self.defaults = copy.deepcopy(init_dflts) if init_dflts is not None else []

    def kw(self):
        return {} if self.use_globals else {"config": self.config}

    def snapshot(self):
        return sort_tree(to_abstract(self.config))

    def dflts_snapshot(self):
        return [to_abstract(d) for d in self.defaults]

    def get(self, key):
        try:
            return ("ok", sort_tree(to_abstract(self.C.get(key, **self.kw()))))
        except Exception as e:  # noqa
            return ("err", classify(e))

    def get_full(self, key, mode):
        """mode "d": get(key, default); "o": get(key, override_with=5); "n": get(key, default, override_with=None)"""
        try:
            if mode == "d":
                r = self.C.get(key, DFLT_TOKEN, **self.kw())
            elif mode == "o":
                r = self.C.get(key, override_with=5, **self.kw())
            else:
                r = self.C.get(key, DFLT_TOKEN, override_with=None, **self.kw())
            return ("ok", sort_tree(to_abstract(r)))
        except Exception as e:  # noqa
            return ("err", classify(e))

    def _yaml_dir(self, yamls):
        if not yamls:
            return self.empty_dir
        import yaml
        d = tempfile.mkdtemp(prefix="yaml_", dir=_tmp_root())
        for i, y in enumerate(yamls):
            with open(os.path.join(d, "%02d.yaml" % i), "w") as f:
                yaml.safe_dump(y, f, sort_keys=False)
        return d

    def make_set(self, arg, kw):
        C = self.C
        kwargs = {k: copy.deepcopy(v) for k, v in kw}
        if arg is None:
            return C.set(**self.kw(), **kwargs) if not self.use_globals else C.set(**kwargs)
        return C.set(py_arg(arg), **self.kw(), **kwargs)

    def sop(self, o):
        """one plain statement; returns the outcome (None | error kind)"""
        try:
            self.sop_raise(o)
            return None
        except Exception as e:  # noqa
            return classify(e)

    def sop_raise(self, o):
        C = self.C
        if True:
            if o[0] == "raise":
                raise TypeError("raised by the body of the with-block")
            if o[0] == "set":
                self.make_set(o[1], o[2])
            elif o[0] == "upd":
                if self.use_globals:
                    C.update_defaults(copy.deepcopy(o[1]))
                else:
                    C.update_defaults(copy.deepcopy(o[1]), config=self.config, defaults=self.defaults)
            elif o[0] == "refresh":
                if self.use_globals:
                    C.refresh(path=self._yaml_dir(o[1]), env=dict(ENV_PROBE))
                else:
                    C.refresh(config=self.config, defaults=self.defaults, path=self._yaml_dir(o[1]), env=dict(ENV_PROBE))
            else:
                raise ValueError(o)

    def op(self, o, observe):
        """one op; `observe(outcome)` is called after every statement (enter, body, exit).
        Returns the list of observations."""
        obs = []
        if o[0] not in ("with", "withx"):
            obs.append(observe(self.sop(o)))
            return obs
        try:
            cm = self.make_set(o[1], o[2])
        except Exception as e:  # noqa
            obs.append(observe(classify(e)))
            return obs
        try:
            with cm:
                obs.append(observe(None))
                for b in o[3]:
                    if o[0] == "with":
                        obs.append(observe(self.sop(b)))
                        continue
                    try:
                        self.sop_raise(b)
                    except Exception as e:  # noqa
                        obs.append(observe(classify(e)))
                        raise
                    obs.append(observe(None))
        except Exception as e:  # noqa
            # raised by the with statement itself or by __exit__
            if not obs:
                obs.append(observe("NoContextManager:" + classify(e)))
                return obs
            obs.append(observe(classify(e)))
            return obs
        obs.append(observe(None))
        return obs


    # -- statement trees (round 3): nested with-blocks, a context manager entered twice -------------
    def stmt_raise(self, t, observe, obs):
        """runs one statement tree, appending an observation after every step (enter, body statements
        recursively, exit); an exception that leaves the statement is re-raised"""
        if t[0] not in ("block", "reuse"):
            try:
                self.sop_raise(t)
            except Exception as e:  # noqa
                obs.append(observe(classify(e)))
                raise
            obs.append(observe(None))
            return
        arg, kw = (t[2], t[3]) if t[0] == "block" else (t[1], t[2])
        try:
            cm = self.make_set(arg, kw)
        except Exception as e:  # noqa
            obs.append(observe(classify(e)))
            raise
        bodies = [(t[1], t[4])] if t[0] == "block" else [(False, t[3]), (False, t[4])]
        for x, body in bodies:
            try:
                with cm:
                    obs.append(observe(None))
                    for b in body:
                        if x:
                            self.stmt_raise(b, observe, obs)
                        else:
                            try:
                                self.stmt_raise(b, observe, obs)
                            except Exception:  # noqa
                                pass
            except Exception as e:  # noqa  (left by the body's exception, or raised by __exit__)
                obs.append(observe(classify(e)))
                raise
            obs.append(observe(None))

    def stmt(self, t, observe):
        obs = []
        try:
            self.stmt_raise(t, observe, obs)
        except Exception:  # noqa
            pass
        return obs


def stmt_sops(t):
    """the plain statements / set arguments of a statement tree, as flat ops (for touched_keys)"""
    if t[0] == "block":
        yield ["set", t[2], t[3]]
        for b in t[4]:
            yield from stmt_sops(b)
    elif t[0] == "reuse":
        yield ["set", t[1], t[2]]
        for b in t[3] + t[4]:
            yield from stmt_sops(b)
    elif t[0] != "raise":
        yield t


def probes(keys):
    """(key, mode) of the get-with-default / override_with observations made after every step"""
    ps = [(k, "d") for k in keys]
    if keys:
        ps += [(keys[0], "o"), (keys[0], "n"), (keys[0] + ".zz", "d")]
    return ps


def cprobe(k, mode) -> str:
    if mode == "d":
        return "(%s, Some (Leaf (JStr %s)), None)" % (cstr(k), cstr(DFLT_TOKEN))
    if mode == "o":
        return "(%s, None, Some (Leaf (JInt 5%%Z)))" % cstr(k)
    return "(%s, Some (Leaf (JStr %s)), Some (Leaf JNone))" % (cstr(k), cstr(DFLT_TOKEN))


def touched_keys(ops, limit=14):
    """key strings whose `get` is compared after every statement: every key used by a set
    (keyword keys after the __ -> . replacement), every leaf path of an update_defaults
    mapping, and the other spelling of each"""
    ks = []

    def add(k):
        for s in (k, respell_key(k, lambda: True)):
            if s not in ks:
                ks.append(s)

    def visit(o):
        if o[0] in ("block", "reuse"):
            for b in stmt_sops(o):
                visit(b)
            return
        if o[0] in ("set", "with", "withx"):
            arg = o[1]
            if isinstance(arg, dict) and set(arg) != {"__bad__"}:
                for k in arg:
                    add(k)
            for k, _ in o[2]:
                add(k.replace("__", "."))
            if o[0] in ("with", "withx"):
                for b in o[3]:
                    visit(b)
        elif o[0] == "upd":
            for p, _ in leaf_paths(o[1]):
                if p:
                    add(".".join(p))
        elif o[0] == "refresh":
            for y in o[1]:
                for p, _ in leaf_paths(y):
                    if p:
                        add(".".join(p))

    for o in ops:
        visit(o)
    add("device")
    ks = ks[:limit]
    # round 3: dotted keys that continue below whatever the first keys hold (TypeError below a
    # scalar, KeyError below a mapping) and the parent of the first dotted key
    extra = [ks[0] + ".zz", "device.index"]
    dotted = [k for k in ks if "." in k]
    if dotted:
        extra.append(dotted[0].rsplit(".", 1)[0])
    for k in extra:
        if k not in ks:
            ks.append(k)
    return ks


def run_impl(ops, keys, use_globals=False, init_conf=None, init_dflts=None, impl=None):
    """trace of the implementation: per op, a list of snapshots
    {"tree", "out", "gets", "ndflts"}; plus the final defaults list"""
    im = impl or Impl(use_globals, init_conf, init_dflts)

    ps = probes(keys)

    def observe(out):
        return {"tree": im.snapshot(), "out": out, "gets": [im.get(k) for k in keys],
                "gets2": [im.get_full(k, m) for k, m in ps], "ndflts": len(im.defaults)}

    tr = [(im.stmt(o, observe) if o[0] in ("block", "reuse") else im.op(o, observe)) for o in ops]
    return tr, im.dflts_snapshot()


# ------------------------------------------------------------------------------ tables of check_key_val
class Tables:
    """installs deprecations / aliases into quantem.core.config for the duration of a call: the
    `deprecations` dict is bound as a default argument of check_key_val (so it is mutated in place),
    `aliases` is read as a module global"""

    def __init__(self, depr, alias):
        from quantem.core import config as C
        self.C, self.depr, self.alias = C, depr, alias

    def __enter__(self):
        import warnings
        self.w = warnings.catch_warnings()
        self.w.__enter__()
        warnings.simplefilter("ignore")
        self.C.deprecations.clear()
        self.C.deprecations.update(self.depr)
        self.C.aliases.clear()
        self.C.aliases.update({k: {a: b for a, b in tbl} for k, tbl in self.alias.items()})

    def __exit__(self, *a):
        self.C.deprecations.clear()
        self.C.aliases.clear()
        self.w.__exit__(*a)
