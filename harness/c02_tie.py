"""c02_tie.py — tie between the SOURCE (re-read on every run) of the integer / index / dispatch logic of the
ptychography forward pipeline and the hand-written model coq/model/C02_Model.v, as theorems re-proved on every run:

  translate (this file, fail closed)               -> build/C02/Gen_C02.v
  coqc Gen_C02.v
  coqc coq/gen_proofs/C02_GenProofs.v              FIXED script: gen_f = model f, all arguments
  coqc coq/gen_proofs/C02_GenProperties.v          Theorem C02_*_tie + Print Assumptions
  cross-test: every gen_f is evaluated (vm_compute) on random arguments and must equal what the REAL function
  computes (torch / numpy executing the same source)

Translated functions (dataset_models.py unless stated):
  PtychographyDatasetBase._set_patch_indices        gen_patch_indices  (symbolic broadcast tensors, chunk loop)
  PtychographyDatasetBase.patch_indices_need_update gen_need_update
  PtychographyDatasetRaster.forward                 gen_forward (cache refresh, batch gather, fractional split)
  PtychographyDatasetBase._obj_shape_crop_2d        gen_obj_shape_crop   (integer tail; floor(fov/sampling) is an input)
  PtychographyDatasetBase._obj_shape_full_2d        gen_obj_shape_full
  ptychography_base.adjust_padding_power2           gen_adjust_pad
  PtychographyDatasetBase._set_targets              gen_set_targets (dispatch on the loss type, by partial evaluation)
  detector_models.DetectorPixelated.forward         gen_detector (operator chain in the abstract ring)

Normalisation: let-inlining / SSA names (local names do not matter), operands of + and * sorted (a+b = b+a),
statements in continuation-passing style.  Any construct outside the grammar raises Reject -> tie broken."""
from __future__ import annotations

import ast
import hashlib
import random
import time
from fractions import Fraction
from pathlib import Path

from .common import COQ, COQ_FLAGS, SRC, Ctx, cq, cz, sh

GEN_DIR = COQ / "gen_proofs"
DM = "diffractive_imaging/dataset_models.py"
PB = "diffractive_imaging/ptychography_base.py"
DT = "diffractive_imaging/detector_models.py"

TRUSTED = [
    "harness/c02_tie.py (Python ast -> Gallina, fail-closed grammar, cross-tested on every run against the real functions) and the "
    "fixed meanings in coq/lib/C02_TieLib.v: torch.round on float32 positions = round_half_even on the exact rational; "
    ".type(torch.int32) = two's-complement wrap32; .to(torch.int64) / .to(device) / .clone() / np.array / .copy() / .astype('int') on "
    "integer-valued data = identity; torch.fft.fftfreq(n, d=1/n).round().to(int64)[i] = i-th entry of the model's fftfreq_list; "
    "broadcasting of x[:, None, None]-style views = tabulated index functions; x[lo:hi] for 0 <= lo; range(a, b, s) for s > 0; "
    "torch.cat(dim=0) = concat; torch.equal = shape and element equality; torch.fft.fft2(norm='ortho') = sN * dft2; "
    "abs(z)**2 = z * conj z; torch.sum(dim=0) = sum over the mode axis; torch.fft.fftshift = DFT2.fftshift2 (roll by n // 2)",
    "np.floor(self.fov / self.obj_sampling) is an INPUT of gen_obj_shape_crop (float division is not translated); "
    "_obj_shape_rot_2d (sin / cos of the scan rotation) is an input of gen_obj_shape_full",
]


class Reject(Exception):
    pass


def _rej(node, why):
    raise Reject("%s at line %s: %s" % (why, getattr(node, "lineno", "?"), ast.unparse(node)[:140] if node is not None else ""))


def _u(node):
    return ast.unparse(node)


def _find(tree, cls, name):
    for n in tree.body:
        if cls is None and isinstance(n, ast.FunctionDef) and n.name == name:
            return n
        if isinstance(n, ast.ClassDef) and n.name == cls:
            for m in n.body:
                if isinstance(m, ast.FunctionDef) and m.name == name:
                    return m
    raise Reject("%s%s not found" % ((cls + ".") if cls else "", name))


def _body(fdef):
    """statements without the docstring"""
    b = list(fdef.body)
    if b and isinstance(b[0], ast.Expr) and isinstance(b[0].value, ast.Constant) and isinstance(b[0].value.value, str):
        b = b[1:]
    return b


def _comm(op, a, b):
    """commutative operator with sorted operands: a + b and b + a give the same text"""
    x, y = sorted([a, b])
    return "(%s %s %s)" % (x, op, y)


# =============================================================================================
# A. scalar integer functions (CPS, SSA)

class ScalarTr:
    """values: ('Z', code) | ('V2', (code0, code1)) | ('B', code).  `elementwise`: NumPy arrays of per-axis values
    are read as one scalar (the same code runs on every axis)."""

    def __init__(self, inputs, elementwise=False):
        self.env0 = dict(inputs)
        self.k = 0
        self.elementwise = elementwise

    def fresh(self, base):
        self.k += 1
        return "v_%s_%d" % (base, self.k)

    def expr(self, e, env):
        if isinstance(e, ast.Constant) and isinstance(e.value, int) and not isinstance(e.value, bool):
            return ("Z", "(%d)" % e.value)
        if isinstance(e, ast.Name):
            if e.id not in env:
                _rej(e, "unknown name")
            return env[e.id]
        if isinstance(e, ast.Attribute) and _u(e) in env:
            return env[_u(e)]
        if isinstance(e, ast.Subscript):
            v = self.expr(e.value, env)
            idx = e.slice
            if isinstance(idx, ast.UnaryOp) and isinstance(idx.op, ast.USub) and isinstance(idx.operand, ast.Constant):
                i = -idx.operand.value
            elif isinstance(idx, ast.Constant) and isinstance(idx.value, int):
                i = idx.value
            else:
                _rej(e, "subscript")
            if v[0] != "V2" or i not in (-2, -1, 0, 1):
                _rej(e, "subscript of a non-pair")
            return ("Z", v[1][i % 2])
        if isinstance(e, ast.BinOp):
            a, b = self.expr(e.left, env), self.expr(e.right, env)
            if a[0] != "Z" or b[0] != "Z":
                _rej(e, "arithmetic on non-integers")
            t = type(e.op)
            if t is ast.Add:
                return ("Z", _comm("+", a[1], b[1]))
            if t is ast.Mult:
                return ("Z", _comm("*", a[1], b[1]))
            if t is ast.Sub:
                return ("Z", "(%s - %s)" % (a[1], b[1]))
            if t is ast.FloorDiv:
                return ("Z", "(%s / %s)" % (a[1], b[1]))
            if t is ast.Mod:
                return ("Z", "(%s mod %s)" % (a[1], b[1]))
            if t is ast.Pow:
                return ("Z", "(%s ^ %s)" % (a[1], b[1]))
            _rej(e, "operator")
        if isinstance(e, ast.Compare) and len(e.ops) == 1:
            a, b = self.expr(e.left, env), self.expr(e.comparators[0], env)
            if a[0] != "Z" or b[0] != "Z":
                _rej(e, "comparison of non-integers")
            fn = {ast.Eq: "(%s =? %s)", ast.NotEq: "(negb (%s =? %s))", ast.Lt: "(%s <? %s)", ast.LtE: "(%s <=? %s)",
                  ast.Gt: "(%s >? %s)", ast.GtE: "(%s >=? %s)"}.get(type(e.ops[0]))
            if fn is None:
                _rej(e, "comparison")
            return ("B", fn % (a[1], b[1]))
        if isinstance(e, ast.BoolOp):
            parts = [self.expr(v, env) for v in e.values]
            if any(p[0] != "B" for p in parts):
                _rej(e, "boolean operator")
            return ("B", "(" + (" || " if isinstance(e.op, ast.Or) else " && ").join(p[1] for p in parts) + ")%bool")
        if isinstance(e, ast.Call):
            f = _u(e.func)
            if self.elementwise:
                if f == "np.floor" and len(e.args) == 1 and _u(e.args[0]) == "self.fov / self.obj_sampling":
                    return env["#floor_fov_over_sampling"]
                if f == "np.array" and len(e.args) == 1 and not e.keywords:
                    return self.expr(e.args[0], env)
                if isinstance(e.func, ast.Attribute) and e.func.attr == "copy" and not e.args:
                    return self.expr(e.func.value, env)
                if isinstance(e.func, ast.Attribute) and e.func.attr == "astype" and len(e.args) == 1 and \
                        isinstance(e.args[0], ast.Constant) and e.args[0].value in ("int", "int64"):
                    return self.expr(e.func.value, env)
            _rej(e, "call")
        _rej(e, "expression")

    def block(self, stmts, env, ind="  "):
        if not stmts:
            raise Reject("a path falls off the end of the function without return / raise")
        s, rest = stmts[0], stmts[1:]
        if isinstance(s, ast.Return):
            v = self.expr(s.value, env)
            return ind + ("Some (%s, %s)" % v[1] if v[0] == "V2" else "Some %s" % v[1])
        if isinstance(s, ast.Raise):
            return ind + "None"
        if isinstance(s, (ast.Assign, ast.AugAssign)):
            tgt = s.targets[0] if isinstance(s, ast.Assign) else s.target
            if isinstance(s, ast.Assign) and len(s.targets) != 1:
                _rej(s, "multiple targets")
            val = s.value
            if isinstance(s, ast.AugAssign):
                val = ast.BinOp(left=tgt, op=s.op, right=s.value)
                ast.copy_location(val, s)
                ast.fix_missing_locations(val)
            v = self.expr(val, env)
            env2 = dict(env)
            if isinstance(tgt, ast.Name):
                if v[0] == "Z":
                    n = self.fresh(tgt.id)
                    env2[tgt.id] = ("Z", n)
                    return ind + "let %s := %s in\n" % (n, v[1]) + self.block(rest, env2, ind)
                env2[tgt.id] = v
                return self.block(rest, env2, ind)
            if isinstance(tgt, ast.Subscript) and isinstance(tgt.value, ast.Name) and env.get(tgt.value.id, ("?",))[0] == "V2":
                i = self.expr(ast.Subscript(value=ast.Constant(value=0), slice=tgt.slice), {**env}) if False else None
                idx = tgt.slice
                if isinstance(idx, ast.UnaryOp) and isinstance(idx.op, ast.USub) and isinstance(idx.operand, ast.Constant):
                    i = (-idx.operand.value) % 2
                elif isinstance(idx, ast.Constant) and idx.value in (0, 1):
                    i = idx.value
                else:
                    _rej(s, "target index")
                if v[0] != "Z":
                    _rej(s, "pair component is not an integer")
                n = self.fresh("%s%d" % (tgt.value.id, i))
                old = list(env[tgt.value.id][1])
                old[i] = n
                env2[tgt.value.id] = ("V2", tuple(old))
                return ind + "let %s := %s in\n" % (n, v[1]) + self.block(rest, env2, ind)
            _rej(s, "assignment target")
        if isinstance(s, ast.If):
            c = self.expr(s.test, env)
            if c[0] != "B":
                _rej(s, "condition")
            return (ind + "if %s then\n" % c[1] + self.block(list(s.body) + rest, dict(env), ind + "  ") + "\n" + ind + "else\n"
                    + self.block(list(s.orelse) + rest, dict(env), ind + "  "))
        _rej(s, "statement")


# =============================================================================================
# B. symbolic broadcast tensors (_set_patch_indices)

class T:
    """tensor = shape (list of Gallina Z codes; None = broadcast axis of size 1) + element code as a function of
    the index codes; elem type 'Z' | 'Q'"""

    def __init__(self, shape, fn, ty):
        self.shape, self.fn, self.ty = list(shape), fn, ty


class TensorTr:
    def __init__(self):
        self.k = 0

    def fresh(self, b):
        self.k += 1
        return "%s%d" % (b, self.k)

    def scalar(self, e, env):
        """integer scalar expressions"""
        if isinstance(e, ast.Constant) and isinstance(e.value, int) and not isinstance(e.value, bool):
            return "(%d)" % e.value
        if isinstance(e, ast.Name) and e.id in env and env[e.id][0] == "Z":
            return env[e.id][1]
        if isinstance(e, ast.Subscript) and _u(e.value) == "self.roi_shape" and isinstance(e.slice, ast.Constant) and e.slice.value in (0, 1):
            return ("n", "m")[e.slice.value]
        if isinstance(e, ast.Subscript) and isinstance(e.value, ast.Name) and env.get(e.value.id, ("?",))[0] == "SHAPE2":
            i = e.slice
            if isinstance(i, ast.UnaryOp) and isinstance(i.op, ast.USub) and isinstance(i.operand, ast.Constant) and i.operand.value in (1, 2):
                return env[e.value.id][1][2 - i.operand.value]
            if isinstance(i, ast.Constant) and i.value in (0, 1):
                return env[e.value.id][1][i.value]
            _rej(e, "object-shape index")
        if isinstance(e, ast.Call) and _u(e.func) == "len" and len(e.args) == 1:
            t = self.tensor(e.args[0], env)
            if t.shape[0] is None:
                _rej(e, "len of a broadcast axis")
            return t.shape[0]
        if isinstance(e, ast.Call) and _u(e.func) in ("min", "max") and len(e.args) == 2 and not e.keywords:
            a, b = sorted([self.scalar(e.args[0], env), self.scalar(e.args[1], env)])
            return "(Z.%s %s %s)" % (_u(e.func), a, b)
        if isinstance(e, ast.BinOp) and type(e.op) in (ast.Add, ast.Sub, ast.Mult):
            a, b = self.scalar(e.left, env), self.scalar(e.right, env)
            if isinstance(e.op, ast.Sub):
                return "(%s - %s)" % (a, b)
            return _comm("+" if isinstance(e.op, ast.Add) else "*", a, b)
        _rej(e, "integer scalar")

    def tensor(self, e, env):
        if isinstance(e, ast.Name):
            if e.id in env and env[e.id][0] == "T":
                return env[e.id][1]
            _rej(e, "unknown tensor")
        if isinstance(e, ast.Attribute) and _u(e) == "self.scan_positions_px":
            return T(["(lenZ pos)", "2"], None, "POS")
        if isinstance(e, ast.Subscript):
            base = self.tensor(e.value, env)
            sl = e.slice
            items = list(sl.elts) if isinstance(sl, ast.Tuple) else [sl]
            if base.ty == "POS":
                if len(items) == 2 and isinstance(items[0], ast.Slice) and _u(items[0]) == ":" and \
                        isinstance(items[1], ast.Constant) and items[1].value in (0, 1):
                    proj = ("fst", "snd")[items[1].value]
                    return T([base.shape[0]], lambda ix, proj=proj: "(%s (nthZ q00 pos %s))" % (proj, ix[0]), "Q")
                _rej(e, "index of the position tensor")
            # basic indexing: full slices, one leading lo:hi slice, None
            shape, srcmap, k = [], [], 0     # srcmap: for each new axis, ('ax', source axis, offset code) | ('new',)
            for it in items:
                if isinstance(it, ast.Constant) and it.value is None:
                    shape.append(None)
                    srcmap.append(("new",))
                elif isinstance(it, ast.Slice) and it.step is None:
                    if k >= len(base.shape):
                        _rej(e, "too many indices")
                    if it.lower is None and it.upper is None:
                        shape.append(base.shape[k])
                        srcmap.append(("ax", k, None))
                    elif it.lower is not None and it.upper is not None and base.shape[k] is not None:
                        lo, hi = self.scalar(it.lower, env), self.scalar(it.upper, env)
                        shape.append("(py_slice_len %s %s %s)" % (base.shape[k], lo, hi))
                        srcmap.append(("ax", k, lo))
                    else:
                        _rej(e, "slice")
                    k += 1
                else:
                    _rej(e, "index")
            if k != len(base.shape):
                _rej(e, "partial indexing")

            def fn(ix, base=base, srcmap=srcmap):
                src = [None] * len(base.shape)
                for j, sm in enumerate(srcmap):
                    if sm[0] == "ax":
                        src[sm[1]] = ix[j] if sm[2] is None else _comm("+", sm[2], ix[j])
                return base.fn(src)
            return T(shape, fn, base.ty)
        if isinstance(e, ast.BinOp) and type(e.op) in (ast.Add, ast.Mult, ast.Mod, ast.Sub):
            lt = self._tensor_or_scalar(e.left, env)
            rt = self._tensor_or_scalar(e.right, env)
            return self.broadcast(e, lt, rt)
        if isinstance(e, ast.Call):
            f = e.func
            fu = _u(f)
            if fu == "torch.round" and len(e.args) == 1 and not e.keywords:
                a = self.tensor(e.args[0], env)
                if a.ty != "Q":
                    _rej(e, "torch.round of a non-float tensor")
                return T(a.shape, lambda ix, a=a: "(round_half_even %s)" % a.fn(ix), "Z")
            if isinstance(f, ast.Attribute) and f.attr in ("type", "to") and len(e.args) == 1 and not e.keywords:
                arg = _u(e.args[0])
                # the fixed-meaning primitive: torch.fft.fftfreq(X, d=1 / X).round().to(torch.int64)
                inner = f.value
                if arg == "torch.int64" and isinstance(inner, ast.Call) and isinstance(inner.func, ast.Attribute) and \
                        inner.func.attr == "round" and not inner.args and isinstance(inner.func.value, ast.Call) and \
                        _u(inner.func.value.func) == "torch.fft.fftfreq":
                    ff = inner.func.value
                    if len(ff.args) != 1 or [k.arg for k in ff.keywords] != ["d"]:
                        _rej(e, "fftfreq arguments")
                    nn = self.scalar(ff.args[0], env)
                    d = ff.keywords[0].value
                    if not (isinstance(d, ast.BinOp) and isinstance(d.op, ast.Div) and isinstance(d.left, ast.Constant)
                            and d.left.value == 1 and self.scalar(d.right, env) == nn):
                        _rej(e, "fftfreq spacing is not 1 / n")
                    return T([nn], lambda ix, nn=nn: "(py_fftfreq_int %s %s)" % (nn, ix[0]), "Z")
                a = self.tensor(inner, env)
                if arg == "self.device":
                    return a
                if a.ty != "Z":
                    _rej(e, "integer cast of a non-integer tensor")
                if arg == "torch.int32":
                    return T(a.shape, lambda ix, a=a: "(wrap32 %s)" % a.fn(ix), "Z")
                if arg == "torch.int64":
                    return a
                _rej(e, "cast")
            _rej(e, "tensor call")
        _rej(e, "tensor expression")

    def _tensor_or_scalar(self, e, env):
        try:
            return ("S", self.scalar(e, env))
        except Reject:
            return ("T", self.tensor(e, env))

    def broadcast(self, e, lt, rt):
        op = type(e.op)

        def ap(a, b):
            if op is ast.Add:
                return _comm("+", a, b)
            if op is ast.Mult:
                return _comm("*", a, b)
            if op is ast.Sub:
                return "(%s - %s)" % (a, b)
            return "(%s mod %s)" % (a, b)
        if lt[0] == "S" and rt[0] == "S":
            _rej(e, "scalar arithmetic in tensor position")
        if lt[0] == "S" or rt[0] == "S":
            t = rt[1] if lt[0] == "S" else lt[1]
            if t.ty != "Z":
                _rej(e, "arithmetic on a non-integer tensor")
            if lt[0] == "S":
                return T(t.shape, lambda ix, t=t, s=lt[1]: ap(s, t.fn(ix)), "Z")
            return T(t.shape, lambda ix, t=t, s=rt[1]: ap(t.fn(ix), s), "Z")
        a, b = lt[1], rt[1]
        if a.ty != "Z" or b.ty != "Z" or len(a.shape) != len(b.shape):
            _rej(e, "broadcast of tensors of different rank / type")
        shape = []
        for x, y in zip(a.shape, b.shape):
            if x is None:
                shape.append(y)
            elif y is None or x == y:
                shape.append(x)
            else:
                _rej(e, "axis lengths %s / %s are not known to agree" % (x, y))

        def fn(ix, a=a, b=b):
            return ap(a.fn([i if s is not None else None for i, s in zip(ix, a.shape)]),
                      b.fn([i if s is not None else None for i, s in zip(ix, b.shape)]))
        return T(shape, fn, "Z")

    @staticmethod
    def tabulate(t, names):
        if any(s is None for s in t.shape):
            raise Reject("result has a broadcast axis")
        code = t.fn(names)
        for nm, s in reversed(list(zip(names, t.shape))):
            code = "(tabZ %s (fun %s => %s))" % (s, nm, code)
        return code

    # ---- statements of _set_patch_indices
    def set_patch_indices(self, fdef):
        if [a.arg for a in fdef.args.args] != ["self", "obj_padding_px"]:
            raise Reject("signature of _set_patch_indices changed")
        env = {}
        stmts = _body(fdef)
        out = {}
        i = 0
        while i < len(stmts):
            s = stmts[i]
            i += 1
            if isinstance(s, ast.Assign) and len(s.targets) == 1:
                tg = s.targets[0]
                if isinstance(tg, ast.Tuple) and isinstance(s.value, ast.Tuple) and len(tg.elts) == len(s.value.elts):
                    vals = [self.assign_value(v, env) for v in s.value.elts]
                    for t_, v in zip(tg.elts, vals):
                        if not isinstance(t_, ast.Name):
                            _rej(s, "tuple target")
                        env[t_.id] = v
                    continue
                if isinstance(tg, ast.Name):
                    env[tg.id] = self.assign_value(s.value, env)
                    continue
                if _u(tg) == "self._patch_indices":
                    v = s.value
                    if not (isinstance(v, ast.Call) and _u(v.func) == "torch.cat" and len(v.args) == 1 and isinstance(v.args[0], ast.Name)
                            and [(k.arg, _u(k.value)) for k in v.keywords] == [("dim", "0")] and env.get(v.args[0].id, ("?",))[0] == "CHUNKS"):
                        _rej(s, "_patch_indices is not torch.cat(<list filled by the chunk loop>, dim=0)")
                    if "patch" in out:
                        _rej(s, "second assignment of _patch_indices")
                    out["patch"] = "(py_cat %s)" % env[v.args[0].id][1]
                    continue
                if _u(tg) == "self._last_patch_positions_px":
                    if _u(s.value) not in ("self.scan_positions_px.clone()", "self.scan_positions_px.detach().clone()"):
                        _rej(s, "_last_patch_positions_px is not a copy of the scan positions")
                    out["last"] = "pos"
                    continue
                _rej(s, "assignment target")
            if isinstance(s, ast.For):
                self.chunk_loop(s, env, stmts[i:])
                continue
            _rej(s, "statement")
        if set(out) != {"patch", "last"}:
            raise Reject("_set_patch_indices does not set both _patch_indices and _last_patch_positions_px")
        return out

    def assign_value(self, v, env):
        if isinstance(v, ast.List) and not v.elts:
            return ("LIST", None)
        if isinstance(v, ast.Call) and _u(v.func) == "self._obj_shape_full_2d" and len(v.args) == 1 and _u(v.args[0]) == "obj_padding_px":
            return ("SHAPE2", ("H", "W"))
        r = self._tensor_or_scalar(v, env)
        return ("Z", r[1]) if r[0] == "S" else ("T", r[1])

    def chunk_loop(self, s, env, after):
        """for i in range(a, b, step): <locals>; lst.append(tensor)   — no loop-carried locals"""
        if s.orelse or not isinstance(s.target, ast.Name):
            _rej(s, "loop form")
        it = s.iter
        if not (isinstance(it, ast.Call) and _u(it.func) == "range" and len(it.args) == 3 and not it.keywords):
            _rej(s, "loop is not over range(start, stop, step)")
        a, b, st = [self.scalar(x, env) for x in it.args]
        iv = self.fresh("i")
        benv = dict(env)
        benv[s.target.id] = ("Z", iv)
        assigned, appended = set(), []
        for b_ in s.body:
            if isinstance(b_, ast.Assign) and len(b_.targets) == 1 and isinstance(b_.targets[0], ast.Name):
                nm = b_.targets[0].id
                if nm in env:
                    _rej(b_, "loop body re-assigns a name defined before the loop (loop-carried state)")
                benv[nm] = self.assign_value(b_.value, benv)
                assigned.add(nm)
            elif isinstance(b_, ast.Expr) and isinstance(b_.value, ast.Call) and isinstance(b_.value.func, ast.Attribute) and \
                    b_.value.func.attr == "append" and isinstance(b_.value.func.value, ast.Name) and len(b_.value.args) == 1:
                lst = b_.value.func.value.id
                if env.get(lst, ("?",))[0] != "LIST" or env[lst][1] is not None:
                    _rej(b_, "append to something else than a fresh empty list")
                appended.append((lst, self.tensor(b_.value.args[0], benv)))
            else:
                _rej(b_, "loop statement")
        if len(appended) != 1:
            _rej(s, "the loop must append exactly one tensor per iteration")
        used_after = {n.id for st_ in after for n in ast.walk(st_) if isinstance(n, ast.Name)}
        if (assigned | {s.target.id}) & used_after:
            _rej(s, "a loop local is used after the loop")
        lst, t = appended[0]
        names = [self.fresh("p"), self.fresh("a"), self.fresh("b")][:len(t.shape)]
        if len(t.shape) != 3:
            _rej(s, "chunk is not a rank-3 tensor")
        if a != "(0)":
            _rej(s, "range does not start at 0")
        env[lst] = ("CHUNKS", "(map (fun %s => %s) (py_range 0 %s %s))" % (iv, self.tabulate(t, names), b, st))


def tr_need_update(fdef):
    """old = torch.round(self._last_patch_positions_px); new = torch.round(self.scan_positions_px);
    return not torch.equal(old, new)"""
    env = {}

    def ex(e):
        if isinstance(e, ast.Name) and e.id in env:
            return env[e.id]
        if isinstance(e, ast.Attribute) and _u(e) == "self._last_patch_positions_px":
            return ("POS", "cached")
        if isinstance(e, ast.Attribute) and _u(e) == "self.scan_positions_px":
            return ("POS", "current")
        if isinstance(e, ast.Call) and _u(e.func) == "torch.round" and len(e.args) == 1 and not e.keywords:
            a = ex(e.args[0])
            if a[0] != "POS":
                _rej(e, "round")
            return ("RPOS", "(py_round_pos %s)" % a[1])
        if isinstance(e, ast.Call) and _u(e.func) == "torch.equal" and len(e.args) == 2 and not e.keywords:
            a, b = ex(e.args[0]), ex(e.args[1])
            if a[0] != "RPOS" or b[0] != "RPOS":
                _rej(e, "torch.equal of something else than rounded positions")
            return ("B", "(py_equal_zz %s %s)" % (a[1], b[1]))
        if isinstance(e, ast.UnaryOp) and isinstance(e.op, ast.Not):
            a = ex(e.operand)
            if a[0] != "B":
                _rej(e, "not")
            return ("B", "(negb %s)" % a[1])
        _rej(e, "expression")
    for s in _body(fdef):
        if isinstance(s, ast.Assign) and len(s.targets) == 1 and isinstance(s.targets[0], ast.Name):
            env[s.targets[0].id] = ex(s.value)
        elif isinstance(s, ast.Return):
            v = ex(s.value)
            if v[0] != "B":
                _rej(s, "return")
            return v[1]
        else:
            _rej(s, "statement")
    raise Reject("patch_indices_need_update does not return")


def tr_forward(fdef):
    """PtychographyDatasetRaster.forward: the statements that decide WHICH indices / positions are returned"""
    if [a.arg for a in fdef.args.args] != ["self", "batch_indices", "obj_padding_px"]:
        raise Reject("signature of forward changed")
    env = {}
    state = {"constraints": False, "refreshed": False}
    cache = "cache"

    def frac_expr(e, x):
        """element-wise float expression of the positions -> Q code in the element q"""
        if isinstance(e, ast.Name) and e.id == x:
            return "q"
        if isinstance(e, ast.Call) and _u(e.func) == "torch.round" and len(e.args) == 1 and not e.keywords:
            return "(inject_Z (round_half_even %s))" % frac_expr(e.args[0], x)
        if isinstance(e, ast.BinOp) and isinstance(e.op, ast.Sub):
            return "(%s - %s)%%Q" % (frac_expr(e.left, x), frac_expr(e.right, x))
        _rej(e, "fractional-position expression")
    for s in _body(fdef):
        if isinstance(s, ast.Expr) and _u(s.value) == "self.apply_hard_constraints(obj_padding_px)":
            if env:
                _rej(s, "hard constraints applied after the positions were read")
            state["constraints"] = True
            continue
        if isinstance(s, ast.With) and [_u(i.context_expr) for i in s.items] == ["torch.no_grad()"] and len(s.body) == 1:
            s = s.body[0]
        if isinstance(s, ast.If) and _u(s.test) == "self.patch_indices_need_update()":
            if [_u(b) for b in s.body] != ["self._set_patch_indices(obj_padding_px)"] or s.orelse or "patch" in env:
                _rej(s, "cache refresh")
            cache = "(if gen_need_update cached_pos pos then gen_patch_indices H W n m pos else cache)"
            state["refreshed"] = True
            continue
        if isinstance(s, ast.If) and _u(s.test) == "self.learn_descan and self.has_optimizer()":
            ok = all(isinstance(b, ast.Assign) and _u(b.targets[0]) == "descan_shifts" for b in list(s.body) + list(s.orelse))
            if not ok:
                _rej(s, "descan branch touches something else than descan_shifts")
            env["descan_shifts"] = ("D", None)
            continue
        if isinstance(s, ast.Assign) and len(s.targets) == 1 and isinstance(s.targets[0], ast.Name):
            nm, v = s.targets[0].id, s.value
            if _u(v) == "self.scan_positions_px[batch_indices]":
                env[nm] = ("POSB", "(py_take q00 pos batch)")
            elif _u(v) == "self.patch_indices[batch_indices]":
                env[nm] = ("IDX", "(py_take [] %s batch)" % cache)
                env["patch"] = True
            elif isinstance(v, ast.BinOp):
                names = {n.id for n in ast.walk(v) if isinstance(n, ast.Name)} - {"torch"}
                if len(names) != 1 or env.get(list(names)[0], ("?",))[0] != "POSB":
                    _rej(s, "expression of something else than the batch positions")
                fe = frac_expr(v, list(names)[0])
                env[nm] = ("FRAC", "(map (fun p => ((fun q => %s) (fst p), (fun q => %s) (snd p))) %s)" % (fe, fe, env[list(names)[0]][1]), fe)
            else:
                _rej(s, "assignment")
            continue
        if isinstance(s, ast.Return):
            if not (isinstance(s.value, ast.Tuple) and len(s.value.elts) == 4 and all(isinstance(x, ast.Name) for x in s.value.elts)):
                _rej(s, "return")
            vals = [env.get(x.id, ("?",)) for x in s.value.elts]
            if [v[0] for v in vals] != ["IDX", "POSB", "FRAC", "D"]:
                _rej(s, "returned tuple is not (patch indices, positions, fractional positions, descan shifts)")
            if not (state["constraints"] and state["refreshed"]):
                _rej(s, "hard constraints / cache refresh missing")
            return "(%s, %s, %s)" % (vals[0][1], vals[1][1], vals[2][1]), vals[2][2]
        _rej(s, "statement")
    raise Reject("forward does not return")


# =============================================================================================
# D. _set_targets (partial evaluation over the loss-type literals)

SRC_CTOR = {"amplitudes": "Amplitudes", "centered_amplitudes": "CenteredAmplitudes", "intensities": "Intensities",
            "centered_intensities": "CenteredIntensities"}
LOSS_CTOR = {"l2_amplitude": "L2_amplitude", "l1_amplitude": "L1_amplitude", "l2_intensity": "L2_intensity",
             "l1_intensity": "L1_intensity", "poisson": "Poisson"}


def tr_set_targets(fdef):
    if [a.arg for a in fdef.args.args] != ["self", "loss_type"]:
        raise Reject("signature of _set_targets changed")
    ann = fdef.args.args[1].annotation
    if not (isinstance(ann, ast.Subscript) and _u(ann.value) == "Literal"):
        raise Reject("loss_type is no longer annotated with a Literal")
    lits = [c.value for c in (ann.slice.elts if isinstance(ann.slice, ast.Tuple) else [ann.slice])]
    if sorted(lits) != sorted(LOSS_CTOR):
        raise Reject("loss types %s differ from the model's" % lits)

    def cond(e, lt):
        """-> True / False (decided by the literal) or a Gallina bool code"""
        if isinstance(e, ast.Compare) and len(e.ops) == 1 and isinstance(e.comparators[0], (ast.Name, ast.Constant)):
            l, r, op = e.left, e.comparators[0], e.ops[0]
            if isinstance(op, ast.In) and isinstance(l, ast.Constant) and isinstance(l.value, str) and _u(r) == "loss_type":
                return l.value in lt
            if isinstance(op, (ast.Eq, ast.NotEq)) and {_u(l), _u(r)} - {"loss_type"} and "loss_type" in (_u(l), _u(r)):
                other = r if _u(l) == "loss_type" else l
                if isinstance(other, ast.Constant) and isinstance(other.value, str):
                    return (other.value == lt) == isinstance(op, ast.Eq)
            _rej(e, "test on the loss type")
        if isinstance(e, ast.BoolOp):
            vs = [cond(v, lt) for v in e.values]
            isor = isinstance(e.op, ast.Or)
            if any(v is isor for v in vs):
                return isor
            rest = [v for v in vs if not isinstance(v, bool)]
            if not rest:
                return not isor
            return "(" + (" || " if isor else " && ").join(rest) + ")%bool"
        if _u(e) == "self.learn_descan":
            return "learn_descan"
        if _u(e) == "self.has_optimizer()":
            return "has_optimizer"
        _rej(e, "condition")

    def block(stmts, lt, cur, ind):
        if not stmts:
            return ind + "Some %s" % cur
        s, rest = stmts[0], stmts[1:]
        if isinstance(s, ast.Return) and s.value is None:
            return ind + "Some %s" % cur
        if isinstance(s, ast.Raise):
            return ind + "None"
        if isinstance(s, ast.If):
            c = cond(s.test, lt)
            if c is True:
                return block(list(s.body) + rest, lt, cur, ind)
            if c is False:
                return block(list(s.orelse) + rest, lt, cur, ind)
            return (ind + "if %s then\n" % c + block(list(s.body) + rest, lt, cur, ind + "  ") + "\n" + ind + "else\n"
                    + block(list(s.orelse) + rest, lt, cur, ind + "  "))
        if isinstance(s, ast.Assign) and len(s.targets) == 1 and _u(s.targets[0]) == "self._targets":
            v = s.value
            # self.<array>.clone().to(self.device)
            if isinstance(v, ast.Call) and isinstance(v.func, ast.Attribute) and v.func.attr == "to" and [_u(a) for a in v.args] == ["self.device"]:
                v = v.func.value
            if isinstance(v, ast.Call) and isinstance(v.func, ast.Attribute) and v.func.attr == "clone" and not v.args:
                v = v.func.value
            else:
                _rej(s, "targets are not a copy (.clone()) of a stored array")
            if isinstance(v, ast.Attribute) and _u(v.value) == "self" and v.attr in SRC_CTOR:
                return block(rest, lt, "(arrays %s)" % SRC_CTOR[v.attr], ind)
            _rej(s, "targets are not one of the four stored arrays")
        _rej(s, "statement")
    arms = []
    for lit, ctor in LOSS_CTOR.items():
        arms.append("  | %s =>\n%s" % (ctor, block(_body(fdef), lit, "old", "      ")))
    unknown = block(_body(fdef), "some_other_loss", "old", "    ")
    return "\n".join(arms), unknown


# =============================================================================================
# C. detector

def tr_detector(fdef):
    if [a.arg for a in fdef.args.args] != ["self", "exit_waves"]:
        raise Reject("signature of DetectorPixelated.forward changed")
    env = {"exit_waves": ("MODES", "exit_waves")}

    def ex(e):
        if isinstance(e, ast.Name) and e.id in env:
            return env[e.id]
        if isinstance(e, ast.Call):
            f = _u(e.func)
            kw = {k.arg: _u(k.value) for k in e.keywords}
            if f == "torch.fft.fft2" and len(e.args) == 1 and kw == {"norm": "'ortho'"}:
                a = ex(e.args[0])
                if a[0] != "MODES":
                    _rej(e, "fft2 of a non-stack")
                return ("MODES", "(map (py_fft2_ortho rO radd rmul N1 w1 N2 w2 sN) %s)" % a[1])
            if f == "torch.sum" and len(e.args) == 1 and kw == {"dim": "0"}:
                a = ex(e.args[0])
                if a[0] != "MODES":
                    _rej(e, "sum over dim 0 of a non-stack")
                return ("IMG", "(py_sum0 rO radd %s)" % a[1])
            if f == "torch.fft.fftshift" and len(e.args) == 1 and kw.get("dim") in ("(-2, -1)", "(-1, -2)", "[-2, -1]") and len(kw) == 1:
                a = ex(e.args[0])
                if a[0] != "IMG":
                    _rej(e, "fftshift of a stack")
                return ("IMG", "(py_fftshift2 N1 N2 %s)" % a[1])
            _rej(e, "call")
        if isinstance(e, ast.BinOp) and isinstance(e.op, ast.Pow) and isinstance(e.right, ast.Constant) and e.right.value == 2:
            l = e.left
            if isinstance(l, ast.Call) and _u(l.func) == "torch.abs" and len(l.args) == 1 and not l.keywords:
                inner = l.args[0]
            elif isinstance(l, ast.Call) and isinstance(l.func, ast.Attribute) and l.func.attr == "abs" and not l.args:
                inner = l.func.value
            else:
                _rej(e, "square of something else than an absolute value")
            a = ex(inner)
            if a[0] != "MODES":
                _rej(e, "abs ** 2 of a non-stack")
            return ("MODES", "(map (py_abs2 rmul conj) %s)" % a[1])
        _rej(e, "expression")
    for s in _body(fdef):
        if isinstance(s, ast.Assign) and len(s.targets) == 1 and isinstance(s.targets[0], ast.Name):
            env[s.targets[0].id] = ex(s.value)
        elif isinstance(s, ast.Return):
            v = ex(s.value)
            if v[0] != "IMG":
                _rej(s, "return value is not an image")
            return v[1]
        else:
            _rej(s, "statement")
    raise Reject("DetectorPixelated.forward does not return")


# =============================================================================================

def translate(src_root: Path):
    root = src_root / "quantem"
    dm = ast.parse((root / DM).read_text())
    pb = ast.parse((root / PB).read_text())
    dt = ast.parse((root / DT).read_text())
    parts, dumped = [], []

    def take(tree, cls, name):
        f = _find(tree, cls, name)
        dumped.append(ast.dump(f))
        return f

    tt = TensorTr()
    out = tt.set_patch_indices(take(dm, "PtychographyDatasetBase", "_set_patch_indices"))
    parts.append("Definition gen_patch_indices (H W n m : Z) (pos : list (Q * Q)) : list (list (list Z)) :=\n  %s." % out["patch"])
    parts.append("Definition gen_last_positions (pos : list (Q * Q)) : list (Q * Q) := %s." % out["last"])
    nu = tr_need_update(take(dm, "PtychographyDatasetBase", "patch_indices_need_update"))
    parts.append("Definition gen_need_update (cached current : list (Q * Q)) : bool :=\n  %s." % nu)
    fw, fe = tr_forward(take(dm, "PtychographyDatasetRaster", "forward"))
    parts.append("Definition gen_frac (q : Q) : Q := %s." % fe)
    parts.append("Definition gen_forward (H W n m : Z) (cached_pos : list (Q * Q)) (cache : list (list (list Z))) (pos : list (Q * Q)) "
                 "(batch : list Z)\n  : list (list (list Z)) * list (Q * Q) * list (Q * Q) :=\n  %s." % fw)
    # object shape arithmetic
    f = take(dm, "PtychographyDatasetBase", "_obj_shape_crop_2d")
    st = ScalarTr({"#floor_fov_over_sampling": ("Z", "v_F")}, elementwise=True)
    parts.append("Definition gen_obj_shape_crop (v_F : Z) : option Z :=\n%s." % st.block(_body(f), dict(st.env0)))
    f = take(dm, "PtychographyDatasetBase", "_obj_shape_full_2d")
    if [a.arg for a in f.args.args] != ["self", "obj_padding_px"]:
        raise Reject("signature of _obj_shape_full_2d changed")
    st = ScalarTr({"self._obj_shape_rot_2d": ("Z", "v_rshape"), "obj_padding_px": ("Z", "v_pad")}, elementwise=True)
    parts.append("Definition gen_obj_shape_full (v_rshape v_pad : Z) : option Z :=\n%s." % st.block(_body(f), dict(st.env0)))
    f = take(pb, None, "adjust_padding_power2")
    if [a.arg for a in f.args.args] != ["pad", "shape", "power2_level"]:
        raise Reject("signature of adjust_padding_power2 changed")
    st = ScalarTr({"pad": ("V2", ("p0", "p1")), "shape": ("V2", ("s0", "s1")), "power2_level": ("Z", "level")})
    parts.append("Definition gen_adjust_pad (level s0 s1 p0 p1 : Z) : option (Z * Z) :=\n%s." % st.block(_body(f), dict(st.env0)))
    arms, unknown = tr_set_targets(take(dm, "PtychographyDatasetBase", "_set_targets"))
    parts.append("Definition gen_set_targets {A} (lt : loss_type) (learn_descan has_optimizer : bool) (arrays : tsource -> A) (old : A) "
                 ": option A :=\n  match lt with\n%s\n  end." % arms)
    parts.append("Definition gen_set_targets_unknown {A} (learn_descan has_optimizer : bool) (arrays : tsource -> A) (old : A) : option A :=\n%s."
                 % unknown)
    det = tr_detector(take(dt, "DetectorPixelated", "forward"))
    parts.append("Section GenDet.\n  Variable R : Type.\n  Variables (rO : R) (radd rmul : R -> R -> R) (conj : R -> R).\n"
                 "  Variables (N1 : nat) (w1 : Z -> R) (N2 : nat) (w2 : Z -> R) (sN : R).\n"
                 "  Definition gen_detector (exit_waves : list (img R)) : img R :=\n    %s.\nEnd GenDet.\n"
                 "Arguments gen_detector {R} rO radd rmul conj N1 w1 N2 w2 sN exit_waves _ _." % det)
    text = ("(* GENERATED by harness/c02_tie.py from the current source of %s, %s, %s — do not edit *)\n"
            "From QV.lib Require Import Prelude FinSum DFT DFT2 C02_TieLib.\nFrom QV.model Require Import C02_Model.\n"
            "From Coq Require Import QArith.\nLocal Close Scope Q_scope.\nLocal Open Scope Z_scope.\n\n" % (DM, PB, DT)
            + "\n\n".join(parts) + "\n")
    info = {"ast_sha256": hashlib.sha256("".join(dumped).encode()).hexdigest(),
            "generated_sha256": hashlib.sha256(text.encode()).hexdigest(), "functions": 8}
    return text, info


# =============================================================================================
# cross-test of the translator against the real functions

PRE_X = ("From QV.lib Require Import Prelude C02_TieLib.\nFrom QV.model Require Import C02_Model.\nFrom GenC02 Require Import Gen_C02.\n"
         "From Coq Require Import QArith.\nLocal Close Scope Q_scope.\nLocal Open Scope Z_scope.\n"
         "Definition qnd (q : Q) : Z * Z := (Qnum (Qred q), Z.pos (Qden (Qred q))).\n"
         "Definition qnd4 (p : Q * Q) : list Z := [fst (qnd (fst p)); snd (qnd (fst p)); fst (qnd (snd p)); snd (qnd (snd p))].\n"
         "Definition src_id (s : tsource) : Z := match s with Amplitudes => 0 | CenteredAmplitudes => 1 | Intensities => 2 | "
         "CenteredIntensities => 3 end.\n")


def _q32(x):
    import numpy as np
    return Fraction(*float(np.float32(x)).as_integer_ratio())


def _poslist(pos):
    return "[" + "; ".join("(%s, %s)" % (cq(_q32(a)), cq(_q32(b))) for a, b in pos) + "]"


def cross_test(ctx: Ctx, rng: random.Random, n_small=None):
    """-> list of mismatch descriptions"""
    import numpy as np
    import torch
    from types import SimpleNamespace
    from quantem.diffractive_imaging.dataset_models import PtychographyDatasetBase as Base, PtychographyDatasetRaster as Raster
    from quantem.diffractive_imaging import ptychography_base as PBm

    exprs, wants, labels = [], [], []

    def stub(pos, roi, H, W):
        s = SimpleNamespace(scan_positions_px=torch.tensor(pos, dtype=torch.float32).reshape(-1, 2), roi_shape=np.array(roi),
                            device="cpu", _obj_shape_full_2d=lambda pad, H=H, W=W: np.array([H, W]))
        return s
    n_small = n_small or ctx.budget(18, 80)
    for k in range(n_small):
        roi = (rng.randint(1, 7), rng.randint(1, 7))
        H, W = rng.randint(1, 40), rng.randint(1, 40)
        if k % 6 == 5:
            H, W = rng.choice([(70000, 70000), (50000, 46341), (3, 2 ** 31 - 1)])      # H * W >= 2**31: int32 wrap
        npos = rng.choice([1, 2, 3, 5]) if k % 24 else rng.choice([1001, 1001, 1003] if ctx.quick else [1000, 1001, 2001, 3500])      # > 1000: more than one chunk
        if npos > 100:
            roi = (rng.randint(1, 2), rng.randint(1, 2))
        pos = [[rng.choice([rng.uniform(0, H - 1), rng.randint(0, H - 1) + 0.5, rng.randint(0, H - 1)]),
                rng.choice([rng.uniform(0, W - 1), rng.randint(0, W - 1) + 0.5, rng.uniform(-3, W + 3)])] for _ in range(npos)]
        pos = np.asarray(pos, dtype=np.float32).tolist()
        s = stub(pos, roi, H, W)
        Base._set_patch_indices(s, (0, 0))
        got = s._patch_indices.numpy().astype(np.int64)
        last_ok = bool(torch.equal(s._last_patch_positions_px, s.scan_positions_px))
        if npos > 100:
            # compare inside Coq against the expected blocks of a few sampled positions (printing is the cost)
            pick = sorted(rng.sample(range(npos), 3) + [0, npos - 1, 999 if npos > 999 else 0, 1000 if npos > 1000 else 0])
            exprs.append("(let g := gen_patch_indices %s %s %s %s %s in (lenZ g, map (nthZ [] g) %s))" % (
                cz(H), cz(W), cz(roi[0]), cz(roi[1]), _poslist(pos), "[" + "; ".join(cz(p) for p in pick) + "]"))
            wants.append((npos, [got[p].tolist() for p in pick]))
        else:
            exprs.append("gen_patch_indices %s %s %s %s %s" % (cz(H), cz(W), cz(roi[0]), cz(roi[1]), _poslist(pos)))
            wants.append(got.tolist())
        labels.append("_set_patch_indices(H=%d, W=%d, roi=%s, %d positions)%s" % (H, W, roi, npos, "" if last_ok else " [last positions not stored]"))
        if not last_ok:
            wants[-1] = "last-positions-not-a-copy"
        # need_update + forward on a dataset stub with a (possibly stale) cache
        if npos <= 5:
            pos2 = [[a + rng.choice([0.0, 0.0, 0.3, -0.6, 1.0]), b + rng.choice([0.0, 0.0, 0.45, -1.0])] for a, b in pos]
            pos2 = np.asarray(pos2, dtype=np.float32).tolist()
            s2 = stub(pos2, roi, H, W)
            s2._last_patch_positions_px = torch.tensor(pos, dtype=torch.float32).reshape(-1, 2)
            nu = bool(Base.patch_indices_need_update(s2))
            exprs.append("gen_need_update %s %s" % (_poslist(pos), _poslist(pos2)))
            wants.append(nu)
            labels.append("patch_indices_need_update(%s -> %s)" % (pos, pos2))
            # forward: cache = indices of `pos` (as left by the call above), current positions pos2
            s2._patch_indices = s._patch_indices.clone()
            s2.patch_indices = s2._patch_indices
            s2.apply_hard_constraints = lambda pad: None
            s2.patch_indices_need_update = lambda s2=s2: Base.patch_indices_need_update(s2)

            def _spi(pad, s2=s2):
                Base._set_patch_indices(s2, pad)
                s2.patch_indices = s2._patch_indices
            s2._set_patch_indices = _spi
            s2.learn_descan = False
            s2.has_optimizer = lambda: False
            batch = [rng.randrange(npos) for _ in range(rng.randint(1, 3))]
            pi, pp, fr, ds = Raster.forward(s2, np.asarray(batch), (0, 0))
            exprs.append("(let r := gen_forward %s %s %s %s %s (gen_patch_indices %s %s %s %s %s) %s %s in "
                         "(fst (fst r), map qnd4 (snd (fst r)), map qnd4 (snd r)))" % (
                             cz(H), cz(W), cz(roi[0]), cz(roi[1]), _poslist(pos), cz(H), cz(W), cz(roi[0]), cz(roi[1]), _poslist(pos),
                             _poslist(pos2), "[" + "; ".join(cz(b) for b in batch) + "]"))

            def qq(t):
                return [[f.numerator, f.denominator, g.numerator, g.denominator] for f, g in
                        ((_q32(a), _q32(b)) for a, b in t.detach().numpy().tolist())]
            wants.append((pi.numpy().astype(np.int64).tolist(), qq(pp), qq(fr)))
            labels.append("forward(cache of %s, positions %s, batch %s)" % (pos, pos2, batch))
    # shape arithmetic
    for k in range(ctx.budget(25, 120)):
        F = rng.randint(0, 400)
        fake = SimpleNamespace(fov=np.array([float(F) + rng.choice([0.0, 0.25, 0.9]), 3.0]), obj_sampling=np.array([1.0, 1.0]))
        got = Base._obj_shape_crop_2d.fget(fake)
        exprs.append("match gen_obj_shape_crop %s with Some v => v | None => -1 end" % cz(F))
        wants.append(int(got[0]))
        labels.append("_obj_shape_crop_2d(floor(fov/sampling)=%d)" % F)
        rs, pad = rng.randint(0, 300), rng.randint(0, 50)
        fake = SimpleNamespace(_obj_shape_rot_2d=np.array([rs, 8]))
        got = Base._obj_shape_full_2d(fake, (pad, 1))
        exprs.append("match gen_obj_shape_full %s %s with Some v => v | None => -1 end" % (cz(rs), cz(pad)))
        wants.append(int(got[0]))
        labels.append("_obj_shape_full_2d(%d, pad %d)" % (rs, pad))
        lvl = rng.randint(0, 5)
        s0, s1, p0, p1 = rng.randint(1, 200), rng.randint(1, 200), rng.randint(0, 40), rng.randint(0, 40)
        try:
            got = PBm.adjust_padding_power2(np.array([p0, p1], dtype="int16"), np.array([s0, s1]), lvl)
            want = [int(got[0]), int(got[1])]
        except ValueError:
            want = []
        exprs.append("match gen_adjust_pad %s %s %s %s %s with Some (a, b) => [a; b] | None => [] end" % (cz(lvl), cz(s0), cz(s1), cz(p0), cz(p1)))
        wants.append(want)
        labels.append("adjust_padding_power2(pad=(%d,%d), shape=(%d,%d), level=%d)" % (p0, p1, s0, s1, lvl))
    # _set_targets on a stub whose four arrays are distinguishable, with a stale buffer
    for lit, ctor in LOSS_CTOR.items():
        for learn in (False, True):
            for opt in (False, True):
                fake = SimpleNamespace(learn_descan=learn, has_optimizer=lambda opt=opt: opt, device="cpu",
                                       amplitudes=torch.tensor([0.0]), centered_amplitudes=torch.tensor([1.0]),
                                       intensities=torch.tensor([2.0]), centered_intensities=torch.tensor([3.0]),
                                       _targets=torch.tensor([9.0]))
                # a buffer left by an EARLIER call for the same loss with other array contents
                Base._set_targets(fake, lit)
                fake.amplitudes, fake.centered_amplitudes = torch.tensor([10.0]), torch.tensor([11.0])
                fake.intensities, fake.centered_intensities = torch.tensor([12.0]), torch.tensor([13.0])
                Base._set_targets(fake, lit)
                exprs.append("match gen_set_targets %s %s %s (fun s => 10 + src_id s) 9 with Some v => v | None => -1 end" % (
                    ctor, str(learn).lower(), str(opt).lower()))
                wants.append(int(fake._targets[0]))
                labels.append("_set_targets(%s, learn_descan=%s, has_optimizer=%s) called twice with changed arrays" % (lit, learn, opt))
    fake = SimpleNamespace(learn_descan=False, has_optimizer=lambda: False, device="cpu", _targets=torch.tensor([9.0]))
    try:
        Base._set_targets(fake, "l3_nothing")
        want = 9
    except ValueError:
        want = -1
    exprs.append("match gen_set_targets_unknown false false (fun s => 10 + src_id s) 9 with Some v => v | None => -1 end")
    wants.append(want)
    labels.append("_set_targets('l3_nothing')")
    tx = time.time()
    vals = ctx.coq_eval("tie_x", PRE_X, exprs, shard=110, extra_flags=["-Q", str(ctx.dir), "GenC02"])
    ctx.cov.setdefault("translator_tie", {})["cross_test_coq_s"] = round(time.time() - tx, 2)
    bad = []

    def canon(v):
        if isinstance(v, (list, tuple)):
            return [canon(x) for x in v]
        return v
    for lab, w, v in zip(labels, wants, vals):
        ctx.cov["traces_validated_against_impl"] += 1
        ctx.dist("translator-cross-test/%s" % lab.split("(")[0])
        if canon(v) != canon(w):
            bad.append("%s: translated function gives %s, the real function %s" % (lab, str(v)[:200], str(w)[:200]))
    return bad, len(exprs)


# =============================================================================================

def run_tie(ctx: Ctx, rng: random.Random) -> bool:
    t0 = time.time()
    rec = {"status": "ok"}
    ctx.cov["translator_tie"] = rec
    for s in TRUSTED:
        if s not in ctx.cov["trusted_base"]:
            ctx.cov["trusted_base"].append(s)
    saved_cmd = ctx.cov.get("checker_cmd", "")
    saved_problems = list(getattr(ctx, "_proof_problems", []))
    problems = []
    props = GEN_DIR / "C02_GenProperties.v"
    script = GEN_DIR / "C02_GenProofs.v"

    def not_checked(why):
        import re
        ths = re.findall(r"(?m)^\s*Theorem\s+(\w+)", props.read_text())
        ctx.cov["obligations"] += len(ths)
        for t in ths:
            ctx.cov["theorems"][t] = "NOT CHECKED (%s)" % why

    try:
        text, info = translate(SRC)
        rec.update(info)
    except Reject as e:
        problems.append("translator tie: the model of the index / dispatch logic can no longer be tied to the source: the translator "
                        "(fail closed) rejected it: %s" % e)
        not_checked("translator rejected the source")
        text = None
    except (OSError, SyntaxError) as e:
        problems.append("translator tie: source unreadable: %s" % e)
        not_checked("source unreadable")
        text = None
    if text is not None:
        gen = ctx.dir / "Gen_C02.v"
        for stale in (gen.with_suffix(".vo"), ctx.dir / "C02_GenProofs.vo", ctx.dir / "C02_GenProperties.vo"):
            if stale.exists():
                stale.unlink()
        gen.write_text(text)
        rec["generated_file"] = str(gen)
        flags = COQ_FLAGS + ["-Q", str(ctx.dir), "GenC02"]
        bad = ctx.static_scan([gen, script, props])
        if bad:
            problems.append("forbidden declarations: %s" % bad[:5])
        rc, out = ctx.coq_make(["lib/C02_TieLib.vo", "proof/C02_Proofs_Index.vo", "proof/C02_Proofs_Geom.vo"])
        if rc != 0:
            problems.append("translator tie: library build failed:\n" + "\n".join(out.strip().splitlines()[-10:]))
        rc, out = sh(["timeout", "300", "coqc"] + flags + [str(gen)], cwd=ctx.dir, timeout=330)
        if rc != 0:
            problems.append("translator tie: generated file Gen_C02.v does not compile:\n" + "\n".join(out.strip().splitlines()[-12:]))
            not_checked("generated file does not compile")
        else:
            # the fixed proof script (pure subprocess) runs while the cross-test evaluates the translated functions
            import threading
            box = {}

            def _proofs():
                box["r"] = sh(["timeout", "300", "coqc"] + flags + ["-o", str(ctx.dir / "C02_GenProofs.vo"), str(script)],
                              cwd=ctx.dir, timeout=330)
            th = threading.Thread(target=_proofs)
            th.start()
            try:
                xbad, nx = cross_test(ctx, rng)
                rec["cross_test"] = {"expressions": nx, "mismatches": len(xbad)}
                if xbad:
                    problems.append("translator cross-test: %d of %d evaluations of the translated functions differ from the real "
                                    "functions (translator or fixed-meaning error): %s" % (len(xbad), nx, "; ".join(xbad[:3])))
            except Exception as e:  # noqa: BLE001
                problems.append("translator cross-test could not run: %s: %s" % (type(e).__name__, str(e)[-600:]))
            th.join()
            rc, out = box.get("r", (1, "proof script thread died"))
            if rc != 0:
                from .arith_tie import _enclosing_lemma
                problems.append("translator tie: the functions translated from the current source no longer equal the model "
                                "(coq/model/C02_Model.v): fixed proof script C02_GenProofs.v fails in lemma `%s`:\n%s" % (
                                    _enclosing_lemma(script, out), "\n".join(out.strip().splitlines()[-10:])))
                not_checked("fixed proof script fails")
            elif not ctx.require_proofs(props_name="C02_GenProperties", props_path=props,
                                        extra_flags=["-Q", str(ctx.dir), "GenC02"], make_targets=[]):
                problems += ["translator tie: " + p for p in ctx._proof_problems]
    ctx._proof_problems = saved_problems
    ctx.cov["checker_cmd"] = (saved_cmd + "  ;  python -m harness.c02_tie > build/C02/Gen_C02.v && coqc ... Gen_C02.v && "
                              "coqc ... coq/gen_proofs/C02_GenProofs.v && coqc ... coq/gen_proofs/C02_GenProperties.v")
    rec["wall_s"] = round(time.time() - t0, 2)
    if problems:
        rec["status"] = "broken"
        rec["problems"] = [p[:1500] for p in problems]
        msg = "; ".join(problems)
        ctx.broken_obligation = (ctx.broken_obligation + "; " + msg) if ctx.broken_obligation else msg
        ctx.log("PROOF OBLIGATION BROKEN (translator tie):", msg[:2500])
        return False
    ctx.log("translator tie: 8 functions of the current source tied by theorem to the model; cross-test %s (%.1fs)" % (
        rec.get("cross_test"), rec["wall_s"]))
    return True


if __name__ == "__main__":
    import sys
    try:
        sys.stdout.write(translate(SRC)[0])
    except Reject as e:
        print("REJECTED:", e)
        sys.exit(1)
