"""entry point: python -m harness.run_check Cxx [--tier quick|thorough] [--replay path]"""
from __future__ import annotations

import argparse
import importlib
import os
import sys
import traceback

from .common import Ctx


def main():
    ap = argparse.ArgumentParser()
    ap.add_argument("prop")
    ap.add_argument("--tier", default=os.environ.get("VERIF_TIER") or "quick", choices=["quick", "thorough"])
    ap.add_argument("--replay", default=None)
    ap.add_argument("--seed", type=int, default=None)
    a = ap.parse_args()
    seed = a.seed if a.seed is not None else int(os.environ.get("VERIF_SEED") or 0)
    ctx = Ctx(a.prop, a.tier, seed)
    try:
        mod = importlib.import_module("harness.props." + a.prop)
    except ModuleNotFoundError:
        print("no check for property %s" % a.prop)
        return 2
    try:
        if a.replay:
            rc = mod.replay(ctx, a.replay)
            return int(rc or 0)
        mod.run(ctx)
    except Exception:
        # machinery failure or the implementation crashing in the harness: fail closed, but
        # name it as what it is (the tie between model and code could not be established)
        tb = traceback.format_exc()
        print(tb)
        ctx.violation("harness-exception", "check could not complete: " + tb.strip().splitlines()[-1],
                      {"traceback": tb}, found_input=False)
    return ctx.finish(getattr(mod, "LEVEL", "proof"))


if __name__ == "__main__":
    sys.exit(main())
