"""translate_C03.py — fail-closed Python-`ast` -> Gallina translator for the bookkeeping that
coq/model/C03_Model.v transcribes by hand (the tie itself — compile, prove, cross-test — is in
harness/c03_tie.py):

  Dataset.__getitem__     -> gen_getitem_meta / gen_getitem_meta_bare  (index normalisation, Ellipsis
                             expansion, kept axes, placement of the index-array axis, origin / sampling /
                             units selection, step scaling, class by ndim; `res`: x[-1] / min() may raise)
  @register_dimension(k)  -> gen_registry        (structural: the decorators of dataset2d/3d/4d/4dstem.py)
  Dataset._normalize_axes -> gen_normalize_axes  (one case per constructor of the model's `axesarg`)
  validate_ndinfo / validate_units -> gen_validate_ndinfo / gen_validate_units (one case per constructor of
                             `numarg` / `unitsarg`; the library calls get the fixed meanings of ABSTRACT below)
  origin / sampling / units setters -> gen_setters (structural: which validator, which argument, which field)
  pad / crop / bin / fourier_resample -> gen_<op>_tail (structural: the assignments of the in-place and of the
                             copying variant as lists of `eff`, C03_PyLib.v)

The translator is a symbolic evaluator: every Python assignment becomes a `let` with a fresh name (the
fixed proof script starts with `cbv zeta`, so local names and the order of independent statements do
not matter), type tests on the ARGUMENT are decided per constructor case, an `if` whose branches only
assign becomes one conditional per variable, any other `if` copies the rest of the block into both
branches, `for` becomes fold_left over the variables the body re-assigns.  Operands of `+` are sorted.
Anything outside the grammar raises Reject."""
from __future__ import annotations

import ast
import hashlib
from pathlib import Path

DS = "core/datastructures/dataset.py"
VAL = "core/utils/validators.py"
SUBCLASS_FILES = [("core/datastructures/dataset2d.py", "Dataset2d", "D2"), ("core/datastructures/dataset3d.py", "Dataset3d", "D3"),
                  ("core/datastructures/dataset4d.py", "Dataset4d", "D4"), ("core/datastructures/dataset4dstem.py", "Dataset4dstem", "D4stem")]

COQTY = {"N": "nat", "Z": "Z", "B": "bool", "Q": "Q", "ITEM": "index", "IDX": "list index", "LN": "list nat",
         "LZ": "list Z", "LQ": "list Q", "LS": "list string", "CLS": "tag", "OZ": "option Z"}


class Reject(Exception):
    pass


class NotSimple(Exception):
    """a block that cannot be written as straight-line lets (it raises, returns or binds)"""


def rej(node, why):
    src = ""
    try:
        src = ast.unparse(node)[:110] if node is not None else ""
    except Exception:  # noqa: BLE001
        pass
    raise Reject("%s at line %s: %s" % (why, getattr(node, "lineno", "?"), src))


class V:
    """abstract value: ty in COQTY (symbolic, `code` is a Gallina term) or a static kind:
    none / ell / cbool / cint / cstr / ctuple / opaque / arrview / absarr / self / res:<ty> / types"""

    def __init__(self, ty, code=None, py=None, **meta):
        self.ty, self.code, self.py, self.meta = ty, code, py, meta

    def static(self):
        return self.ty in ("none", "ell", "cbool", "cint", "cstr", "ctuple")

    def __repr__(self):
        return "V(%s,%s,%r)" % (self.ty, self.code, self.py)


def atom(code):
    return code.replace("_", "a").replace("%", "a").replace(".", "a").isalnum()


def par(code):
    return code if atom(code) else "(" + code + ")"


ERRS = {"TypeError": "TypeErr", "ValueError": "ValueErr", "IndexError": "IndexErr", "KeyError": "OtherErr",
        "RuntimeError": "OtherErr", "AssertionError": "OtherErr"}


class Ev:
    def __init__(self, registry_name="gen_registry"):
        self.n = 0
        self.registry_name = registry_name
        self.ret_ty = None

    def fresh(self, hint="x"):
        self.n += 1
        return "%s_%d" % (hint, self.n)

    # ------------------------------------------------------------------ integer helpers
    @staticmethod
    def as_Z(v):
        if v.ty == "cint":
            return "%d" % v.py if v.py >= 0 else "(%d)" % v.py
        if v.ty == "N":
            return "Z.of_nat %s" % par(v.code)
        if v.ty == "Z":
            return v.code
        raise Reject("not an integer: %r" % v)

    @staticmethod
    def as_N(v):
        if v.ty == "cint" and v.py >= 0:
            return "%d" % v.py
        if v.ty == "N":
            return v.code
        raise Reject("not a non-negative integer: %r" % v)

    # ------------------------------------------------------------------ expressions
    def ev(self, e, env, facts, pre):
        f = getattr(self, "e_" + type(e).__name__, None)
        if f is None:
            rej(e, "expression kind %s" % type(e).__name__)
        return f(e, env, facts, pre)

    def e_Name(self, e, env, facts, pre):
        if e.id == "Ellipsis":
            return V("ell")
        if e.id in env:
            return env[e.id]
        if e.id in ("int", "float", "slice", "tuple", "list", "str"):
            return V("types", py={e.id})
        if e.id == "Dataset":
            return V("CLS", "Generic")
        rej(e, "unknown name")

    def e_Constant(self, e, env, facts, pre):
        v = e.value
        if v is None:
            return V("none")
        if v is Ellipsis:
            return V("ell")
        if isinstance(v, bool):
            return V("cbool", py=v)
        if isinstance(v, int):
            return V("cint", py=v)
        if isinstance(v, str):
            return V("cstr", py=v)
        rej(e, "constant")

    def e_JoinedStr(self, e, env, facts, pre):
        return V("opaque")

    def e_Tuple(self, e, env, facts, pre):
        vs = [self.ev(x, env, facts, pre) for x in e.elts]
        if all(v.ty == "types" for v in vs):
            return V("types", py=set().union(*[v.py for v in vs]))
        if len(vs) == 1 and vs[0].ty == "ITEM":
            return V("IDX", "[%s]" % vs[0].code)
        if len(vs) == 1 and vs[0].ty == "Z":
            return V("LZ", "[%s]" % vs[0].code)
        if len(vs) == 1 and vs[0].ty == "fullslice":
            return V("IDX", "[full]")
        if all(v.static() for v in vs):
            return V("ctuple", py=vs)
        rej(e, "tuple")

    def e_Attribute(self, e, env, facts, pre):
        dotted = ast.unparse(e)
        if dotted in ("np.ndarray", "np.integer", "np.number"):
            return V("types", py={dotted})
        base = self.ev(e.value, env, facts, pre)
        if base.ty == "self":
            if e.attr in env.get("__self__", {}):
                return env["__self__"][e.attr]
            if e.attr in ("name", "signal_units"):
                return V("opaque")
            if e.attr == "_registry":
                return V("registry")
            rej(e, "attribute of self")
        if base.ty == "arrview" and e.attr == "ndim":
            return env["__out_ndim__"]
        if base.ty == "ITEM" and e.attr == "step":
            if ("is_slice", base.code) not in facts:
                rej(e, ".step of something not known to be a slice")
            return V("OZ", "slice_step %s" % par(base.code), item=base.code)
        if base.ty == "absarr" and e.attr == "dtype":
            return V("dtype", numeric=base.meta["numeric"])
        rej(e, "attribute")

    def e_UnaryOp(self, e, env, facts, pre):
        if isinstance(e.op, ast.Not):
            v = self.ev(e.operand, env, facts, pre)
            if v.ty == "cbool":
                return V("cbool", py=not v.py)
            if v.ty == "B":
                pos, neg = v.meta.get("facts", (set(), set()))
                return V("B", "negb %s" % par(v.code), facts=(neg, pos))
            rej(e, "not of a non-boolean")
        if isinstance(e.op, ast.USub):
            v = self.ev(e.operand, env, facts, pre)
            if v.ty == "cint":
                return V("cint", py=-v.py)
        rej(e, "unary operator")

    def e_BoolOp(self, e, env, facts, pre):
        is_and = isinstance(e.op, ast.And)
        parts, fs, pos_all = [], set(facts), set()
        for x in e.values:
            v = self.ev(x, env, fs, pre)
            if v.ty == "cbool":
                if v.py != is_and:          # False in `and` / True in `or`: decided
                    return V("cbool", py=v.py)
                continue
            if v.ty != "B":
                rej(x, "boolean operator on a non-boolean")
            parts.append(v.code)
            if is_and:
                pos = v.meta.get("facts", (set(), set()))[0]
                fs |= pos
                pos_all |= pos
        if not parts:
            return V("cbool", py=is_and)
        if len(parts) == 1:
            return V("B", parts[0], facts=(pos_all, set()))
        return V("B", (" && " if is_and else " || ").join(par(p) for p in parts), facts=(pos_all, set()))

    def e_IfExp(self, e, env, facts, pre):
        c = self.cond(e.test, env, facts, pre)
        if c.ty == "cbool":
            return self.ev(e.body if c.py else e.orelse, env, facts, pre)
        if c.ty != "B":
            rej(e, "condition")
        pos, neg = c.meta.get("facts", (set(), set()))
        a = self.ev(e.body, env, facts | pos, pre)
        b = self.ev(e.orelse, env, facts | neg, pre)
        return self.merge(c.code, a, b, e)

    def merge(self, ccode, a, b, node):
        if a.ty == "cint" and b.ty in ("N", "cint"):
            a = V("N", self.as_N(a))
        if b.ty == "cint" and a.ty == "N":
            b = V("N", self.as_N(b))
        if a.ty != b.ty or a.ty not in COQTY:
            rej(node, "branches of different kinds (%s / %s)" % (a.ty, b.ty))
        if a.code == b.code:
            return a
        return V(a.ty, "if %s then %s else %s" % (ccode, a.code, b.code), **a.meta)

    # -- arithmetic: sums are flattened and their operands sorted
    def flat_sum(self, e, env, facts, pre):
        if isinstance(e, ast.BinOp) and isinstance(e.op, ast.Add):
            return self.flat_sum(e.left, env, facts, pre) + self.flat_sum(e.right, env, facts, pre)
        return [self.ev(e, env, facts, pre)]

    def e_BinOp(self, e, env, facts, pre):
        if isinstance(e.op, ast.BitOr):
            a, b = self.ev(e.left, env, facts, pre), self.ev(e.right, env, facts, pre)
            if a.ty == b.ty == "types":
                return V("types", py=a.py | b.py)
            rej(e, "|")
        if isinstance(e.op, ast.Add):
            vs = self.flat_sum(e, env, facts, pre)
            if all(v.ty in ("IDX", "LN") for v in vs) and len({v.ty for v in vs}) == 1:
                return V(vs[0].ty, " ++ ".join(par(v.code) for v in vs))      # ++ is right associative
            if all(v.ty in ("N", "cint") for v in vs) and all(v.ty == "N" or v.py >= 0 for v in vs):
                syms = sorted(par(v.code) for v in vs if v.ty == "N")
                c = sum(v.py for v in vs if v.ty == "cint")
                return V("N", " + ".join(syms + (["%d" % c] if c else [])))
            if all(v.ty in ("N", "Z", "cint") for v in vs):
                syms = sorted(par(self.as_Z(v)) for v in vs if v.ty != "cint")
                c = sum(v.py for v in vs if v.ty == "cint")
                return V("Z", "(%s)%%Z" % " + ".join(syms + (["%d" % c] if c else [])))
            rej(e, "+")
        a, b = self.ev(e.left, env, facts, pre), self.ev(e.right, env, facts, pre)
        if isinstance(e.op, ast.Sub) and a.ty in ("N", "Z", "cint") and b.ty in ("N", "Z", "cint"):
            if a.ty == b.ty == "cint":
                return V("cint", py=a.py - b.py)
            return V("Z", "(%s - %s)%%Z" % (par(self.as_Z(a)), par(self.as_Z(b))))
        if isinstance(e.op, ast.Mult):
            if b.ty in ("IDX", "LS") and a.ty in ("N", "Z", "cint"):
                a, b = b, a
            if a.ty in ("IDX", "LS") and a.meta.get("single") is not None:
                k = self.as_N(b) if b.ty in ("N", "cint") else "Z.to_nat %s" % par(b.code)
                return V(a.ty, "repeat %s %s" % (par(a.meta["single"]), par(k)))
        rej(e, "binary operator")

    def e_Compare(self, e, env, facts, pre):
        if len(e.ops) != 1:
            rej(e, "chained comparison")
        op = e.ops[0]
        a = self.ev(e.left, env, facts, pre)
        b = self.ev(e.comparators[0], env, facts, pre)
        neg = isinstance(op, (ast.IsNot, ast.NotIn, ast.NotEq))

        def out_static(val):
            return V("cbool", py=(not val) if neg else val)

        def out(code, fact=None):
            pos = {fact} if fact else set()
            if neg:
                return V("B", "negb %s" % par(code), facts=(set(), pos))
            return V("B", code, facts=(pos, set()))

        if isinstance(op, (ast.Is, ast.IsNot)):
            if b.ty == "none":
                if a.ty == "none":
                    return out_static(True)
                if a.ty in COQTY or a.ty in ("pyval",):
                    return out_static(False)
            if b.ty == "ell" and a.ty == "ITEM":
                return out("is_ell %s" % par(a.code))
            if b.ty == "cbool" and a.ty == "cbool":
                return out_static(a.py == b.py)
            rej(e, "is")
        if isinstance(op, (ast.In, ast.NotIn)):
            if a.ty == "ell" and b.ty == "IDX":
                return out("existsb is_ell %s" % par(b.code), ("ell_in", b.code))
            if a.ty == "N" and b.ty == "LN":
                return out("existsb (Nat.eqb %s) %s" % (par(a.code), par(b.code)), ("in", a.code, b.code))
            if a.ty == "OZ" and b.ty == "ctuple" and all(x.ty in ("none", "cint") for x in b.py):
                lst = "; ".join("None" if x.ty == "none" else "Some %s%%Z" % self.as_Z(x) for x in b.py)
                v = out("oz_in %s [%s]" % (par(a.code), lst))
                if neg and any(x.ty == "none" for x in b.py):
                    v.meta["facts"] = ({("step_not_none", a.meta.get("item"))}, set())
                return v
            rej(e, "in")
        if a.ty in ("N", "Z", "cint") and b.ty in ("N", "Z", "cint"):
            if a.ty == b.ty == "cint":
                import operator
                fn = {ast.Lt: operator.lt, ast.LtE: operator.le, ast.Gt: operator.gt, ast.GtE: operator.ge,
                      ast.Eq: operator.eq, ast.NotEq: operator.ne}.get(type(op))
                if fn is None:
                    rej(e, "comparison operator")
                return V("cbool", py=fn(a.py, b.py))
            if isinstance(op, (ast.Gt, ast.GtE)):
                a, b, op = b, a, (ast.Lt() if isinstance(op, ast.Gt) else ast.LtE())
            allN = all(v.ty == "N" or (v.ty == "cint" and v.py >= 0) for v in (a, b))
            conv = self.as_N if allN else self.as_Z
            x, y = par(conv(a)), par(conv(b))
            if isinstance(op, (ast.Eq, ast.NotEq)):
                x, y = (x, y) if (allN or x <= y or True) else (y, x)
                code = "%s =? %s" % (x, y)
            elif isinstance(op, ast.Lt):
                code = "%s <? %s" % (x, y)
            elif isinstance(op, ast.LtE):
                code = "%s <=? %s" % (x, y)
            else:
                rej(e, "comparison operator")
            return out(code if allN else "(%s)%%Z" % code)
        rej(e, "comparison")

    def e_Subscript(self, e, env, facts, pre):
        a = self.ev(e.value, env, facts, pre)
        sl = e.slice
        if a.ty == "selfarray":
            k = self.ev(sl, env, facts, pre)
            if k.meta.get("raw_param"):
                return V("arrview")
            rej(e, "self.array indexed by something else than the index argument")
        if a.ty == "registry":
            k = self.ev(sl, env, facts, pre)
            return V("reglookup", self.as_N(k))
        if isinstance(sl, ast.Slice):
            if sl.step is not None or a.ty not in ("IDX", "LN"):
                rej(e, "slice")
            if sl.lower is None and sl.upper is not None:
                k = self.ev(sl.upper, env, facts, pre)
                return V(a.ty, "firstn %s %s" % (par(self.as_N(k)), par(a.code)))
            if sl.upper is None and sl.lower is not None:
                k = self.ev(sl.lower, env, facts, pre)
                return V(a.ty, "skipn %s %s" % (par(self.as_N(k)), par(a.code)))
            rej(e, "slice form")
        k = self.ev(sl, env, facts, pre)
        if a.ty == "LN" and k.ty == "cint" and k.py in (0, -1):
            v = self.fresh("e")
            pre.append(("bind", v, "%s %s" % ("py_first" if k.py == 0 else "py_last", par(a.code))))
            return V("N", v)
        if a.ty == "IDX" and k.ty == "N":
            return V("ITEM", "nth %s %s full" % (par(k.code), par(a.code)))
        if a.ty == "LS" and k.ty == "N":
            return V("S", "nth %s %s \"\"%%string" % (par(k.code), par(a.code)))
        if a.ty == "LQ" and k.ty == "LN":
            return V("LQ", "py_getq %s %s %s" % (a.meta.get("dflt", "0%Q"), par(a.code), par(k.code)))
        rej(e, "subscript")

    def comp(self, e, env, facts, pre):
        """list comprehension / generator -> (V of a list, kind) ; kind 'bools' for sum(cond for ...)"""
        if len(e.generators) != 1 or e.generators[0].is_async:
            rej(e, "comprehension with several generators")
        g = e.generators[0]
        it = g.iter
        env2 = dict(env)
        if isinstance(it, ast.Call) and ast.unparse(it.func) == "enumerate" and len(it.args) == 1:
            seq = self.ev(it.args[0], env, facts, pre)
            if seq.ty != "IDX" or not (isinstance(g.target, ast.Tuple) and len(g.target.elts) == 2
                                       and all(isinstance(t, ast.Name) for t in g.target.elts)):
                rej(e, "enumerate comprehension")
            iname, xname = g.target.elts[0].id, g.target.elts[1].id
            if not (isinstance(e.elt, ast.Name) and e.elt.id == iname):
                rej(e, "enumerate comprehension that does not collect the position")
            xv = self.fresh("idx")
            env2[xname] = V("ITEM", xv)
            env2.pop(iname, None)
            conds = []
            for c in g.ifs:
                sub = []
                cv = self.ev(c, env2, facts, sub)
                if sub or cv.ty != "B":
                    rej(c, "comprehension condition")
                conds.append(par(cv.code))
            if not conds:
                rej(e, "enumerate comprehension without condition")
            return V("LN", "positions (fun %s => %s) %s" % (xv, " && ".join(conds), par(seq.code)))
        seq = self.ev(it, env, facts, pre)
        if not isinstance(g.target, ast.Name):
            rej(e, "comprehension target")
        elt_ty = {"LN": "N", "LZ": "Z", "LS": "S"}.get(seq.ty)
        if elt_ty is None:
            rej(e, "comprehension over %s" % seq.ty)
        xv = self.fresh(g.target.id if g.target.id.isidentifier() else "i")
        env2[g.target.id] = V(elt_ty, xv)
        code = seq.code
        for c in g.ifs:
            sub = []
            cv = self.ev(c, env2, facts, sub)
            if sub or cv.ty != "B":
                rej(c, "comprehension condition")
            code = "filter (fun %s => %s) %s" % (xv, cv.code, par(code))
        sub = []
        ev = self.ev(e.elt, env2, facts, sub)
        if ev.ty.startswith("res:"):
            if g.ifs:
                rej(e, "failing element with a condition")
            return V("res:L" + ev.ty[4:], "mapM (fun %s => %s) %s" % (xv, ev.code, par(code)))
        if sub:
            rej(e, "failing sub-expression inside a comprehension")
        if ev.code == xv:
            return V(seq.ty, code)
        if ev.ty == "B":
            return V("bools", None, pred="fun %s => %s" % (xv, ev.code), over=code)
        lty = {"N": "LN", "Z": "LZ", "S": "LS", "Q": "LQ"}.get(ev.ty)
        if lty is None:
            rej(e, "comprehension element")
        return V(lty, "map (fun %s => %s) %s" % (xv, ev.code, par(code)))

    e_ListComp = lambda self, e, env, facts, pre: self.comp(e, env, facts, pre)      # noqa: E731
    e_GeneratorExp = lambda self, e, env, facts, pre: self.comp(e, env, facts, pre)  # noqa: E731

    def e_Call(self, e, env, facts, pre):
        fn = ast.unparse(e.func)
        args = e.args
        kws = {k.arg: k.value for k in e.keywords}
        A = lambda i: self.ev(args[i], env, facts, pre)  # noqa: E731
        if fn == "isinstance" and len(args) == 2 and not kws:
            x, t = A(0), A(1)
            if t.ty != "types":
                rej(e, "isinstance with something else than type names")
            if x.ty == "ITEM" and "universe" not in x.meta:
                if t.py == {"int", "np.integer"}:       # the model's IInt: Python ints AND NumPy integer scalars
                    return V("B", "is_int %s" % par(x.code))
                if t.py == {"slice"}:
                    return V("B", "is_slice %s" % par(x.code), facts=({("is_slice", x.code)}, set()))
                rej(e, "type test on an index item")
            uni, inst = x.meta.get("universe"), x.meta.get("inst")
            if x.ty == "none":
                uni, inst = x.meta.get("universe", t.py), set()
            if uni is None:
                rej(e, "type test on a value of unknown Python type")
            if not t.py <= uni:
                rej(e, "type test outside the types the model distinguishes (%s)" % sorted(t.py - uni))
            return V("cbool", py=bool(t.py & inst))
        if fn == "len" and len(args) == 1:
            x = A(0)
            if x.ty in ("IDX", "LN", "LZ", "LQ", "LS"):
                return V("N", "length %s" % par(x.code))
            if x.ty == "absarr":
                return V("N", x.meta["len"])
            rej(e, "len")
        if fn == "type" and len(args) == 1 and A(0).ty == "self":
            return env["__self__"]["__class__"]
        if fn == "slice" and len(args) == 1 and A(0).ty == "none":
            return V("fullslice")
        if fn in ("tuple", "np.asarray", "int", "str", "list") and len(args) == 1 and not kws:
            x = A(0)
            if fn == "tuple" and x.ty == "range":
                return V("LZ", "map Z.of_nat (seq 0 %s)" % par(x.code))
            if fn in ("tuple", "list") and (x.ty in ("LZ", "LN", "IDX") or x.ty.startswith("res:L")):
                return x
            if fn == "np.asarray" and x.ty == "LQ":
                return x
            if fn == "int" and x.ty in ("Z", "N"):
                return x
            if fn == "str" and x.ty == "S":
                return x
            rej(e, fn)
        if fn == "range" and len(args) == 1:
            return V("range", self.as_N(A(0)))
        if fn == "np.ndim" and len(args) == 1 and A(0).ty == "LQ":
            return V("cint", py=1)          # TRUSTED: origin / sampling are 1-D arrays (validate_ndinfo)
        if fn == "min" and len(args) == 1 and isinstance(args[0], ast.GeneratorExp):
            x = A(0)
            if x.ty != "LN":
                rej(e, "min")
            v = self.fresh("e")
            pre.append(("bind", v, "py_min %s" % par(x.code)))
            return V("N", v)
        if fn == "sum" and len(args) == 1 and isinstance(args[0], ast.GeneratorExp):
            x = A(0)
            if x.ty != "bools":
                rej(e, "sum of something else than conditions")
            return V("N", "py_count (%s) %s" % (x.meta["pred"], par(x.meta["over"])))
        if fn == "normalize_axis_index" and len(args) == 2 and not kws:
            x, n = A(0), A(1)
            if x.ty != "Z" or n.ty != "N":
                rej(e, "normalize_axis_index")
            return V("res:Z", "norm_axis %s %s" % (par(n.code), par(x.code)))
        if isinstance(e.func, ast.Attribute) and e.func.attr == "index" and len(args) == 1 and not kws:
            base, x = self.ev(e.func.value, env, facts, pre), A(0)
            if base.ty == "IDX" and x.ty == "ell":
                if ("ell_in", base.code) not in facts:
                    rej(e, ".index(Ellipsis) outside `if Ellipsis in ...`")
                return V("N", "first_pos is_ell %s" % par(base.code))
            if base.ty == "LN" and x.ty == "N":
                if ("in", x.code, base.code) not in facts:
                    rej(e, ".index(i) outside `if i in ...`")
                return V("N", "index_of %s %s" % (par(x.code), par(base.code)))
            rej(e, ".index")
        # ---- abstract library calls of the validators
        if fn == "np.isscalar" and len(args) == 1:
            x = A(0)
            if "isscalar" not in x.meta:
                rej(e, "np.isscalar")
            return V("cbool", py=x.meta["isscalar"])
        if fn == "np.full" and len(args) == 2 and set(kws) <= {"dtype"}:
            n, x = A(0), A(1)
            if n.ty != "N" or "full" not in x.meta:
                rej(e, "np.full")
            numeric, elems = x.meta["full"]
            return V("absarr", None, numeric=numeric, elems=(elems % n.code) if elems else None, len=n.code)
        if fn == "np.issubdtype" and len(args) == 2 and ast.unparse(args[1]) == "np.number":
            x = A(0)
            if x.ty != "dtype":
                rej(e, "np.issubdtype")
            return V("cbool", py=x.meta["numeric"])
        if isinstance(e.func, ast.Attribute) and e.func.attr == "flatten" and not args and not kws:
            inner = e.func.value
            if isinstance(inner, ast.Call) and ast.unparse(inner.func) == "np.array" and len(inner.args) == 1 \
                    and set(k.arg for k in inner.keywords) <= {"dtype"}:
                x = self.ev(inner.args[0], env, facts, pre)
                if "array" not in x.meta:
                    rej(e, "np.array")
                return x.meta["array"]
            rej(e, ".flatten()")
        rej(e, "call")

    def cond(self, e, env, facts, pre):
        """the truth value of a test: sequences are true when non-empty"""
        c = self.ev(e, env, facts, pre)
        if c.ty in ("LN", "IDX", "LZ", "LQ", "LS"):
            return V("B", "nonempty %s" % par(c.code))
        return c

    # ------------------------------------------------------------------ statements
    def bind_name(self, name, v, lines):
        """assignment: symbolic values get a fresh let"""
        if v.ty in COQTY and not atom(v.code):
            x = self.fresh("v_" + name if name.isidentifier() else "v")
            lines.append(("let", x, v.code))
            v = V(v.ty, x, v.py, **v.meta)
        return v

    @staticmethod
    def render(lines, ind):
        out = ""
        for kind, x, code in lines:
            if kind == "let":
                out += "%slet %s := %s in\n" % (ind, x, code)
            else:
                out += "%sdo %s <- %s;\n" % (ind, x, code)
        return out

    def straight(self, stmts, env, facts, lines):
        """statements that only assign -> updated env (lets appended to `lines`)"""
        env = dict(env)
        for s in stmts:
            if isinstance(s, ast.Expr) and isinstance(s.value, ast.Constant):
                continue
            if isinstance(s, ast.Assign):
                if len(s.targets) != 1 or not isinstance(s.targets[0], ast.Name):
                    rej(s, "assignment target")
                pre = []
                v = self.ev(s.value, env, facts, pre)
                if any(k == "bind" for k, _, _ in pre):
                    raise NotSimple()
                lines += pre
                if v.ty.startswith("res:"):
                    raise NotSimple()
                env[s.targets[0].id] = self.bind_name(s.targets[0].id, v, lines)
                continue
            if isinstance(s, ast.AugAssign):
                t = s.target
                if isinstance(t, ast.Subscript) and isinstance(t.value, ast.Name) and isinstance(s.op, ast.Mult):
                    pre = []
                    base, j, x = self.ev(t.value, env, facts, pre), self.ev(t.slice, env, facts, pre), self.ev(s.value, env, facts, pre)
                    if pre or base.ty != "LQ" or j.ty != "N":
                        rej(s, "augmented assignment")
                    if x.ty == "OZ":
                        if ("step_not_none", x.meta.get("item")) not in facts:
                            rej(s, "multiplication by a step that may be None")
                        q = "inject_Z (oz_val %s)" % par(x.code)
                    elif x.ty in ("Z", "N", "cint"):
                        q = "inject_Z %s" % par(self.as_Z(x))
                    else:
                        rej(s, "factor")
                    code = "set_nth %s (nth %s %s 0%%Q * %s)%%Q %s" % (par(j.code), par(j.code), par(base.code), q, par(base.code))
                    env[t.value.id] = self.bind_name(t.value.id, V("LQ", code, **base.meta), lines)
                    continue
                rej(s, "augmented assignment")
            if isinstance(s, ast.If):
                c = self.cond(s.test, env, facts, lines)
                if c.ty == "cbool":
                    env = self.straight(s.body if c.py else s.orelse, env, facts, lines)
                    continue
                if c.ty != "B":
                    rej(s, "condition")
                if any(k == "bind" for k, _, _ in lines):
                    raise NotSimple()
                pos, neg = c.meta.get("facts", (set(), set()))
                cname = self.bind_name("c", c, lines).code
                eb = self.straight(s.body, env, facts | pos, lines)
                eo = self.straight(s.orelse, env, facts | neg, lines)
                env = self.phi(cname, env, eb, eo, s, lines)
                continue
            if isinstance(s, ast.Try):
                env = self.try_lookup(s, env, facts, lines)
                continue
            if isinstance(s, ast.For):
                env = self.loop(s, env, facts, lines)
                continue
            raise NotSimple()
        return env

    def phi(self, cname, env, eb, eo, node, lines):
        out = dict(env)
        for k in set(eb) | set(eo):
            if k.startswith("__"):
                continue
            a, b = eb.get(k), eo.get(k)
            if a is None or b is None:
                out.pop(k, None)        # defined on one path only: unusable afterwards
                continue
            if a is b or (a.ty == b.ty and a.code == b.code and a.py == b.py):
                out[k] = a
                continue
            out[k] = self.bind_name(k, self.merge(cname, a, b, node), lines)
        return out

    def try_lookup(self, s, env, facts, lines):
        """try: X = self._registry[k]  except KeyError: X = D"""
        ok = (len(s.body) == 1 and isinstance(s.body[0], ast.Assign) and len(s.handlers) == 1 and not s.orelse
              and not s.finalbody and isinstance(s.handlers[0].type, ast.Name) and s.handlers[0].type.id == "KeyError"
              and len(s.handlers[0].body) == 1 and isinstance(s.handlers[0].body[0], ast.Assign))
        if not ok:
            rej(s, "try statement")
        a, h = s.body[0], s.handlers[0].body[0]
        if ast.unparse(a.targets[0]) != ast.unparse(h.targets[0]) or not isinstance(a.targets[0], ast.Name):
            rej(s, "try statement assigns different names")
        v = self.ev(a.value, env, facts, lines)
        d = self.ev(h.value, env, facts, lines)
        if v.ty != "reglookup" or d.ty != "CLS":
            rej(s, "try statement is not a registry lookup with a default class")
        env = dict(env)
        env[a.targets[0].id] = self.bind_name(a.targets[0].id, V("CLS", "reg_lookup %s %s %s" % (self.registry_name, par(v.code), par(d.code))), lines)
        return env

    def loop(self, s, env, facts, lines):
        if s.orelse:
            rej(s, "for-else")
        it = s.iter
        if not (isinstance(it, ast.Call) and ast.unparse(it.func) == "enumerate" and len(it.args) == 1
                and isinstance(s.target, ast.Tuple) and len(s.target.elts) == 2
                and all(isinstance(t, ast.Name) for t in s.target.elts)):
            rej(s, "loop form")
        seq = self.ev(it.args[0], env, facts, lines)
        if seq.ty != "IDX":
            rej(s, "loop over something else than the index")
        assigned = set()
        for n in ast.walk(ast.Module(body=s.body, type_ignores=[])):
            if isinstance(n, ast.Assign):
                for t in n.targets:
                    assigned |= {x.id for x in ast.walk(t) if isinstance(x, ast.Name) and isinstance(x.ctx, ast.Store)}
            elif isinstance(n, ast.AugAssign):
                t = n.target
                assigned.add(t.id if isinstance(t, ast.Name) else t.value.id if isinstance(t.value, ast.Name) else "?")
        carried = sorted(k for k in assigned if k in env)
        if len(carried) != 1 or env[carried[0]].ty not in COQTY:
            rej(s, "loop must re-assign exactly one variable defined before it (got %s)" % carried)
        k = carried[0]
        acc, p = self.fresh("acc"), self.fresh("p")
        env2 = {kk: vv for kk, vv in env.items() if kk not in assigned or kk == k}
        env2[k] = V(env[k].ty, acc, **env[k].meta)
        env2[s.target.elts[0].id] = V("N", "fst %s" % p)
        env2[s.target.elts[1].id] = V("ITEM", "snd %s" % p)
        inner = []
        try:
            e2 = self.straight(s.body, env2, facts, inner)
        except NotSimple:
            rej(s, "loop body raises, returns or uses a failing operation")
        if k not in e2:
            rej(s, "loop variable lost")
        body = self.render(inner, "      ") + "      " + e2[k].code
        code = "fold_left (fun (%s : %s) (%s : nat * index) =>\n%s) (indexed %s) %s" % (
            acc, COQTY[env[k].ty], p, body, par(seq.code), env[k].code)
        out = dict(env)
        for kk in assigned:
            if kk != k:
                out.pop(kk, None)
        out[k] = self.bind_name(k, V(env[k].ty, code, **env[k].meta), lines)
        return out

    def terminates(self, stmts):
        return bool(stmts) and isinstance(stmts[-1], (ast.Return, ast.Raise))

    def block(self, stmts, env, facts, depth=1):
        """-> Gallina term of type res <return type>"""
        ind = "  " * depth
        stmts = list(stmts)
        if not stmts:
            rej(None, "a path through the function ends without return")
        # longest straight-line prefix
        i, lines = 0, []
        s = stmts[0]
        if isinstance(s, ast.Return):
            pre = []
            if s.value is None:
                rej(s, "bare return")
            v = self.ret_value(s.value, env, facts, pre)
            return self.render(pre, ind) + ind + v
        if isinstance(s, ast.Raise):
            exc = s.exc
            name = ast.unparse(exc.func) if isinstance(exc, ast.Call) else ast.unparse(exc) if exc is not None else None
            if name not in ERRS:
                rej(s, "raise")
            return ind + "Err %s" % ERRS[name]
        if isinstance(s, ast.If):
            pre = []
            c = self.cond(s.test, env, facts, pre)
            if c.ty == "cbool":
                return self.render(pre, ind) + self.block((s.body if c.py else s.orelse) + stmts[1:], env, facts, depth)
            if c.ty != "B":
                rej(s, "condition")
            try:
                lines = []
                e2 = self.straight([s], env, facts, lines)
                return self.render(lines, ind) + self.block(stmts[1:], e2, facts, depth)
            except NotSimple:
                pass
            pos, neg = c.meta.get("facts", (set(), set()))
            return (self.render(pre, ind) + ind + "if %s then\n" % c.code
                    + self.block(list(s.body) + stmts[1:], env, facts | pos, depth + 1) + "\n" + ind + "else\n"
                    + self.block(list(s.orelse) + stmts[1:], env, facts | neg, depth + 1))
        if isinstance(s, ast.Try) and not (len(s.handlers) == 1 and isinstance(s.handlers[0].type, ast.Name)
                                           and s.handlers[0].type.id == "KeyError"):
            return self.try_call(s, stmts[1:], env, facts, depth)
        if isinstance(s, ast.Assign):
            # assignment whose value may fail: bind, then go on
            if len(s.targets) != 1 or not isinstance(s.targets[0], ast.Name):
                rej(s, "assignment target")
            pre = []
            v = self.ev(s.value, env, facts, pre)
            if v.ty.startswith("res:"):
                x = self.fresh("e")
                pre.append(("bind", x, v.code))
                v = V(v.ty[4:], x)
            lines = list(pre)
            env2 = dict(env)
            env2[s.targets[0].id] = self.bind_name(s.targets[0].id, v, lines)
            return self.render(lines, ind) + self.block(stmts[1:], env2, facts, depth)
        lines = []
        e2 = self.straight([s], env, facts, lines)
        return self.render(lines, ind) + self.block(stmts[1:], e2, facts, depth)

    def try_call(self, s, rest, env, facts, depth):
        """try: X = <library call that may raise>  except (A, B): raise C"""
        ind = "  " * depth
        if not (len(s.body) == 1 and isinstance(s.body[0], ast.Assign) and len(s.handlers) == 1 and not s.orelse
                and not s.finalbody and len(s.handlers[0].body) == 1 and isinstance(s.handlers[0].body[0], ast.Raise)):
            rej(s, "try statement")
        a = s.body[0]
        pre = []
        v = self.ev(a.value, env, facts, pre)
        if pre or not isinstance(a.targets[0], ast.Name):
            rej(s, "try body")
        env2 = dict(env)
        env2[a.targets[0].id] = v
        cont = self.block(rest, env2, facts, depth + 1 if v.meta.get("raises") else depth)
        if not v.meta.get("raises"):
            return cont
        okcond, cls = v.meta["raises"]
        ht = s.handlers[0].type
        caught = {ast.unparse(t) for t in (ht.elts if isinstance(ht, ast.Tuple) else [ht])} if ht is not None else {cls}
        if cls in caught:
            handler = self.block(s.handlers[0].body, env, facts, depth + 1)
        else:
            handler = "  " * (depth + 1) + "Err %s" % ERRS[cls]
        return ind + "if %s then\n%s\n%selse\n%s" % (okcond, cont, ind, handler)

    def ret_value(self, e, env, facts, pre):
        v = self.ev(e, env, facts, pre)
        if v.ty == "absarr":
            if not v.meta["numeric"] or v.meta["elems"] is None:
                rej(e, "a non-numeric array is returned")
            v = V("LQ", v.meta["elems"])
        if v.ty.startswith("res:"):
            ty, code = v.ty[4:], v.code
        elif v.ty in COQTY:
            ty, code = v.ty, "Ok %s" % par(v.code)
        else:
            rej(e, "returned value")
        if self.ret_ty not in (None, ty):
            rej(e, "return type %s after %s" % (ty, self.ret_ty))
        self.ret_ty = ty
        return code


# ------------------------------------------------------------------------------------------
# the anchored functions


def find_def(tree, cls, name):
    """the LAST definition of that name (pad / crop / bin are preceded by @overload stubs)"""
    body = tree.body
    if cls is not None:
        body = next((n.body for n in tree.body if isinstance(n, ast.ClassDef) and n.name == cls), None)
        if body is None:
            raise Reject("class %s not found" % cls)
    found = [n for n in body if isinstance(n, ast.FunctionDef) and n.name == name]
    if not found:
        raise Reject("%s%s not found" % (cls + "." if cls else "", name))
    return found[-1]


def setter_def(tree, cls, name):
    body = next((n.body for n in tree.body if isinstance(n, ast.ClassDef) and n.name == cls), [])
    for n in body:
        if isinstance(n, ast.FunctionDef) and n.name == name and any(
                ast.unparse(d) == name + ".setter" for d in n.decorator_list):
            return n
    raise Reject("setter of %s.%s not found" % (cls, name))


def strip_doc(stmts):
    return [s for s in stmts if not (isinstance(s, ast.Expr) and isinstance(s.value, ast.Constant))]


def params(fdef):
    if fdef.args.vararg or fdef.args.kwarg or fdef.args.kwonlyargs or fdef.args.posonlyargs:
        raise Reject("%s: parameter list" % fdef.name)
    return [a.arg for a in fdef.args.args]


def tr_getitem(fdef):
    if params(fdef) != ["self", "index"]:
        raise Reject("__getitem__: parameters %s" % params(fdef))
    outs = []
    for bare in (False, True):
        ev = Ev()
        selfenv = {"ndim": V("N", "self_ndim"), "origin": V("LQ", "self_origin", dflt="0%Q"),
                   "sampling": V("LQ", "self_sampling", dflt="1%Q"), "units": V("LS", "self_units"),
                   "array": V("selfarray"), "__class__": V("CLS", "self_cls")}
        idx = V("ITEM", "v_item", raw_param=True, universe={"tuple"}, inst=set()) if bare else \
            V("IDX", "v_index", raw_param=True, universe={"tuple"}, inst={"tuple"})
        env = {"self": V("self"), "__self__": selfenv, "index": idx, "__out_ndim__": V("N", "out_ndim")}
        body = strip_doc(fdef.body)
        ret = body[-1]
        if not (isinstance(ret, ast.Return) and isinstance(ret.value, ast.Call) and isinstance(ret.value.func, ast.Attribute)
                and ret.value.func.attr == "from_array" and not ret.value.args):
            rej(ret, "__getitem__ does not end with `return <cls>.from_array(...)`")
        call = ret.value
        kws = {k.arg: k.value for k in call.keywords}
        if not {"array", "origin", "sampling", "units"} <= set(kws) or not set(kws) <= {
                "array", "origin", "sampling", "units", "name", "signal_units"}:
            rej(ret, "keywords of from_array")
        tup = ast.Tuple(elts=[], ctx=ast.Load())
        ev.getitem_ret = (call.func.value, kws)

        def ret_value(e, env_, facts, pre, ev=ev):
            cls_e, kw = ev.getitem_ret
            c = ev.ev(cls_e, env_, facts, pre)
            a = ev.ev(kw["array"], env_, facts, pre)
            o, sa, u = (ev.ev(kw[k], env_, facts, pre) for k in ("origin", "sampling", "units"))
            if a.ty != "arrview":
                rej(e, "from_array does not receive self.array[index]")
            if (c.ty, o.ty, sa.ty, u.ty) != ("CLS", "LQ", "LQ", "LS"):
                rej(e, "kinds of the from_array arguments: %s" % ((c.ty, o.ty, sa.ty, u.ty),))
            for k in ("name", "signal_units"):
                if k in kw and ev.ev(kw[k], env_, facts, []).ty not in ("opaque", "cstr"):
                    rej(e, "keyword %s" % k)
            return "Ok (%s, (%s, (%s, %s)))" % (c.code, o.code, sa.code, u.code)

        ev.ret_value = ret_value
        del tup
        code = ev.block(body, env, set())
        name = "gen_getitem_meta_bare" if bare else "gen_getitem_meta"
        arg = "(v_item : index)" if bare else "(v_index : list index)"
        outs.append("Definition %s (self_ndim out_ndim : nat) (self_cls : tag) %s\n"
                    "  (self_origin self_sampling : list Q) (self_units : list string)\n"
                    "  : res (tag * (list Q * (list Q * list string))) :=\n%s.\n" % (name, arg, code))
    return "\n".join(outs)


def tr_registry(src_root):
    ents = []
    for rel, cls, tag in SUBCLASS_FILES:
        tree = ast.parse((src_root / "quantem" / rel).read_text())
        for n in tree.body:
            if isinstance(n, ast.ClassDef):
                for d in n.decorator_list:
                    if "register_dimension" in ast.unparse(d):
                        if not (isinstance(d, ast.Call) and ast.unparse(d.func) == "Dataset.register_dimension" and len(d.args) == 1
                                and isinstance(d.args[0], ast.Constant) and isinstance(d.args[0].value, int) and not d.keywords):
                            rej(d, "register_dimension decorator")
                        if n.name != cls:
                            rej(d, "register_dimension on an unexpected class %s" % n.name)
                        ents.append((d.args[0].value, tag))
    if len({k for k, _ in ents}) != len(ents):
        raise Reject("two classes registered for the same dimensionality (import order would decide): %s" % ents)
    ents.sort()
    return "Definition gen_registry : list (nat * tag) := [%s].\n" % "; ".join("(%d, %s)" % e for e in ents), ents


def tr_register_dimension(fdef):
    """register_dimension(cls, ndim): decorator(subclass) stores cls._registry[ndim] = subclass"""
    ok = False
    for n in ast.walk(fdef):
        if isinstance(n, ast.Assign) and ast.unparse(n.targets[0]) == "cls._registry[ndim]" and ast.unparse(n.value) == "subclass":
            ok = True
    if not ok or params(fdef) != ["cls", "ndim"]:
        raise Reject("register_dimension no longer stores cls._registry[ndim] = subclass")


def tr_normalize_axes(fdef):
    if params(fdef) != ["self", "axes"]:
        raise Reject("_normalize_axes: parameters")
    cases = []
    uni = {"int", "float"}
    for pat, val in (("AxNone", V("none", universe=uni)),
                     ("AxInt k", V("Z", "k", universe=uni, inst={"int", "float"})),
                     ("AxList l", V("LZ", "l", universe=uni, inst=set()))):
        ev = Ev()
        env = {"self": V("self"), "__self__": {"ndim": V("N", "self_ndim")}, "axes": val}
        code = ev.block(strip_doc(fdef.body), env, set(), 2)
        if ev.ret_ty != "LZ":
            raise Reject("_normalize_axes returns %s" % ev.ret_ty)
        cases.append("  | %s =>\n%s" % (pat, code))
    return "Definition gen_normalize_axes (self_ndim : nat) (axes : axesarg) : res (list Z) :=\n  match axes with\n%s\n  end.\n" % "\n".join(cases)


# ABSTRACT: what the library calls of the validators mean for each constructor of the model's argument
# kinds (isscalar, np.full(ndim, value) -> (numeric dtype?, elements), np.array(value).flatten())
def _absarr(numeric, elems, length, raises=None):
    return V("absarr", None, numeric=numeric, elems=elems, len=length, raises=raises)


NDINFO_UNI = {"np.ndarray", "tuple", "list"}


def ndinfo_cases():
    return [
        ("NScalar q", V("pyval", "q", universe=NDINFO_UNI, inst=set(), isscalar=True, full=(True, "repeat q %s"))),
        ("NList l", V("pyval", "l", universe=NDINFO_UNI, inst={"np.ndarray", "tuple", "list"}, isscalar=False,
                      array=_absarr(True, "l", "length l"))),
        ("NNone", V("none", universe=NDINFO_UNI, isscalar=False)),
        ("NOther", V("pyval", None, universe=NDINFO_UNI, inst=set(), isscalar=False)),
        ("NStr", V("pyval", None, universe=NDINFO_UNI, inst=set(), isscalar=True, full=(False, None))),
        ("NBool", V("pyval", None, universe=NDINFO_UNI, inst=set(), isscalar=True, full=(False, None))),
        ("NNonNum k", V("pyval", None, universe=NDINFO_UNI, inst={"list"}, isscalar=False, array=_absarr(False, None, "k"))),
        ("NNested ll", V("pyval", None, universe=NDINFO_UNI, inst={"list", "np.ndarray"}, isscalar=False,
                         array=_absarr(True, "concat ll", "length (concat ll)", raises=("rectangular ll", "ValueError")))),
    ]


def tr_validate_ndinfo(fdef):
    p = params(fdef)
    if p[:2] != ["value", "ndim"] or not set(p[2:]) <= {"name", "dtype"}:
        raise Reject("validate_ndinfo: parameters %s" % p)
    cases = []
    for pat, val in ndinfo_cases():
        ev = Ev()
        env = {"value": val, "ndim": V("N", "ndim"), "name": V("opaque"), "dtype": V("none", universe=set())}
        code = ev.block(strip_doc(fdef.body), env, set(), 2)
        if ev.ret_ty not in (None, "LQ"):
            raise Reject("validate_ndinfo returns %s" % ev.ret_ty)
        cases.append("  | %s =>\n%s" % (pat, code))
    return "Definition gen_validate_ndinfo (value : numarg) (ndim : nat) : res (list Q) :=\n  match value with\n%s\n  end.\n" % "\n".join(cases)


def tr_validate_units(fdef):
    if params(fdef) != ["value", "ndim"]:
        raise Reject("validate_units: parameters")
    uni = {"str", "list", "tuple"}
    cases = []
    for pat, val in (("UStr u", V("S", "u", universe=uni, inst={"str"})),
                     ("UList l", V("LS", "l", universe=uni, inst={"list", "tuple"})),
                     ("UOther", V("pyval", None, universe=uni, inst=set()))):
        ev = Ev()
        env = {"value": val, "ndim": V("N", "ndim")}
        code = ev.block(strip_doc(fdef.body), env, set(), 2)
        if ev.ret_ty not in (None, "LS"):
            raise Reject("validate_units returns %s" % ev.ret_ty)
        cases.append("  | %s =>\n%s" % (pat, code))
    return "Definition gen_validate_units (value : unitsarg) (ndim : nat) : res (list string) :=\n  match value with\n%s\n  end.\n" % "\n".join(cases)


def _list_of_one(ev_cls):
    """[value] * ndim for a str value"""
    orig = ev_cls.e_List if hasattr(ev_cls, "e_List") else None

    def e_List(self, e, env, facts, pre):
        vs = [self.ev(x, env, facts, pre) for x in e.elts]
        if len(vs) == 1 and vs[0].ty == "S":
            return V("LS", "[%s]" % vs[0].code, single=vs[0].code)
        rej(e, "list display")
    ev_cls.e_List = e_List
    return orig


_list_of_one(Ev)
_orig_tuple = Ev.e_Tuple


def _e_Tuple(self, e, env, facts, pre):
    v = _orig_tuple(self, e, env, facts, pre)
    if v.ty == "IDX" and v.code == "[full]":
        v.meta["single"] = "full"
    return v


Ev.e_Tuple = _e_Tuple


def tr_setters(tree):
    """@x.setter def x(self, value): self._x = validate_…(value, self.ndim, …)"""
    rows = []
    for name in ("origin", "sampling", "units"):
        f = setter_def(tree, "Dataset", name)
        body = strip_doc(f.body)
        if params(f) != ["self", "value"] or len(body) != 1 or not isinstance(body[0], ast.Assign):
            raise Reject("setter of %s is no longer a single assignment" % name)
        a = body[0]
        call = a.value
        if not (isinstance(call, ast.Call) and isinstance(call.func, ast.Name) and len(call.args) >= 2
                and ast.unparse(call.args[0]) == "value" and ast.unparse(call.args[1]) == "self.ndim" and not call.keywords):
            rej(a, "setter does not validate (value, self.ndim)")
        for extra in call.args[2:]:
            if not isinstance(extra, ast.Constant):
                rej(a, "further validator argument")
        rows.append((name, call.func.id, ast.unparse(a.targets[0])))
    text = "Definition gen_setters : list (string * (string * string)) :=\n  [%s]%%string.\n" % "; ".join(
        '("%s", ("%s", "%s"))' % r for r in rows)
    return text, rows


# ---------------------------------------------------------------- assignment tails (structural)
ATTR = {"array": "AArray", "sampling": "ASampling", "origin": "AOrigin"}
HARMLESS_CALLS = {"join", "str", "format", "len", "range", "lower"}


def _deps(fdef):
    """first assignment of every local name -> set of self.<attr> it mentions"""
    first = {}
    for n in ast.walk(fdef):
        if isinstance(n, ast.Assign) and len(n.targets) == 1 and isinstance(n.targets[0], ast.Name):
            first.setdefault(n.targets[0].id, (n.lineno, n.value))
    out = {}
    for k, (_, val) in first.items():
        out[k] = {x.attr for x in ast.walk(val) if isinstance(x, ast.Attribute) and isinstance(x.value, ast.Name) and x.value.id == "self"}
    return out


def tr_tail(fdef, opname):
    body = strip_doc(fdef.body)
    if "modify_in_place" not in [a.arg for a in fdef.args.args + fdef.args.kwonlyargs]:
        raise Reject("%s has no modify_in_place parameter" % opname)
    # the tail: the last `if <modify_in_place test>:` at top level and what follows it
    pos = None
    for i, s in enumerate(body):
        if isinstance(s, ast.If) and "modify_in_place" in ast.unparse(s.test):
            pos = i
    if pos is None:
        raise Reject("%s: no `if modify_in_place` statement" % opname)
    for s in body[:pos]:
        for n in ast.walk(s):
            if isinstance(n, (ast.Assign, ast.AugAssign)):
                for t in (n.targets if isinstance(n, ast.Assign) else [n.target]):
                    for x in ast.walk(t):
                        if isinstance(x, ast.Attribute) and isinstance(x.ctx, ast.Store):
                            rej(n, "%s assigns an attribute before the in-place / copy tail" % opname)
            if isinstance(n, ast.Call) and isinstance(n.func, ast.Attribute) and n.func.attr == "copy" \
                    and ast.unparse(n.func.value) == "self":
                rej(n, "%s copies self before the tail" % opname)
    s = body[pos]
    t = ast.unparse(s.test)
    if t == "modify_in_place":
        ip_stmts, cp_stmts = list(s.body), list(s.orelse) + body[pos + 1:]
        if not isinstance(s.body[-1], ast.Return):
            rej(s, "in-place branch does not return")
    elif t in ("modify_in_place is False", "not modify_in_place"):
        ip_stmts, cp_stmts = list(s.orelse) + body[pos + 1:], list(s.body)
        if not isinstance(s.body[-1], ast.Return):
            rej(s, "copying branch does not return")
    else:
        rej(s, "test of the in-place branch")
    deps = _deps(fdef)
    slots = {}

    def slot_of(expr, target):
        if isinstance(expr, ast.Name):
            d = deps.get(expr.id)
            if d is None:
                rej(expr, "value of unknown origin")
            role = 1 if d == {"sampling"} else 2 if d == {"origin"} else 0 if ("array" in d or not (d & {"sampling", "origin"})) else None
            if role is None:
                rej(expr, "cannot tell what %s holds (depends on %s)" % (expr.id, sorted(d)))
            key = ("var", expr.id)
            if key not in slots:
                slots[key] = role if role not in [v for v in slots.values()] else 3 + len(slots)
            return slots[key]
        if isinstance(expr, ast.Subscript) and ast.unparse(expr.value) == target + ".array":
            sl = expr.slice
            if isinstance(sl, ast.Call) and ast.unparse(sl.func) == "tuple" and len(sl.args) == 1:
                sl = sl.args[0]
            if not isinstance(sl, ast.Name):
                rej(expr, "slices of the crop")
            key = ("crop", sl.id)
            if key not in slots:
                slots[key] = 0 if 0 not in slots.values() else 3 + len(slots)
            return slots[key]
        rej(expr, "assigned value")

    def effects(stmts, in_place):
        effs, target = [], "self"
        for st in stmts:
            if isinstance(st, ast.Return):
                want = "None" if in_place else target
                got = "None" if st.value is None else ast.unparse(st.value)
                if got != want or (not in_place and target == "self"):
                    rej(st, "%s variant of %s returns %s" % ("in-place" if in_place else "copying", opname, got))
                if st is not stmts[-1]:
                    rej(st, "statements after return")
                return effs
            if not isinstance(st, ast.Assign) or len(st.targets) != 1:
                rej(st, "statement in the tail of %s" % opname)
            tg = st.targets[0]
            if isinstance(tg, ast.Name):
                if ast.unparse(st.value) == "self.copy()":
                    if in_place or target != "self":
                        rej(st, "unexpected copy")
                    target = tg.id
                    effs.append("ECopySelf")
                    continue
                for n in ast.walk(st.value):
                    if isinstance(n, ast.Call):
                        nm = n.func.attr if isinstance(n.func, ast.Attribute) else ast.unparse(n.func)
                        if nm not in HARMLESS_CALLS:
                            rej(st, "call in the tail of %s" % opname)
                continue
            if not (isinstance(tg, ast.Attribute) and isinstance(tg.value, ast.Name) and tg.value.id == target):
                rej(st, "assignment to something else than %s" % target)
            if tg.attr == "name":
                continue
            raw = tg.attr.startswith("_")
            a = ATTR.get(tg.attr.lstrip("_"))
            if a is None:
                rej(st, "assigned attribute")
            if raw and not in_place:
                rej(st, "private attribute of the copy assigned directly")
            effs.append("%s %s %d" % ("ERaw" if raw else "ESet", a, slot_of(st.value, target)))
        rej(stmts[-1] if stmts else None, "tail of %s does not return" % opname)

    ip = effects(ip_stmts, True)
    cp = effects(cp_stmts, False)
    text = "Definition gen_%s_tail (in_place : bool) : list eff :=\n  if in_place then [%s] else [%s].\n" % (
        opname, "; ".join(ip), "; ".join(cp))
    return text, {"in_place": ip, "copying": cp}


HEADER = """(* GENERATED by harness/translate_C03.py from the current source of quantem — do not edit *)
From Coq Require Import QArith String.
From QV.lib Require Import Prelude C03_Slice.
From QV.model Require Import C03_Model C03_PyLib.
From Coq Require Import List.
Import ListNotations.
Local Close Scope Q_scope.
Local Open Scope list_scope.
Local Open Scope bool_scope.

"""


def translate(src_root: Path):
    """-> (coq text, info)"""
    ds = ast.parse((src_root / "quantem" / DS).read_text())
    va = ast.parse((src_root / "quantem" / VAL).read_text())
    parts, info = [HEADER], {"tails": {}}
    reg_text, ents = tr_registry(src_root)
    tr_register_dimension(find_def(ds, "Dataset", "register_dimension"))
    info["registry"] = ents
    parts.append(reg_text)
    parts.append(tr_getitem(find_def(ds, "Dataset", "__getitem__")))
    parts.append(tr_normalize_axes(find_def(ds, "Dataset", "_normalize_axes")))
    parts.append(tr_validate_ndinfo(find_def(va, None, "validate_ndinfo")))
    parts.append(tr_validate_units(find_def(va, None, "validate_units")))
    st, rows = tr_setters(ds)
    info["setters"] = rows
    parts.append(st)
    for op, name in (("pad", "pad"), ("crop", "crop"), ("bin", "bin"), ("fourier_resample", "fourier")):
        t, d = tr_tail(find_def(ds, "Dataset", op), name)
        parts.append(t)
        info["tails"][name] = d
    text = "\n".join(parts)
    info["generated_sha256"] = hashlib.sha256(text.encode()).hexdigest()
    return text, info


if __name__ == "__main__":
    import sys
    from .common import SRC
    try:
        sys.stdout.write(translate(SRC)[0])
    except Reject as ex:
        print("REJECTED:", ex)
        sys.exit(1)
