"""C08 effect-program tie: `AutoSerialize.save` of the CURRENT source -> a Coq value, tied by theorem to the protocol the
C08 theorems are about.

  python -m harness.c08_tie                       prints the generated file (or REJECTED: why)
  build/C08/Gen_C08.v                             Definition gen_save_toks : list tok := [...]   (generated on every run)
  coq/gen_proofs/C08_GenProofs.v                  FIXED script: interp gen_save_toks st 0 [] = Some (save_skeleton st)
  coq/gen_proofs/C08_GenProperties.v              Theorem C08_save_effect_program_tie (+ Print Assumptions)

What is extracted (fail closed: anything outside this grammar raises Reject and the tie is reported broken):
the statements of `save` in source order as tokens (coq/model/C08_Model_Tie.v):
  existence check + mode handling   if os.path.exists(X) and mode != "o": raise FileExistsError     PCheckExists sym(X)
  refusals without effect           if <pure test>: raise ValueError(...)                          PValidate
  parents                           if store == "dir": os.makedirs(P, exist_ok=True)               TIf CDir [PMakeDirs sym(P)]
  staging directory                 with tempfile.TemporaryDirectory(dir=P, ...) as T: <body>      TWithTemp sym(P) .. TEndWithTemp
  first write / recursive save /    R = zarr.group(store=LocalStore(S), overwrite=True);           PGroup / PRecursiveSave /
  skip metadata                     self._recursive_save(self, R, ...); <local def writing R.attrs>(R)   PSkipMeta  sym(S)
  zip assembly                      if store == "zip": with ZipFile(Z, mode="w") as zf:            TIf CZip [TWithZip sym(Z)
                                        for .. in os.walk(S): [for ..:] .. zf.write(..)                 PZipWalk sym(S) sym(Z) TEndWithZip]
  removal of the old target         if os.path.isdir(X): shutil.rmtree(X) elif os.path.exists(X): os.remove(X)   PRemoveOld sym(X)
  commit                            os.replace(A, B)                                               PReplace sym(A) sym(B)
Path-valued variables are tracked SYMBOLICALLY (which version of which variable reaches a site): YRaw = str(path),
YTarget = after the suffix rule `if store == "zip" and not X.endswith(".zip"): X += ".zip"`, YParentOf s =
os.path.dirname(os.path.abspath(s)), YTmp, YStore = join(T, "store"), YZipFile = join(T, "store.zip"), YIfZip a b for a
variable re-assigned inside the zip block.  Everything else must be PURE (no call outside a whitelist of side-effect
free callables, no assignment to a tracked variable / `mode` / `store`), and is dropped: renaming locals and
re-ordering independent pure statements do not change the output; moving, removing, re-scoping or re-targeting
an effect does.  try / other with-blocks / ExitStack / unknown calls are rejected."""
from __future__ import annotations

import ast
import hashlib
import time
from pathlib import Path

from .common import COQ, COQ_FLAGS, SRC, Ctx, sh

REL = "core/io/serialize.py"
GEN_DIR = COQ / "gen_proofs"
TRUSTED = [
    "harness/c08_tie.py: the translator of AutoSerialize.save into the token list gen_save_toks (fail closed); fixed "
    "meanings: os.path.exists / isdir, os.makedirs(exist_ok=True), tempfile.TemporaryDirectory (a `with` = MkTemp + "
    "handler HRmTemp), zarr.group / self._recursive_save / the local skip-metadata function (item writes into the store), "
    "ZipFile (a `with` = ZipOpen + handler HZipClose .. ZipClose), os.walk + zf.write (one ZipAdd per member), "
    "shutil.rmtree / os.remove (RemoveTarget), os.replace (Rename); the whitelist of side-effect free callables",
]

PURE_BUILTINS = {"str", "int", "float", "bool", "isinstance", "len", "list", "tuple", "set", "dict", "print", "repr",
                 "sorted", "ValueError", "TypeError", "FileExistsError", "Path", "frozenset", "type", "getattr", "hasattr"}
PURE_METHODS = {"endswith", "startswith", "format", "lower", "upper", "strip", "rstrip", "lstrip"}
PURE_DOTTED = {"os.path.join", "os.path.dirname", "os.path.abspath", "os.path.basename", "os.path.splitext",
               "os.path.relpath", "os.path.normpath", "os.fspath", "os.path.realpath"}


class Reject(Exception):
    pass


def _rej(node, why):
    raise Reject("line %s: %s: `%s`" % (getattr(node, "lineno", "?"), why, ast.unparse(node)[:160]))


def dotted(e):
    if isinstance(e, ast.Name):
        return e.id
    if isinstance(e, ast.Attribute):
        b = dotted(e.value)
        return None if b is None else b + "." + e.attr
    return None


def sym_coq(s):
    if isinstance(s, tuple):
        if s[0] == "YParentOf":
            return "(YParentOf %s)" % sym_coq(s[1])
        return "(YIfZip %s %s)" % (sym_coq(s[1]), sym_coq(s[2]))
    return s


class Tr:
    def __init__(self, fdef):
        self.fdef = fdef
        params = [a.arg for a in fdef.args.args]
        for need in ("self", "path", "mode", "store"):
            if need not in params:
                raise Reject("parameter %s of save() is gone" % need)
        self.env = {}             # variable -> sym (path-valued variables)
        self.raw_param = "path"   # before `X = str(path)`: the parameter itself
        self.groups = {}          # variable -> sym of the store the zarr group lives at
        self.zips = {}            # variable -> sym of the archive
        self.skipmeta = set()     # names of local functions that only write <param>.attrs[...]
        self.toks = []
        self.store_resolved = False
        self.effect_seen = False

    # ------------------------------------------------------------------ expressions
    def pure(self, e):
        """no call outside the whitelist, no lambda / await / yield / walrus"""
        for n in ast.walk(e):
            if isinstance(n, (ast.Lambda, ast.Await, ast.Yield, ast.YieldFrom, ast.NamedExpr)):
                _rej(n, "construct outside the grammar")
            if isinstance(n, ast.Call):
                d = dotted(n.func)
                if d in PURE_BUILTINS or d in PURE_DOTTED:
                    continue
                if isinstance(n.func, ast.Attribute) and n.func.attr in PURE_METHODS:
                    continue
                _rej(n, "call of a function whose effects are unknown")
        return True

    def sym(self, e):
        """symbolic value of a path-valued expression"""
        if isinstance(e, ast.Name):
            if e.id in self.env:
                return self.env[e.id]
            _rej(e, "not a tracked path variable")
        if isinstance(e, ast.Call):
            d = dotted(e.func)
            if d == "os.path.dirname" and len(e.args) == 1 and not e.keywords:
                a = e.args[0]
                if isinstance(a, ast.Call) and dotted(a.func) in ("os.path.abspath", "os.path.realpath") and len(a.args) == 1:
                    return ("YParentOf", self.sym(a.args[0]))
            if d == "os.path.join" and len(e.args) == 2 and not e.keywords and isinstance(e.args[1], ast.Constant):
                if self.sym(e.args[0]) == "YTmp":
                    if e.args[1].value == "store":
                        return "YStore"
                    if e.args[1].value == "store.zip":
                        return "YZipFile"
        _rej(e, "path expression outside the grammar")

    def is_store_test(self, t):
        """store == "zip" / store == "dir" -> CZip / CDir"""
        if isinstance(t, ast.Compare) and len(t.ops) == 1 and isinstance(t.ops[0], ast.Eq):
            a, b = t.left, t.comparators[0]
            if isinstance(b, ast.Name):
                a, b = b, a
            if isinstance(a, ast.Name) and a.id == "store" and isinstance(b, ast.Constant) and b.value in ("zip", "dir"):
                if not self.store_resolved:
                    _rej(t, "store tested before `auto` has been resolved")
                return "CZip" if b.value == "zip" else "CDir"
        return None

    @staticmethod
    def is_mode_not_o(t):
        if isinstance(t, ast.Compare) and len(t.ops) == 1 and isinstance(t.left, ast.Name) and t.left.id == "mode" \
                and isinstance(t.comparators[0], ast.Constant) and t.comparators[0].value == "o":
            return isinstance(t.ops[0], ast.NotEq)
        # mode == "w": the same test on the domain {"w", "o"} the property quantifies over
        if isinstance(t, ast.Compare) and len(t.ops) == 1 and isinstance(t.ops[0], ast.Eq) and isinstance(t.left, ast.Name) \
                and t.left.id == "mode" and isinstance(t.comparators[0], ast.Constant) and t.comparators[0].value == "w":
            return True
        if isinstance(t, ast.UnaryOp) and isinstance(t.op, ast.Not):
            u = t.operand
            return (isinstance(u, ast.Compare) and len(u.ops) == 1 and isinstance(u.ops[0], ast.Eq)
                    and isinstance(u.left, ast.Name) and u.left.id == "mode"
                    and isinstance(u.comparators[0], ast.Constant) and u.comparators[0].value == "o")
        return False

    @staticmethod
    def call_of(e, name, nargs=None):
        if isinstance(e, ast.Call) and dotted(e.func) == name and (nargs is None or len(e.args) == nargs):
            return e
        return None

    # ------------------------------------------------------------------ statements
    def emit(self, t):
        self.toks.append(t)
        self.effect_seen = True

    def assign_ok(self, name, node):
        if name in ("mode", "store", "self") or name in self.env or name in self.groups or name in self.zips \
                or name == self.raw_param:
            _rej(node, "assignment to a tracked variable outside the grammar")

    def pure_stmt(self, s):
        """a statement without effects on disk (dropped)"""
        if isinstance(s, ast.Expr):
            if isinstance(s.value, ast.Constant):
                return True
            return self.pure(s.value)
        if isinstance(s, (ast.Assign, ast.AnnAssign, ast.AugAssign)):
            targets = s.targets if isinstance(s, ast.Assign) else [s.target]
            for t in targets:
                for n in ast.walk(t):
                    if isinstance(n, ast.Name):
                        self.assign_ok(n.id, s)
                    elif not isinstance(n, (ast.Tuple, ast.List, ast.Store, ast.Load, ast.Starred)):
                        _rej(s, "assignment target outside the grammar")
            if s.value is not None:
                self.pure(s.value)
            return True
        if isinstance(s, ast.If):
            self.pure(s.test)
            for b in s.body + s.orelse:
                self.pure_stmt(b)
            return True
        if isinstance(s, ast.Raise):
            if s.exc is not None:
                self.pure(s.exc)
            return True
        if isinstance(s, ast.Pass):
            return True
        _rej(s, "statement outside the grammar")

    def block(self, stmts, cond=None):
        for s in stmts:
            self.stmt(s, cond)

    def stmt(self, s, cond):
        # ---- docstring / comments-as-strings
        if isinstance(s, ast.Expr) and isinstance(s.value, ast.Constant):
            return
        # ---- path = str(path)
        if isinstance(s, ast.Assign) and len(s.targets) == 1 and isinstance(s.targets[0], ast.Name):
            name, v = s.targets[0].id, s.value
            c = self.call_of(v, "str", 1)
            if c is not None and isinstance(c.args[0], ast.Name) and c.args[0].id == self.raw_param and not self.env:
                if cond is not None:
                    _rej(s, "conditional conversion of the path")
                self.env[name] = "YRaw"
                return
            # a copy of / an expression over tracked paths
            if isinstance(v, ast.Name) and v.id in self.env:
                self.bind(name, self.env[v.id], cond, s)
                return
            if isinstance(v, ast.Call) and dotted(v.func) in ("os.path.dirname", "os.path.join") and self.mentions_tracked(v):
                self.bind(name, self.sym(v), cond, s)
                return
            # root = zarr.group(store=LocalStore(S), overwrite=True)
            if isinstance(v, ast.Call) and dotted(v.func) == "zarr.group":
                kw = {k.arg: k.value for k in v.keywords}
                st_ = kw.get("store")
                ov = kw.get("overwrite")
                if v.args or set(kw) != {"store", "overwrite"} or not (isinstance(ov, ast.Constant) and ov.value is True):
                    _rej(s, "zarr.group call outside the grammar")
                ls = self.call_of(st_, "LocalStore", 1)
                if ls is None or ls.keywords:
                    _rej(s, "store of the group is not LocalStore(<path>)")
                sy = self.sym(ls.args[0])
                self.assign_ok(name, s)
                self.groups[name] = sy
                self.emit("TPrim (PGroup %s)" % sym_coq(sy))
                return
        # ---- store inference: if store == "auto": store = ...
        if isinstance(s, ast.If) and isinstance(s.test, ast.Compare) and ast.unparse(s.test) in ("store == 'auto'",):
            if self.store_resolved or self.effect_seen or s.orelse or cond is not None or len(s.body) != 1:
                _rej(s, "store inference outside the grammar")
            b = s.body[0]
            if not (isinstance(b, ast.Assign) and len(b.targets) == 1 and isinstance(b.targets[0], ast.Name)
                    and b.targets[0].id == "store"):
                _rej(s, "store inference outside the grammar")
            self.pure(b.value)
            self.store_resolved = True
            return
        # ---- suffix rule: if store == "zip" and not X.endswith(".zip"): ...; X += ".zip"
        if isinstance(s, ast.If) and isinstance(s.test, ast.BoolOp) and isinstance(s.test.op, ast.And) and len(s.test.values) == 2 \
                and not s.orelse and self.suffix_rule(s, cond):
            return
        # ---- existence check / mode handling
        if isinstance(s, ast.If) and isinstance(s.test, ast.BoolOp) and isinstance(s.test.op, ast.And) and len(s.test.values) == 2:
            a, b = s.test.values
            if self.is_mode_not_o(a):
                a, b = b, a
            ex = self.call_of(a, "os.path.exists", 1)
            if ex is not None and self.is_mode_not_o(b):
                if s.orelse or len(s.body) != 1 or not isinstance(s.body[0], ast.Raise) or cond is not None:
                    _rej(s, "existence check outside the grammar")
                exc = s.body[0].exc
                if not (isinstance(exc, ast.Call) and dotted(exc.func) == "FileExistsError"):
                    _rej(s, "existence check does not raise FileExistsError")
                self.pure(exc)
                self.emit("TPrim (PCheckExists %s)" % sym_coq(self.sym(ex.args[0])))
                return
        # ---- removal of the old target
        if isinstance(s, ast.If) and self.call_of(s.test, "os.path.isdir", 1) is not None:
            x = self.sym(s.test.args[0])
            ok = (len(s.body) == 1 and isinstance(s.body[0], ast.Expr)
                  and self.call_of(s.body[0].value, "shutil.rmtree", 1) is not None and not s.body[0].value.keywords
                  and self.sym(s.body[0].value.args[0]) == x
                  and len(s.orelse) == 1 and isinstance(s.orelse[0], ast.If) and not s.orelse[0].orelse
                  and self.call_of(s.orelse[0].test, "os.path.exists", 1) is not None
                  and self.sym(s.orelse[0].test.args[0]) == x
                  and len(s.orelse[0].body) == 1 and isinstance(s.orelse[0].body[0], ast.Expr)
                  and self.call_of(s.orelse[0].body[0].value, "os.remove", 1) is not None
                  and self.sym(s.orelse[0].body[0].value.args[0]) == x)
            if not ok:
                _rej(s, "removal of the old target outside the grammar")
            self.emit("TPrim (PRemoveOld %s)" % sym_coq(x))
            return
        # ---- blocks on the store
        if isinstance(s, ast.If):
            c = self.is_store_test(s.test)
            if c is not None and self.has_effect(s):
                if s.orelse or cond is not None:
                    _rej(s, "nested / two-armed store block outside the grammar")
                self.emit("TIf %s" % c)
                before = dict(self.env)
                self.block(s.body, cond=c)
                self.emit("TEndIf")
                # variables re-assigned inside the block: conditional value; first defined inside: dropped
                after, self.env = self.env, before
                for k, v in after.items():
                    if k in before and before[k] != v:
                        self.env[k] = ("YIfZip", v, before[k]) if c == "CZip" else ("YIfZip", before[k], v)
                return
            # refusal without effect: if <pure>: raise ValueError(...)
            if len(s.body) == 1 and isinstance(s.body[0], ast.Raise) and not s.orelse and not self.has_effect(s):
                self.pure(s.test)
                exc = s.body[0].exc
                if isinstance(exc, ast.Call) and dotted(exc.func) == "ValueError" and self.effect_seen:
                    self.pure(exc)
                    self.emit("TPrim PValidate")
                    return
        # ---- with blocks
        if isinstance(s, ast.With):
            if len(s.items) != 1 or not isinstance(s.items[0].optional_vars, ast.Name):
                _rej(s, "with statement outside the grammar")
            ce, var = s.items[0].context_expr, s.items[0].optional_vars.id
            self.assign_ok(var, s)
            if self.call_of(ce, "tempfile.TemporaryDirectory", 0) is not None:
                kw = {k.arg: k.value for k in ce.keywords}
                if "dir" not in kw or not set(kw) <= {"dir", "prefix", "suffix"} or cond is not None:
                    _rej(s, "TemporaryDirectory call outside the grammar")
                for k in ("prefix", "suffix"):
                    if k in kw:
                        self.pure(kw[k])
                self.emit("TWithTemp %s" % sym_coq(self.sym(kw["dir"])))
                self.env[var] = "YTmp"
                self.block(s.body, cond)
                self.emit("TEndWithTemp")
                return
            if isinstance(ce, ast.Call) and dotted(ce.func) in ("ZipFile", "zipfile.ZipFile") and len(ce.args) == 1:
                kw = {k.arg: k.value for k in ce.keywords}
                if set(kw) != {"mode"} or not (isinstance(kw["mode"], ast.Constant) and kw["mode"].value == "w"):
                    _rej(s, "ZipFile call outside the grammar")
                z = self.sym(ce.args[0])
                self.emit("TWithZip %s" % sym_coq(z))
                self.zips[var] = z
                self.block(s.body, cond)
                self.emit("TEndWithZip %s" % sym_coq(z))
                del self.zips[var]
                return
            _rej(s, "with statement outside the grammar")
        # ---- zip walk
        if isinstance(s, ast.For) and self.call_of(s.iter, "os.walk", 1) is not None and not s.orelse:
            src = self.sym(s.iter.args[0])
            z = self.walk_body(s.body, s)
            self.emit("TPrim (PZipWalk %s %s)" % (sym_coq(src), sym_coq(z)))
            return
        # ---- expression statements with an effect
        if isinstance(s, ast.Expr) and isinstance(s.value, ast.Call):
            c = s.value
            d = dotted(c.func)
            if d == "os.makedirs":
                kw = {k.arg: k.value for k in c.keywords}
                if len(c.args) != 1 or set(kw) != {"exist_ok"} or not (isinstance(kw["exist_ok"], ast.Constant) and kw["exist_ok"].value is True):
                    _rej(s, "os.makedirs call outside the grammar")
                self.emit("TPrim (PMakeDirs %s)" % sym_coq(self.sym(c.args[0])))
                return
            if d == "self._recursive_save":
                if len(c.args) < 2 or not (isinstance(c.args[0], ast.Name) and c.args[0].id == "self") \
                        or not (isinstance(c.args[1], ast.Name) and c.args[1].id in self.groups):
                    _rej(s, "_recursive_save call outside the grammar")
                for a in c.args[2:]:
                    self.pure(a)
                self.emit("TPrim (PRecursiveSave %s)" % sym_coq(self.groups[c.args[1].id]))
                return
            if d in self.skipmeta:
                if len(c.args) != 1 or c.keywords or not (isinstance(c.args[0], ast.Name) and c.args[0].id in self.groups):
                    _rej(s, "skip-metadata call outside the grammar")
                self.emit("TPrim (PSkipMeta %s)" % sym_coq(self.groups[c.args[0].id]))
                return
            if d == "os.replace":
                if len(c.args) != 2 or c.keywords:
                    _rej(s, "os.replace call outside the grammar")
                self.emit("TPrim (PReplace %s %s)" % (sym_coq(self.sym(c.args[0])), sym_coq(self.sym(c.args[1]))))
                return
        # ---- local function that only writes attributes of its parameter
        if isinstance(s, ast.FunctionDef):
            if cond is not None or len(s.args.args) != 1 or s.decorator_list:
                _rej(s, "local function outside the grammar")
            par = s.args.args[0].arg
            for b in s.body:
                if isinstance(b, ast.Expr) and isinstance(b.value, ast.Constant):
                    continue
                ok = (isinstance(b, ast.Assign) and len(b.targets) == 1 and isinstance(b.targets[0], ast.Subscript)
                      and dotted(b.targets[0].value) == par + ".attrs")
                if not ok:
                    _rej(b, "local function does more than writing attributes of its parameter")
                self.pure(b.value)
            self.skipmeta.add(s.name)
            return
        # ---- anything else must be pure
        self.pure_stmt(s)

    def bind(self, name, value, cond, node):
        if name in ("mode", "store", "self") or name in self.groups or name in self.zips:
            _rej(node, "assignment to a tracked variable outside the grammar")
        self.env[name] = value

    def mentions_tracked(self, e):
        return any(isinstance(n, ast.Name) and n.id in self.env for n in ast.walk(e))

    def has_effect(self, s):
        """does the statement contain a call that is not whitelisted pure"""
        for n in ast.walk(s):
            if isinstance(n, ast.Call):
                d = dotted(n.func)
                if d in PURE_BUILTINS or d in PURE_DOTTED:
                    continue
                if isinstance(n.func, ast.Attribute) and n.func.attr in PURE_METHODS:
                    continue
                return True
            if isinstance(n, (ast.With, ast.Try, ast.For, ast.While)):
                return True
        return False

    def suffix_rule(self, s, cond):
        a, b = s.test.values
        if not (isinstance(a, ast.Compare) and ast.unparse(a) == "store == 'zip'"):
            a, b = b, a
        if not (isinstance(a, ast.Compare) and ast.unparse(a) == "store == 'zip'"):
            return False
        if not (isinstance(b, ast.UnaryOp) and isinstance(b.op, ast.Not) and isinstance(b.operand, ast.Call)
                and isinstance(b.operand.func, ast.Attribute) and b.operand.func.attr == "endswith"
                and isinstance(b.operand.func.value, ast.Name) and len(b.operand.args) == 1
                and isinstance(b.operand.args[0], ast.Constant) and b.operand.args[0].value == ".zip"):
            return False
        x = b.operand.func.value.id
        if self.env.get(x) != "YRaw" or cond is not None or self.effect_seen or not self.store_resolved:
            _rej(s, "suffix rule outside the grammar")
        done = False
        for st_ in s.body:
            if isinstance(st_, ast.AugAssign) and isinstance(st_.target, ast.Name) and st_.target.id == x \
                    and isinstance(st_.op, ast.Add) and isinstance(st_.value, ast.Constant) and st_.value.value == ".zip":
                done = True
            elif isinstance(st_, ast.Assign) and len(st_.targets) == 1 and isinstance(st_.targets[0], ast.Name) \
                    and st_.targets[0].id == x and ast.unparse(st_.value) == "%s + '.zip'" % x:
                done = True
            elif isinstance(st_, ast.Expr):
                self.pure(st_.value)
            else:
                _rej(st_, "suffix rule outside the grammar")
        if not done:
            _rej(s, "suffix rule does not append '.zip'")
        self.env[x] = "YTarget"
        return True

    def walk_body(self, body, node):
        """[for .. in <names>:]* <pure assignments> zf.write(..) -> sym of the archive"""
        found = []

        def go(stmts):
            for b in stmts:
                if isinstance(b, ast.For) and not b.orelse and isinstance(b.iter, ast.Name):
                    go(b.body)
                elif isinstance(b, ast.Expr) and isinstance(b.value, ast.Call) and isinstance(b.value.func, ast.Attribute) \
                        and b.value.func.attr == "write" and isinstance(b.value.func.value, ast.Name) \
                        and b.value.func.value.id in self.zips:
                    for a in list(b.value.args) + [k.value for k in b.value.keywords]:
                        self.pure(a)
                    found.append(self.zips[b.value.func.value.id])
                elif isinstance(b, ast.Assign):
                    self.pure_stmt(b)
                else:
                    _rej(b, "statement inside the archive loop outside the grammar")
        go(body)
        if len(found) != 1:
            _rej(node, "archive loop does not contain exactly one zf.write")
        return found[0]


def find_save(tree):
    for n in tree.body:
        if isinstance(n, ast.ClassDef) and n.name == "AutoSerialize":
            for m in n.body:
                if isinstance(m, ast.FunctionDef) and m.name == "save":
                    return m
    raise Reject("AutoSerialize.save not found")


def translate(src_root: Path):
    """-> (coq text, info)"""
    path = src_root / "quantem" / REL
    fdef = find_save(ast.parse(path.read_text()))
    if fdef.decorator_list:
        raise Reject("save() is decorated")
    tr = Tr(fdef)
    tr.block(fdef.body)
    toks = tr.toks
    text = ("(* GENERATED by harness/c08_tie.py from %s lines %d-%d (AutoSerialize.save) — do not edit *)\n"
            "From QV.lib Require Import Prelude.\n"
            "From QV.model Require Import C08_Model C08_Model_Tree C08_Model_Tie.\n\n"
            "Definition gen_save_toks : list tok :=\n  [%s].\n" % (REL, fdef.lineno, fdef.end_lineno, ";\n   ".join(toks)))
    info = {"source": "%s:%d-%d" % (REL, fdef.lineno, fdef.end_lineno), "n_tokens": len(toks),
            "tokens": toks,
            "ast_sha256": hashlib.sha256(ast.dump(fdef).encode()).hexdigest(),
            "generated_sha256": hashlib.sha256(text.encode()).hexdigest()}
    return text, info


GEN_FLAGS = None


def run_tie(ctx: Ctx) -> bool:
    """translate -> coqc generated file -> coqc fixed proof script -> property file (Print Assumptions).  Failure of any
    step = broken proof obligation (the oracle / correspondence of the check decide whether an input is attached)."""
    import re
    t0 = time.time()
    rec = {"status": "ok", "lemma": "gen_save_is_skeleton"}
    ctx.cov["effect_program_tie"] = rec
    for s in TRUSTED:
        if s not in ctx.cov["trusted_base"]:
            ctx.cov["trusted_base"].append(s)
    saved_cmd = ctx.cov.get("checker_cmd", "")
    saved_problems = list(getattr(ctx, "_proof_problems", []))
    problems = []
    props = GEN_DIR / "C08_GenProperties.v"
    script = GEN_DIR / "C08_GenProofs.v"

    def not_checked(why):
        ths = re.findall(r"(?m)^\s*Theorem\s+(\w+)", props.read_text())
        ctx.cov["obligations"] += len(ths)
        for t in ths:
            ctx.cov["theorems"][t] = "NOT CHECKED (%s)" % why

    try:
        text, info = translate(SRC)
        rec.update(info)
    except Reject as e:
        problems.append("effect-program tie: `gen_save_is_skeleton` can no longer be established: the translator (fail closed) "
                        "rejected the source of AutoSerialize.save: %s" % e)
        not_checked("translator rejected the source")
        text = None
    flags = COQ_FLAGS + ["-Q", str(ctx.dir), "GenC08"]
    if text is not None:
        gen = ctx.dir / "Gen_C08.v"
        for stale in (gen.with_suffix(".vo"), ctx.dir / "C08_GenProofs.vo", ctx.dir / "C08_GenProperties.vo"):
            if stale.exists():
                stale.unlink()
        gen.write_text(text)
        rec["generated_file"] = str(gen)
        bad = ctx.static_scan([gen, script, props])
        if bad:
            problems.append("forbidden declarations: %s" % bad[:5])
        rc, out = ctx.coq_make(["proof/C08_Proofs_Tie.vo"])
        if rc != 0:
            problems.append("effect-program tie: library build failed:\n" + "\n".join(out.strip().splitlines()[-10:]))
        rc, out = sh(["timeout", "300", "coqc"] + flags + [str(gen)], cwd=ctx.dir, timeout=330)
        if rc != 0:
            problems.append("effect-program tie: generated file Gen_C08.v does not compile:\n" + "\n".join(out.strip().splitlines()[-12:]))
            not_checked("generated file does not compile")
        else:
            rc, out = sh(["timeout", "300", "coqc"] + flags + ["-o", str(ctx.dir / "C08_GenProofs.vo"), str(script)],
                         cwd=ctx.dir, timeout=330)
            if rc != 0:
                problems.append("effect-program tie: the effect program extracted from the current source of AutoSerialize.save "
                                "(%s) no longer evaluates to the skeleton `save_skeleton` the C08 theorems are about (order of "
                                "existence check / makedirs / staging / writes / zip assembly / removal / rename, the `with` "
                                "scopes around them, or the variable version reaching a site changed): fixed proof script "
                                "C08_GenProofs.v fails:\n%s" % (" ; ".join(info["tokens"]), "\n".join(out.strip().splitlines()[-10:])))
                not_checked("fixed proof script fails")
            elif not ctx.require_proofs(props_name="C08_GenProperties", props_path=props,
                                        extra_flags=["-Q", str(ctx.dir), "GenC08"], make_targets=[]):
                problems += ["effect-program tie: " + p for p in ctx._proof_problems]
    ctx._proof_problems = saved_problems
    ctx.cov["checker_cmd"] = (saved_cmd + "  ;  python -m harness.c08_tie > build/C08/Gen_C08.v && coqc ... Gen_C08.v && "
                              "coqc ... coq/gen_proofs/C08_GenProofs.v && coqc ... coq/gen_proofs/C08_GenProperties.v")
    rec["wall_s"] = round(time.time() - t0, 2)
    if problems:
        rec["status"] = "broken"
        rec["problems"] = [p[:1500] for p in problems]
        msg = "; ".join(problems)
        ctx.broken_obligation = (ctx.broken_obligation + "; " + msg) if ctx.broken_obligation else msg
        ctx.log("PROOF OBLIGATION BROKEN (effect-program tie):", msg[:2500])
        return False
    ctx.log("effect-program tie: %d tokens extracted from AutoSerialize.save (%s), tied by theorem to save_prog / tree_prog (%.1fs)"
            % (rec["n_tokens"], rec.get("source"), rec["wall_s"]))
    return True


if __name__ == "__main__":
    import sys
    try:
        sys.stdout.write(translate(SRC)[0])
    except Reject as e:
        print("REJECTED:", e)
        sys.exit(1)
