#!/bin/bash
# offline setup: build the whole Coq development (full .vo build) from files on disk
cd "$(dirname "$0")" || exit 2
export OCAMLRUNPARAM=${OCAMLRUNPARAM:-s=1M}
mkdir -p build evidence build/empty_config
cd coq || exit 2
python3 -c "import sys; sys.path.insert(0,'/verif'); from harness.common import coqproject_text, COQ; (COQ/'_CoqProject').write_text(coqproject_text())" || exit 1
coq_makefile -f _CoqProject -o Makefile > /dev/null || exit 1
# -k: a proof that does not build must not stop the other properties' libraries from building;
# each check rebuilds (and reports) its own closure
timeout 3000 make -k -j"$(nproc)" > ../build/setup_make.log 2>&1
rc=$?
tail -5 ../build/setup_make.log
echo "setup: make rc=$rc (per-property checks rebuild their own closure and report failures)"
exit 0
