(* C17 — FIXED MEANINGS of the library calls that harness/translate_C17.py emits when it translates
   the unwrapping code of quantem/core/utils/imaging_utils.py (build/C17/Gen_C17.v).  Executable
   definitions ONLY; the lemmas about them are in proof/C17_Proofs_Tie.v.

   Tensors:  a 1-D integer tensor is a `list nat` / `list Z`, a 1-D float / bool tensor that is only
   ever READ by index (phi.flatten(), reliability.flatten(), mask.flatten()) is a total function
   nat -> Q / nat -> bool of the flat row-major pixel index, a 2-D index tensor is `tens`
   (shape + entry function).  Float tensors of the union-find (offset, total, incs) hold
   integer-valued numbers and are lists of Z. *)
From QV.lib Require Import Prelude.
From QV.model Require Import C17_Model C17_Model_Ext.
From Coq Require Import QArith Qround.
Local Close Scope Q_scope.

(* Python / torch `a % b` on floats: a - b * floor(a / b) *)
Definition qmod (a b : Q) : Q := (a - b * inject_Z (Qfloor (a / b)))%Q.
Definition Qgtb (a b : Q) : bool := Qltb b a.

(* ---------------------------------------------------------------- UnionFindPhase arrays *)
(* self.parent[i], self.rank[i], self.offset[i]  (reads inside the arrays; the defaults for an
   index outside the array are the model's: the code never reads there) *)
Definition rd_parent (st : uf) (i : nat) : nat := nth i (parent st) i.
Definition rd_rank (st : uf) (i : nat) : nat := nth i (rank st) 0.
Definition rd_offset (st : uf) (i : nat) : Z := nth i (offset st) 0%Z.
(* self.parent[i] = v, ... *)
Definition set_parent (st : uf) (i v : nat) : uf :=
  {| parent := upd i v (parent st); rank := rank st; offset := offset st |}.
Definition set_rank (st : uf) (i v : nat) : uf :=
  {| parent := parent st; rank := upd i v (rank st); offset := offset st |}.
Definition set_offset (st : uf) (i : nat) (v : Z) : uf :=
  {| parent := parent st; rank := rank st; offset := upd i v (offset st) |}.

(* ---------------------------------------------------------------- 1-D tensors *)
Definition t_arange (n : nat) : list nat := seq 0 n.             (* torch.arange(n) *)
Definition t_zeros_nat (n : nat) : list nat := repeat 0 n.       (* torch.zeros(n, dtype=int32) *)
Definition t_zeros_Z (n : nat) : list Z := repeat 0%Z n.         (* torch.zeros(n) *)
(* f[idx] for an index tensor idx *)
Definition gather {A : Type} (f : nat -> A) (idx : list nat) : list A := map f idx.
(* l[k] *)
Definition lget {A : Type} (d : A) (l : list A) (k : nat) : A := nth k l d.
(* l[b] for a boolean tensor b of the same length *)
Fixpoint bsel {A : Type} (b : list bool) (l : list A) : list A :=
  match b, l with
  | true :: b', x :: l' => x :: bsel b' l'
  | false :: b', _ :: l' => bsel b' l'
  | _, _ => []
  end.
(* elementwise binary operation on two tensors of the same length *)
Fixpoint map2 {A B C : Type} (f : A -> B -> C) (la : list A) (lb : list B) : list C :=
  match la, lb with
  | a :: la', b :: lb' => f a b :: map2 f la' lb'
  | _, _ => []
  end.
(* keys.argsort(): positions in ascending key order; ties in position order (torch.argsort is
   not stable: for tied keys the implementation may return any order) *)
Definition argsort (keys : list Q) : list nat :=
  map snd (isort_kv (combine keys (seq 0 (length keys)))).

(* ---------------------------------------------------------------- 2-D index tensors *)
Record tens := mkT { t_rows : nat; t_cols : nat; t_at : nat -> nat -> nat }.
(* l.reshape(h, w): row-major *)
Definition t_reshape (h w : nat) (l : list nat) : tens :=
  mkT h w (fun r c => nth (r * w + c) l 0).
(* t.flatten(): row-major *)
Definition t_flatten (t : tens) : list nat :=
  flat_map (fun r => map (fun c => t_at t r c) (seq 0 (t_cols t))) (seq 0 (t_rows t)).
(* torch.roll(t, s, axis): out[i] = t[(i - s) mod n] along the axis *)
Definition rollpos (n : nat) (s : Z) (i : nat) : nat :=
  Z.to_nat ((Z.of_nat i - s) mod Z.of_nat n).
Definition t_roll (s : Z) (axis : nat) (t : tens) : tens :=
  match axis with
  | 0 => mkT (t_rows t) (t_cols t) (fun r c => t_at t (rollpos (t_rows t) s r) c)
  | _ => mkT (t_rows t) (t_cols t) (fun r c => t_at t r (rollpos (t_cols t) s c))
  end.
(* Python slice bound normalisation for a dimension of length n *)
Definition sl_norm (n : nat) (o : option Z) (dflt : nat) : nat :=
  match o with
  | None => dflt
  | Some k => if (k <? 0)%Z then Z.to_nat (Z.max 0 (Z.of_nat n + k)) else Nat.min (Z.to_nat k) n
  end.
(* t[rlo:rhi, clo:chi] (step 1) *)
Definition t_slice (rlo rhi clo chi : option Z) (t : tens) : tens :=
  let r0 := sl_norm (t_rows t) rlo 0 in
  let r1 := sl_norm (t_rows t) rhi (t_rows t) in
  let c0 := sl_norm (t_cols t) clo 0 in
  let c1 := sl_norm (t_cols t) chi (t_cols t) in
  mkT (r1 - r0) (c1 - c0) (fun r c => t_at t (r0 + r) (c0 + c)).

(* ---------------------------------------------------------------- the `edges` list of _build_edges *)
(* one appended tuple (i1, i2, rel, inc) of parallel 1-D tensors *)
Definition erow := (list nat * list nat * list Q * list Z)%type.
(* (torch.cat(col, dim=0) for col in zip( *edges)) *)
Definition cat_cols (es : list erow) : erow :=
  (concat (map (fun e => fst (fst (fst e))) es),
   concat (map (fun e => snd (fst (fst e))) es),
   concat (map (fun e => snd (fst e)) es),
   concat (map (fun e => snd e) es)).

(* ---------------------------------------------------------------- float tensors of the driver *)
(* phi.flatten() as a list (row-major logical order, whatever the memory layout) *)
Definition t_list (n : nat) (f : nat -> Q) : list Q := map f (seq 0 n).
(* q * incs for an integer-valued float tensor *)
Definition qscale (q : Q) (l : list Z) : list Q := map (fun k => (q * inject_Z k)%Q) l.

(* ---------------------------------------------------------------- harness glue (cross-test) *)
Definition zip3 (a b : list nat) (c : list Z) : list edge :=
  map2 (fun ab c => (fst ab, snd ab, c)) (combine a b) c.
Definition triples_of (r : list nat * list nat * list Z) : list (Z * Z * Z) :=
  ztriples (zip3 (fst (fst r)) (snd (fst r)) (snd r)).
Definition fn_of (den : positive) (l : list Z) : nat -> Q := fun i => Qmake (nth i l 0%Z) den.
Definition fnq (l : list Q) : nat -> Q := fun i => nth i l 0%Q.
