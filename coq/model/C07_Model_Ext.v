(* C07 — extension of the model (round 3): parameters and callers of radon.py that the first
   model fixed or left out.

     * `output_size` as an explicit parameter of the filtered back-projection (the first model
       only had the default N / floor(N / sqrt 2));
     * the padded FFT size as INTEGER arithmetic (bit_length), the form a refactor of
       `int(2 ** ceil(log2(2 N)))` would take, and the seeded variant `1 << (2 N).bit_length()`;
     * the crop of a non-square image to its central square (radon_torch / skimage.radon);
     * one SIRT epoch of tomography_conv.py (TomographyConv._sirt_run_epoch): forward projection
       of the volume, back-projection of the error with the chosen filter, normalisation by the
       back-projection of ones with filter None.

   Definitions only; proofs are in proof/C07_Proofs_Ext.v. *)
From QV.lib Require Import Prelude.
From QV.model Require Import C07_Model.
From Coq Require Import QArith Qround Qabs.
Local Open Scope Q_scope.

(* ------------------------------------------------------------ explicit output size *)
Section IRADON_OUT.
  Variable hker : Z -> Z -> Q.
  Variable pi : Q.

  Definition sk_iradon_out (out A N : Z) (circle : bool) (ang : Z -> Q * Q) (sino : Z -> Z -> Q)
    (row col : Z) : Q :=
    let S := sk_det_size N circle in
    let pb := sk_pad_before N circle in
    let P := padded_size S in
    let acc := sumQ (fun i => np_interp (- (S / 2)) S (circ_filter hker P S (pad_col pb N (sino i)))
                                        (sk_t out (fst (ang i)) (snd (ang i)) row col)) (zrange A) in
    (if circle && outside_circle out row col then 0 else acc) * pi / (2 * iz A).

  Definition port_iradon_out (v : variant) (out A N : Z) (circle : bool) (ang : Z -> Q * Q)
    (sino : Z -> Z -> Q) (row col : Z) : Q :=
    let S := port_det_size v N circle in
    let pb := port_pad_before v N circle in
    let P := padded_size S in
    let acc := sumQ (fun i => port_interp v S (circ_filter hker P S (pad_col pb N (sino i)))
                                          (port_t out (fst (ang i)) (snd (ang i)) row col)) (zrange A) in
    (if circle && outside_circle out row col then 0 else acc) * (pi / (2 * iz A)).
End IRADON_OUT.

(* ------------------------------------------------------------ padded FFT size, integer forms *)
(* Python int.bit_length() of a non-negative integer *)
Definition bit_length (z : Z) : Z := if (z <=? 0)%Z then 0%Z else (Z.log2 z + 1)%Z.

(* max(64, 1 << (2 m - 1).bit_length()): the correct integer form of max(64, 2 ** ceil(log2(2 m))) *)
Definition padded_size_int (m : Z) : Z := Z.max 64 (2 ^ bit_length (2 * m - 1)).

(* max(64, 1 << (2 m).bit_length()): the seeded change C07-a *)
Definition padded_size_seeded (m : Z) : Z := Z.max 64 (2 ^ bit_length (2 * m)).

(* ------------------------------------------------------------ crop of a non-square image *)
(* skimage: slice(int(np.ceil(excess / 2)), int(np.ceil(excess / 2) + shape_min)) if excess > 0 else slice(None)
   port:    slice(int((e + 1) // 2), int((e + 1) // 2 + shape_min))           if e > 0      else slice(None) *)
Definition sk_crop_start (excess : Z) : Z := if (0 <? excess)%Z then Qceiling (iz excess / 2) else 0%Z.
Definition port_crop_start (excess : Z) : Z := if (0 <? excess)%Z then ((excess + 1) / 2)%Z else 0%Z.

(* the disc of an H x W image (centre (H//2, W//2), radius min(H, W)//2) and the cropped, masked image *)
Definition in_disc_rect (H W r k : Z) : bool :=
  ((k - W / 2) ^ 2 + (r - H / 2) ^ 2 <=? (Z.min H W / 2) ^ 2)%Z.
Definition crop_masked (start : Z -> Z) (H W : Z) (img : image) : image :=
  let m := Z.min H W in
  fun r k => let r' := (r + start (H - m))%Z in let k' := (k + start (W - m))%Z in
             if in_disc_rect H W r' k' then img r' k' else 0.

(* ------------------------------------------------------------ one SIRT epoch (tomography_conv.py) *)
(* sinogram_est = radon(obj); error = tilt - sinogram_est; correction = iradon(error, filter);
   normalization = iradon(ones, None); normalization[normalization == 0] = 1e-6;
   obj += correction / normalization            (one slice; the code batches over slices) *)
Definition sirt_update (rad : image -> Z -> Z -> Q) (irad irad_none : (Z -> Z -> Q) -> Z -> Z -> Q)
  (tilt : Z -> Z -> Q) (obj : image) (row col : Z) : Q :=
  let err := fun i j => tilt i j - rad obj i j in
  let nrm := irad_none (fun _ _ => 1) row col in
  obj row col + irad err row col / (if Qeq_bool nrm 0 then 1 # 1000000 else nrm).

Section SIRT.
  Variable sample : sampler.
  Variables hker : Z -> Z -> Q.
  Variable pi : Q.
  Definition port_sirt (v : variant) (A n : Z) (ang : Z -> Q * Q) :=
    sirt_update (fun obj i j => port_radon v sample obj n (fst (ang i)) (snd (ang i)) j)
                (port_iradon hker pi v A n true ang) (port_iradon delta_ker pi v A n true ang).
  Definition sk_sirt (A n : Z) (ang : Z -> Q * Q) :=
    sirt_update (fun obj i j => sk_radon sample (disc_mask n obj) n (fst (ang i)) (snd (ang i)) j)
                (sk_iradon hker pi A n true ang) (sk_iradon delta_ker pi A n true ang).
End SIRT.
