(* C10 — object and probe constraints.  Executable model of
     quantem.diffractive_imaging.object_models.ObjectConstraints.apply_hard_constraints
        (complex / pure_phase objects in amplitude-phase form, potential objects, FOV mask (repaired),
         baseline offset, positivity clamp, slice tying; no Gaussian / Butterworth filter)
     quantem.tomography.object_models.ObjectConstraints.apply_hard_constraints (clamp, shrinkage)
     quantem.diffractive_imaging.probe_models.ProbeConstraints._probe_orthogonalization_constraint
        (modified Gram-Schmidt in unnormalised form + squared restore scale + descending sort)
     quantem.diffractive_imaging.probe_models.ProbePixelated._apply_weights and the
        initial_probe_weights setter (on mode intensities)
   Part A is over the ordered field Q (setoid equality ==); part B over canonical rationals Qc and
   Q(i) = Qc * Qc (Leibniz equality; lib/C10_Cplx.v).  Definitions only; proofs in proof/C10_Proofs*.v. *)
From QV.lib Require Import Prelude C10_Cplx.
From Coq Require Import QArith Qcanon.
Local Close Scope Q_scope.

(* ================================================================ Part A: objects (Q) *)
Local Open Scope Q_scope.

Inductive obj_type := Complex | PurePhase | Potential.

(* the entries of ObjectConstraints.constraints that reach apply_hard_constraints when no
   smoothing filter is set (gaussian_sigma = q_lowpass = q_highpass = None) *)
Record ocfg := {
  positivity : bool;
  fix_baseline : bool;           (* fix_potential_baseline *)
  baseline_factor : Q;           (* fix_potential_baseline_factor *)
  identical_slices : bool;
  apply_fov_mask : bool
}.

Definition qmax (a b : Q) : Q := if Qle_bool a b then b else a.
Definition qmin (a b : Q) : Q := if Qle_bool a b then a else b.
Definition qltb (a b : Q) : bool := negb (Qle_bool b a).
(* torch.clamp(x, lo, hi) = min(max(x, lo), hi) *)
Definition qclamp (x lo hi : Q) : Q := qmin (qmax x lo) hi.

Fixpoint qsum (l : list Q) : Q :=
  match l with [] => 0 | x :: r => x + qsum r end.
Definition qmean (l : list Q) : Q := qsum l / inject_Z (Z.of_nat (length l)).
Definition list_min (l : list Q) : Q := match l with [] => 0 | x :: r => fold_left qmin r x end.
Definition list_max (l : list Q) : Q := match l with [] => 0 | x :: r => fold_left qmax r x end.

(* a complex / pure-phase pixel r * exp(i * phi) is the pair (r, phi): r = torch.abs, phi = angle *)
Definition polar := (Q * Q)%type.

(* `mask is not None and self.constraints["apply_fov_mask"]` *)
Definition use_mask (cfg : ocfg) (mask : option (list Q)) : option (list Q) :=
  if apply_fov_mask cfg then mask else None.

(* one pixel of the complex / pure_phase branch (with fixes/C10-pure-phase-fov-mask.diff applied).
     amp   = clamp(|obj|, 0, 1) [* mask]   (complex)   |   1.0  (pure_phase: the mask never touches it)
     phase = (angle - angle.mean()) [* mask]
     obj2  = amp * exp(1j * phase)
   [..] only when `mask is not None and self.constraints["apply_fov_mask"]` *)
Definition polar_pixel (ty : obj_type) (mean_ph : Q) (m : option Q) (p : polar) : polar :=
  let amp := match ty with
             | Complex => let a := qclamp (fst p) 0 1 in
                          match m with Some mk => a * mk | None => a end
             | _ => 1
             end in
  let ph := snd p - mean_ph in
  (amp, match m with Some mk => ph * mk | None => ph end).

(* the code BEFORE the repair (the snapshot of /repo):
     masked:  obj2 = amp * mask * exp(1j * phase * mask);  then  obj2 *= mask
   i.e. amplitude mask^2 for a "pure-phase" object.  Only used by the Example that records the
   defect (C10_unrepaired_pure_phase_refuted) and by the check when it describes a finding. *)
Definition polar_pixel_unrepaired (ty : obj_type) (mean_ph : Q) (m : option Q) (p : polar) : polar :=
  let amp := match ty with Complex => qclamp (fst p) 0 1 | _ => 1 end in
  let ph := snd p - mean_ph in
  match m with
  | Some mk => (amp * mk * mk, ph * mk)
  | None => (amp, ph)
  end.

(* apply a per-pixel function along one slice, the mask (if used) broadcast over slices *)
Definition map_mask {A B : Type} (f : option Q -> A -> B) (mask : option (list Q)) (l : list A) : list B :=
  match mask with
  | None => map (f None) l
  | Some ms => map (fun mx => f (Some (fst mx)) (snd mx)) (combine ms l)
  end.

(* object = list of slices, each the flattened list of pixels *)
Definition hard_polar (ty : obj_type) (cfg : ocfg) (mask : option (list Q))
           (obj : list (list polar)) : list (list polar) :=
  let mean_ph := qmean (concat (map (map snd) obj)) in
  map (map_mask (polar_pixel ty mean_ph) (use_mask cfg mask)) obj.

Definition amps (t : list (list polar)) : list (list Q) := map (map fst) t.

(* slice tying:  obj2[:] = torch.mean(obj2, dim=0, keepdim=True)   (one real channel; a complex
   object is two channels, re and im) *)
Definition qzip_add (a b : list Q) : list Q := map (fun xy => fst xy + snd xy) (combine a b).
Definition slices_sum (xs : list (list Q)) : list Q :=
  match xs with [] => [] | x :: r => fold_left qzip_add r x end.
Definition slices_mean (xs : list (list Q)) : list Q :=
  map (fun s => s / inject_Z (Z.of_nat (length xs))) (slices_sum xs).
Definition tie_slices (xs : list (list Q)) : list (list Q) := repeat (slices_mean xs) (length xs).
(* `if self.num_slices > 1: if self.constraints["identical_slices"]:` *)
Definition tie_if (cfg : ocfg) (xs : list (list Q)) : list (list Q) :=
  if (Nat.ltb 1 (length xs) && identical_slices cfg)%bool then tie_slices xs else xs.

(* potential branch: the baseline offset *)
Definition baseline_offset (cfg : ocfg) (mask : option (list Q)) (obj : list (list Q)) : Q :=
  if fix_baseline cfg then
    (match mask with
     | Some ms =>
       let thr := (1 # 2) * list_max ms in                  (* 0.5 * mask.max() *)
       let bg := concat (map (fun sl => map snd (filter (fun mx => qltb (fst mx) thr) (combine ms sl))) obj) in
       match bg with
       | [] => list_min (concat obj)                         (* not background.any(): obj.min() *)
       | _ => qmean bg                                       (* obj[background].mean() *)
       end
     | None => list_min (concat obj)
     end) * baseline_factor cfg
  else 0.

Definition potential_pixel (cfg : ocfg) (off : Q) (x : Q) : Q :=
  if positivity cfg then qmax (x - off) 0 else x - off.      (* torch.clamp(obj - offset, min=0.0) *)

Definition hard_potential (cfg : ocfg) (mask : option (list Q)) (obj : list (list Q)) : list (list Q) :=
  let off := baseline_offset cfg mask obj in
  let o2 := map (map (potential_pixel cfg off)) obj in
  let o3 := map (map_mask (fun m x => match m with Some mk => x * mk | None => x end) (use_mask cfg mask)) o2 in
  tie_if cfg o3.

(* tomography: positivity clamp, then shrinkage (soft threshold at 0); `shrink = None` when the
   dictionary entry is falsy *)
Definition tomo_pixel (pos : bool) (shrink : option Q) (x : Q) : Q :=
  let x1 := if pos then qmax x 0 else x in
  match shrink with
  | Some s => qmax (x1 - s) 0
  | None => x1
  end.
Definition tomo_hard (pos : bool) (shrink : option Q) (obj : list Q) : list Q :=
  map (tomo_pixel pos shrink) obj.

(* ---- vocabulary of the statements (part A) *)
(* a FOV mask with every entry in [0,1] (or no mask) *)
Definition mask_in_01 (mask : option (list Q)) : Prop :=
  match mask with None => True | Some ms => Forall (fun m => 0 <= m <= 1) ms end.
(* the mask is not applied (flag off or no mask), or it is a binary mask (every entry 0 or 1;
   includes the all-ones mask) *)
Definition mask_binary (cfg : ocfg) (mask : option (list Q)) : Prop :=
  match use_mask cfg mask with None => True | Some ms => Forall (fun m => m == 0 \/ m == 1) ms end.
(* two amplitude tensors agree entrywise *)
Definition amps_eq (a b : list (list Q)) : Prop := Forall2 (Forall2 Qeq) a b.
(* complex-valued object types (the ones that have an amplitude to constrain) *)
Definition is_wave (ty : obj_type) : Prop := ty = Complex \/ ty = PurePhase.

Local Close Scope Q_scope.

(* ================================================================ Part B: probes (Qc, Q(i)) *)
Local Open Scope Qc_scope.

(* r - (<u, r> / <u, u>) u : the projection the code writes as  sum(e.conj() * r) * e  with
   e = u / ||u||  (orthogonal_probes[j] is the normalised residual) *)
Definition proj_coef (u r : vec) : C := cscale (/ norm2 u) (dot u r).
Definition proj_sub (r u : vec) : vec := vsub r (vscale (proj_coef u r) u).

(* inner loop: the running residual is projected against each earlier mode in turn (modified
   Gram-Schmidt, as written) *)
Definition residual (us : list vec) (p : vec) : vec := fold_left proj_sub us p.

(* the same residual in the classical form  p - sum_j (<u_j, p> / <u_j, u_j>) u_j *)
Definition cgs_residual (us : list vec) (p : vec) : vec :=
  fold_left (fun r u => vsub r (vscale (proj_coef u p) u)) us p.

(* outer loop: unnormalised residuals u_1 .. u_n in input order *)
Definition gs (ps : list vec) : list vec :=
  fold_left (fun us p => us ++ [residual us p]) ps [].

(* a mode (s, u) denotes the vector sqrt(s) * u:  u / ||u|| * ||p||  has  s = ||p||^2 / ||u||^2 *)
Notation mode := (Qc * list C)%type (only parsing).
Definition restore (p u : vec) : mode := (norm2 p / norm2 u, u).
Definition gs_modes (ps : list vec) : list mode :=
  map (fun pu => restore (fst pu) (snd pu)) (combine ps (gs ps)).

(* sum |sqrt(s) u_k|^2  and  |<sqrt(s1) u1, sqrt(s2) u2>|^2 : both rational *)
Definition mode_intensity (m : mode) : Qc := fst m * norm2 (snd m).
Definition mode_gram2 (m1 m2 : mode) : Qc := fst m1 * fst m2 * cnorm2 (dot (snd m1) (snd m2)).

(* argsort(intensities, descending=True): stable insertion sort *)
Definition qc_leb (a b : Qc) : bool := Qle_bool (this a) (this b).
Fixpoint insert_desc (x : mode) (l : list mode) : list mode :=
  match l with
  | [] => [x]
  | y :: l' => if qc_leb (mode_intensity y) (mode_intensity x) then x :: l else y :: insert_desc x l'
  end.
Definition sort_desc (l : list mode) : list mode := fold_right insert_desc [] l.

Definition orthogonalize (ps : list vec) : list mode := sort_desc (gs_modes ps).

(* linear combinations / linear independence of n-vectors *)
Fixpoint lincomb (n : nat) (cs : list C) (ps : list vec) : vec :=
  match cs, ps with
  | c :: cs', p :: ps' => vadd (vscale c p) (lincomb n cs' ps')
  | _, _ => vzeros n
  end.
(* every vector has n entries (the probe stack is a rectangular tensor) *)
Definition allN (n : nat) (l : list vec) : Prop := Forall (fun p => length p = n) l.
Definition lin_indep (n : nat) (ps : list vec) : Prop :=
  forall cs, length cs = length ps -> lincomb n cs ps = vzeros n -> Forall (fun c => c = c0) cs.

(* ---------------------------------------------------------------- initial-probe scaling *)
Fixpoint qcsum (l : list Qc) : Qc :=
  match l with [] => 0 | x :: r => x + qcsum r end.

Definition qc_of_nat (k : nat) : Qc := Q2Qc (inject_Z (Z.of_nat k)).

(* initial_probe_weights setter: w / sum(w), or the default [1 - 0.02 (n-1), 0.02, ...] *)
Definition norm_weights (raw : list Qc) : list Qc := map (fun w => w / qcsum raw) raw.
Definition default_weights (n : nat) : list Qc :=
  match n with
  | O => []
  | S k => (1 - Q2Qc (2 # 100) * qc_of_nat k) :: repeat (Q2Qc (2 # 100)) k
  end.

(* _apply_weights on the mode intensities I_i = sum |probe_i|^2 (Parseval: = sum |fft2_ortho|^2):
     probes *= sqrt(mean / sum I)                     -> I1
     current = I1 / sum I1;  probes *= sqrt(w / current) -> I2 *)
Definition apply_weights (mean : Qc) (w I : list Qc) : list Qc :=
  let k := mean / qcsum I in
  let I1 := map (fun x => x * k) I in
  let tot1 := qcsum I1 in
  map (fun wx => snd wx * (fst wx / (snd wx / tot1))) (combine w I1).

(* the squared factor by which mode i is multiplied overall *)
Definition weight_scales (mean : Qc) (w I : list Qc) : list Qc :=
  let k := mean / qcsum I in
  let I1 := map (fun x => x * k) I in
  let tot1 := qcsum I1 in
  map (fun wx => k * (fst wx / (snd wx / tot1))) (combine w I1).

(* ================================================================ Part B' (round 3): the guards *)
(* ---------------------------------------------------------------- orthogonalisation WITH clamp_min
     norm = sqrt(sum |r|^2).clamp_min(1e-12);  orthogonal_probes.append(r / norm)
   With e = u / max(|u|, eps) the projection the code subtracts is
     <e, r> e = (<u, r> / max(|u|, eps)^2) u = (<u, r> / max(|u|^2, eps^2)) u
   and the restored mode  e * |p|  is  sqrt(s) u  with  s = |p|^2 / max(|u|^2, eps^2):
   still rational in eps2 = eps^2.  (For |u|^2 >= eps2 this is the model above; for u = 0 both
   coefficients are 0 — Qc has /0 = 0 and <0, r> = 0; in between the projection is only partial.) *)
Definition qcmax (a b : Qc) : Qc := if qc_leb a b then b else a.
Definition proj_coef_c (eps2 : Qc) (u r : vec) : C := cscale (/ qcmax (norm2 u) eps2) (dot u r).
Definition proj_sub_c (eps2 : Qc) (r u : vec) : vec := vsub r (vscale (proj_coef_c eps2 u r) u).
Definition residual_c (eps2 : Qc) (us : list vec) (p : vec) : vec := fold_left (proj_sub_c eps2) us p.
Definition gs_c (eps2 : Qc) (ps : list vec) : list vec :=
  fold_left (fun us p => us ++ [residual_c eps2 us p]) ps [].
Definition restore_c (eps2 : Qc) (p u : vec) : mode := (norm2 p / qcmax (norm2 u) eps2, u).
Definition gs_modes_c (eps2 : Qc) (ps : list vec) : list mode :=
  map (fun pu => restore_c eps2 (fst pu) (snd pu)) (combine ps (gs_c eps2 ps)).
Definition orthogonalize_c (eps2 : Qc) (ps : list vec) : list mode := sort_desc (gs_modes_c eps2 ps).
(* the constant of the code: (1e-12)^2 *)
Definition eps2_code : Qc := Q2Qc (1 # 1000000000000000000000000).

(* the clamp is "clean" on a family of residuals: each is exactly zero (a linearly dependent or zero
   input mode) or at least eps long (the clamp does not act) *)
Definition clamp_clean (eps2 : Qc) (us : list vec) : Prop :=
  Forall (fun u => norm2 u = 0 \/ eps2 <= norm2 u) us.
(* intensity an input mode p with Gram-Schmidt residual u keeps: nothing when the residual vanishes *)
Definition kept_intensity (p u : vec) : Qc := if qc_leb (norm2 u) 0 then 0 else norm2 p.

(* ---------------------------------------------------------------- requested weights: the guards
   the setter checks ONLY `len(weights) != self.num_probes` (ValueError); then w / sum(w) *)
Definition weights_guard_code (raw I : list Qc) : Prop := length raw = length I.
(* what makes the request meaningful: a non-zero sum and non-negative RELATIVE weights (all weights
   of one sign; zeros allowed) — then sqrt(w / current) is real *)
Definition weights_admissible (raw : list Qc) : Prop :=
  qcsum raw <> 0 /\ Forall (fun w => 0 <= w / qcsum raw) raw.

(* ---------------------------------------------------------------- one map applied to every mode
   (center_probe with fixes/C10-center-probe-common-shift.diff: one Fourier shift for the stack) *)
Definition map_modes (U : vec -> vec) (ms : list mode) : list mode := map (fun m => (fst m, U (snd m))) ms.
Definition isometry (U : vec -> vec) : Prop := forall a b, length a = length b -> dot (U a) (U b) = dot a b.
