(* C06 — Dataset.bin / fourier_resample / pad / crop
   (src/quantem/core/datastructures/dataset.py).  Executable definitions only; the proofs are
   in proof/C06_Proofs.v.

   Tensors are flat row-major lists with a shape.  An axis `a` of a tensor of shape `sh` is
   seen through the view (outer, n, inner) = (prod sh[:a], sh[a], prod sh[a+1:]): element
   (o, i, k) lives at flat index (o*n + i)*inner + k.  A NumPy reshape does not move data in
   a row-major buffer, so "reshape to (.., nblocks, fac, ..) and sum over the fac axis" is the
   flat-index arithmetic of [reduce_blocks] below.

   - bin / pad / crop data: exact, on canonical rationals Qc (Leibniz equality).
   - metadata (origin, sampling): Qc.
   - fourier_resample along one axis: on the abstract commutative ring of lib/DFT.v. *)
From QV.lib Require Import Prelude FinSum DFT FloatBits.
From Coq Require Import QArith Qcanon PrimFloat.
Local Close Scope Q_scope.
Local Close Scope Qc_scope.
Unset Implicit Arguments.

(* ------------------------------------------------------------------------------------ *)
(* shapes and the (outer, n, inner) view of an axis *)
Definition prod (l : list nat) : nat := fold_right Nat.mul 1 l.
Definition set_nth {A : Type} (i : nat) (v : A) (l : list A) : list A :=
  firstn i l ++ v :: skipn (S i) l.
Definition outer_of (a : nat) (sh : list nat) : nat := prod (firstn a sh).
Definition len_of (a : nat) (sh : list nat) : nat := nth a sh 0.
Definition inner_of (a : nat) (sh : list nat) : nat := prod (skipn (S a) sh).

Record tensor (A : Type) := mkT { shape : list nat; data : list A }.
Arguments mkT {A} shape data.
Arguments shape {A} t.
Arguments data {A} t.

Definition wf {A : Type} (t : tensor A) : Prop := length (data t) = prod (shape t).

(* o-th row of width w of a flat buffer *)
Definition row {A : Type} (w o : nat) (x : list A) : list A := firstn w (skipn (o * w) x).

(* ------------------------------------------------------------------------------------ *)
(* slicing and zero padding along one axis; any element type *)
Section Poly.
  Variable A : Type.
  Variable zero : A.

  (* x[..., start:stop, ...] with 0 <= start, stop <= n already normalised *)
  Definition slice_axis (outer n inner start stop : nat) (x : list A) : list A :=
    flat_map (fun o => firstn ((stop - start) * inner) (skipn (start * inner) (row (n * inner) o x)))
             (seq 0 outer).

  (* x[..., 0:L, ...] *)
  Definition take_axis (outer n inner L : nat) (x : list A) : list A :=
    flat_map (fun o => firstn (L * inner) (row (n * inner) o x)) (seq 0 outer).

  (* np.pad(x, (b, a)) along the axis, mode="constant" (zeros) *)
  Definition pad_axis (outer n inner b a : nat) (x : list A) : list A :=
    flat_map (fun o => repeat zero (b * inner) ++ row (n * inner) o x ++ repeat zero (a * inner))
             (seq 0 outer).

  Definition take_at (a L : nat) (t : tensor A) : tensor A :=
    let sh := shape t in
    mkT (set_nth a L sh) (take_axis (outer_of a sh) (len_of a sh) (inner_of a sh) L (data t)).

  Definition pad_at (a : nat) (ba : nat * nat) (t : tensor A) : tensor A :=
    let sh := shape t in
    mkT (set_nth a (fst ba + len_of a sh + snd ba) sh)
        (pad_axis (outer_of a sh) (len_of a sh) (inner_of a sh) (fst ba) (snd ba) (data t)).

  (* Python slice(before, after if after != 0 else None).indices(len), step 1 *)
  Definition norm_idx (len v : Z) : Z :=
    if (v <? 0)%Z then Z.max (v + len) 0 else Z.min v len.

  Definition crop_bounds (len : nat) (be : Z * Z) : nat * nat :=
    let l := Z.of_nat len in
    let s := norm_idx l (fst be) in
    let e := if (snd be =? 0)%Z then l else norm_idx l (snd be) in
    (Z.to_nat s, Z.to_nat (Z.max s e)).

  Definition crop_at (a : nat) (be : Z * Z) (t : tensor A) : tensor A :=
    let sh := shape t in
    let se := crop_bounds (len_of a sh) be in
    mkT (set_nth a (snd se - fst se) sh)
        (slice_axis (outer_of a sh) (len_of a sh) (inner_of a sh) (fst se) (snd se) (data t)).

  (* Dataset.crop(crop_widths, axes): every listed axis is sliced (the code builds one tuple of
     slices; slicing different axes commutes, the model applies the LAST listed axis first) *)
  Definition crop_nd (specs : list (nat * (Z * Z))) (t : tensor A) : tensor A :=
    fold_right (fun s acc => crop_at (fst s) (snd s) acc) t specs.

  (* np.pad with one (before, after) pair per axis, axis 0 first *)
  Fixpoint pad_from (a : nat) (widths : list (nat * nat)) (t : tensor A) : tensor A :=
    match widths with
    | [] => t
    | ba :: r => pad_from (S a) r (pad_at a ba t)
    end.
  Definition pad_nd (widths : list (nat * nat)) (t : tensor A) : tensor A := pad_from 0 widths t.
End Poly.
Arguments slice_axis {A} outer n inner start stop x.
Arguments take_axis {A} outer n inner L x.
Arguments pad_axis {A} zero outer n inner b a x.
Arguments take_at {A} a L t.
Arguments pad_at {A} zero a ba t.
Arguments crop_at {A} a be t.
Arguments crop_nd {A} specs t.
Arguments pad_from {A} zero a widths t.
Arguments pad_nd {A} zero widths t.

(* Dataset.pad(output_shape=...): per axis
     ( max(0, int(floor((out - n)/2))), max(0, int(ceil((out - n)/2))) ) *)
Definition pad_width_to (n out : nat) : nat * nat :=
  let d := (Z.of_nat out - Z.of_nat n)%Z in
  (Z.to_nat (Z.max 0 (d / 2)), Z.to_nat (Z.max 0 (- ((- d) / 2)))).

Fixpoint pad_widths_to (sh out : list nat) : list (nat * nat) :=
  match sh, out with
  | n :: sh', o :: out' => pad_width_to n o :: pad_widths_to sh' out'
  | _, _ => []
  end.

(* the pad_width forms accepted by Dataset.pad (np.pad broadcasting) and output_shape *)
Inductive pad_spec :=
| PadInt (p : nat)                       (* pad_width = p          -> (p, p) on every axis *)
| PadPair (b a : nat)                    (* pad_width = (b, a)     -> (b, a) on every axis *)
| PadSeq (w : list (nat * nat))          (* pad_width = ((b0,a0), (b1,a1), ...) *)
| PadShape (out : list nat).             (* output_shape = out *)

Definition widths_of_spec (sh : list nat) (s : pad_spec) : list (nat * nat) :=
  match s with
  | PadInt p => map (fun _ => (p, p)) sh
  | PadPair b a => map (fun _ => (b, a)) sh
  | PadSeq w => w
  | PadShape out => pad_widths_to sh out
  end.

Definition pad {A : Type} (zero : A) (s : pad_spec) (t : tensor A) : tensor A :=
  pad_nd zero (widths_of_spec (shape t) s) t.

(* crop_widths that undo a padding by `widths`: (before, -after) per axis (after = 0 means
   "to the end" in Dataset.crop) *)
Fixpoint uncrop_from (a : nat) (widths : list (nat * nat)) : list (nat * (Z * Z)) :=
  match widths with
  | [] => []
  | ba :: r => (a, (Z.of_nat (fst ba), (- Z.of_nat (snd ba))%Z)) :: uncrop_from (S a) r
  end.
Definition uncrop_specs (widths : list (nat * nat)) := uncrop_from 0 widths.

(* the same region given as (start, stop) = (before, before + n) *)
Fixpoint uncrop_abs_from (a : nat) (sh : list nat) (widths : list (nat * nat)) : list (nat * (Z * Z)) :=
  match sh, widths with
  | n :: sh', ba :: r => (a, (Z.of_nat (fst ba), Z.of_nat (fst ba + n))) :: uncrop_abs_from (S a) sh' r
  | _, _ => []
  end.

(* ------------------------------------------------------------------------------------ *)
(* binning, data on Qc *)
Local Open Scope Qc_scope.
Notation qsum := (FinSum.sumn 0%Qc Qcplus).
Notation qsuml := (FinSum.suml 0%Qc Qcplus).

(* buffer seen as (P, f, inner); sum over the middle axis:
   out[p*inner + k] = sum_t x[(p*f + t)*inner + k]  — np.sum(view, axis) after the reshape *)
Definition reduce_blocks (P f inner : nat) (x : list Qc) : list Qc :=
  flat_map (fun p => map (fun k => qsum f (fun t => nth ((p * f + t) * inner + k)%nat x 0)) (seq 0 inner))
           (seq 0 P).

Definition eff_len (n f : nat) : nat := ((n / f) * f)%nat.          (* (shape // fac) * fac *)

(* one axis: slice to the effective length, reshape to blocks, sum *)
Definition bin_axis (outer n inner f : nat) (x : list Qc) : list Qc :=
  reduce_blocks (outer * (n / f)) f inner (take_axis outer n inner (eff_len n f) x).

Definition reduce_at (a f : nat) (t : tensor Qc) : tensor Qc :=
  let sh := shape t in
  let nb := (len_of a sh / f)%nat in
  mkT (set_nth a nb sh) (reduce_blocks (outer_of a sh * nb) f (inner_of a sh) (data t)).

(* Dataset.bin: `self.array[tuple(slices)]` first cuts every binned axis to its effective
   length (the covered region), then one reshape + np.sum over the block axes; summing over
   several axes is done here one axis after the other *)
Definition take_nd (afs : list (nat * nat)) (t : tensor Qc) : tensor Qc :=
  fold_left (fun acc af => take_at (fst af) (eff_len (len_of (fst af) (shape acc)) (snd af)) acc) afs t.

Definition reduce_nd (afs : list (nat * nat)) (t : tensor Qc) : tensor Qc :=
  fold_left (fun acc af => reduce_at (fst af) (snd af) acc) afs t.

Definition bin_sum (afs : list (nat * nat)) (t : tensor Qc) : tensor Qc :=
  reduce_nd afs (take_nd afs t).

Definition qc_of_nat (n : nat) : Qc := Q2Qc (Z.of_nat n # 1).

Definition block_volume (afs : list (nat * nat)) : nat := fold_left (fun v af => (v * snd af)%nat) afs 1%nat.

Definition bin_mean (afs : list (nat * nat)) (t : tensor Qc) : tensor Qc :=
  let s := bin_sum afs t in
  mkT (shape s) (map (fun v => v / qc_of_nat (block_volume afs)) (data s)).

Definition bin (mean : bool) (afs : list (nat * nat)) (t : tensor Qc) : tensor Qc :=
  if mean then bin_mean afs t else bin_sum afs t.

(* metadata of one binned axis:
     new_sampling = old_sampling * fac ;  new_origin = origin + 0.5 * (fac - 1) * old_sampling *)
Definition half : Qc := Q2Qc (1 # 2).
Definition bin_sampling (f : nat) (s : Qc) : Qc := s * qc_of_nat f.
Definition bin_origin (f : nat) (o s : Qc) : Qc := o + half * (qc_of_nat f - 1) * s.

Record meta := mkM { origin : list Qc; sampling : list Qc }.

Definition bin_meta_at (a f : nat) (m : meta) : meta :=
  let s := nth a (sampling m) 0 in
  mkM (set_nth a (bin_origin f (nth a (origin m) 0) s) (origin m))
      (set_nth a (bin_sampling f s) (sampling m)).

Definition bin_meta (afs : list (nat * nat)) (m : meta) : meta :=
  fold_left (fun acc af => bin_meta_at (fst af) (snd af) acc) afs m.

(* physical coordinate of pixel j *)
Definition coord (o s : Qc) (j : nat) : Qc := o + qc_of_nat j * s.

(* ------------------------------------------------------------------------------------ *)
(* fourier_resample metadata along one axis, n -> m samples:
     fac = m / n ; s' = s / fac ; o' = o + (n-1)/2 * s - (m-1)/2 * s' *)
Definition resample_sampling (n m : nat) (s : Qc) : Qc := s / (qc_of_nat m / qc_of_nat n).
Definition resample_origin (n m : nat) (o s : Qc) : Qc :=
  o + ((qc_of_nat n - 1) / (1 + 1)) * s - ((qc_of_nat m - 1) / (1 + 1)) * resample_sampling n m s.

Definition resample_meta_at (a n m : nat) (mt : meta) : meta :=
  let s := nth a (sampling mt) 0 in
  mkM (set_nth a (resample_origin n m (nth a (origin mt) 0) s) (origin mt))
      (set_nth a (resample_sampling n m s) (sampling mt)).

(* out_shape from a float factor: max(1, int(round(n * f)))  (binary64 product, round half even);
   None = round() raises (nan / inf) *)
Definition out_len_of_factor (n : Z) (f : float) : option Z :=
  match py_round (PrimFloat.mul (float_of_Z n) f) with
  | Some r => Some (Z.max 1 r)
  | None => None
  end.
Local Close Scope Qc_scope.

(* ------------------------------------------------------------------------------------ *)
(* fourier_resample along one axis, on an abstract commutative ring (lib/DFT.v) *)
Section Resample.
  Variable R : Type.
  Variables (rO rI : R) (radd rmul : R -> R -> R).

  (* _shift_center_index: index of DC after fftshift *)
  Definition shift_center_index (n : nat) : nat :=
    if Nat.even n then n / 2 else (n - 1) / 2.

  (* np.fft.fftshift = roll by n//2 ; np.fft.ifftshift = roll by -(n//2) *)
  Definition fftshift (n : nat) (X : nat -> R) : nat -> R := roll n (Z.of_nat (n / 2)) X.
  Definition ifftshift (n : nat) (X : nat -> R) : nat -> R := roll n (- Z.of_nat (n / 2)) X.

  (* centred crop (m < n: F[start : start+m], start = oc - nc) or zero pad
     (m > n: before = nc - oc zeros, the n samples, the rest zeros) of the shifted spectrum *)
  Definition croppad (n m : nat) (S : nat -> R) (i : nat) : R :=
    let oc := shift_center_index n in
    let nc := shift_center_index m in
    if m <? n then S (i + (oc - nc))
    else if n <? m then
      let before := nc - oc in
      if (before <=? i) && (i <? before + n) then S (i - before) else rO
    else S i.

  (* spectrum handed to the inverse transform *)
  Definition respectrum (n m : nat) (X : nat -> R) : nat -> R :=
    ifftshift m (croppad n m (fftshift n X)).

  (* ifftn(ifftshift(croppad(fftshift(fftn x)))) * (m / n) ; wn, wm are the root-of-unity
     families of sizes n and m, ninv = 1/n, minv = 1/m *)
  Definition resample (n m : nat) (wn wm : Z -> R) (ninv minv : R) (x : nat -> R) (j : nat) : R :=
    rmul (rmul (of_nat rO rI radd m) ninv)
         (idft rO radd rmul m wm minv (respectrum n m (dft rO radd rmul n wn x)) j).

  (* `.real` of the result for real input: re z = (z + conj z) / 2 *)
  Variable conj : R -> R.
  Variable rhalf : R.
  Definition re (z : R) : R := rmul rhalf (radd z (conj z)).
  Definition resample_re (n m : nat) (wn wm : Z -> R) (ninv minv : R) (x : nat -> R) (j : nat) : R :=
    re (resample n m wn wm ninv minv x j).
End Resample.
Arguments fftshift {R} n X _.
Arguments ifftshift {R} n X _.
Arguments croppad {R} rO n m S i.
Arguments respectrum {R} rO n m X _.
Arguments resample {R} rO rI radd rmul n m wn wm ninv minv x j.
Arguments re {R} radd rmul conj rhalf z.
Arguments resample_re {R} rO rI radd rmul conj rhalf n m wn wm ninv minv x j.

(* fourier_resample over several axes of an N-D array.  fftn / fftshift / centred crop-pad /
   ifftshift / ifftn all act axis by axis, so the N-D operator is the one-axis pipeline
   [resample] applied along each selected axis in turn (the complex result of one axis feeds
   the next; `.real` is taken once at the very end; the scale N_out/N_in is the product of the
   per-axis scales m/n).  tw N is the root-of-unity family of size N, inv N = 1/N. *)
Section ResampleND.
  Variable R : Type.
  Variables (rO rI : R) (radd rmul : R -> R -> R).
  Variable tw : nat -> Z -> R.
  Variable inv : nat -> R.

  (* the 1-D line (o, :, k) of the (outer, n, inner) view *)
  Definition line (n inner o k : nat) (x : list R) : nat -> R :=
    fun i => nth ((o * n + i) * inner + k) x rO.

  Definition resample_line (n m : nat) (x : nat -> R) : list R :=
    map (resample rO rI radd rmul n m (tw n) (tw m) (inv n) (inv m) x) (seq 0 m).

  Definition resample_axis (outer n inner m : nat) (x : list R) : list R :=
    flat_map (fun o =>
                let cols := map (fun k => resample_line n m (line n inner o k x)) (seq 0 inner) in
                flat_map (fun j => map (fun col => nth j col rO) cols) (seq 0 m))
             (seq 0 outer).

  Definition resample_at (a m : nat) (t : tensor R) : tensor R :=
    let sh := shape t in
    mkT (set_nth a m sh) (resample_axis (outer_of a sh) (len_of a sh) (inner_of a sh) m (data t)).

  Definition resample_nd (ams : list (nat * nat)) (t : tensor R) : tensor R :=
    fold_left (fun acc am => resample_at (fst am) (snd am) acc) ams t.
End ResampleND.
Arguments line {R} rO n inner o k x _.
Arguments resample_line {R} rO rI radd rmul tw inv n m x.
Arguments resample_axis {R} rO rI radd rmul tw inv outer n inner m x.
Arguments resample_at {R} rO rI radd rmul tw inv a m t.
Arguments resample_nd {R} rO rI radd rmul tw inv ams t.

Definition resample_meta (ams : list (nat * (nat * nat))) (mt : meta) : meta :=
  fold_left (fun acc anm => resample_meta_at (fst anm) (fst (snd anm)) (snd (snd anm)) acc) ams mt.

(* which source bin (unshifted FFT index, size n) is copied to destination bin k (size m);
   None = zero fill.  This is [respectrum] itself, run on symbolic bins. *)
Definition src_bin (n m k : nat) : option nat :=
  respectrum (R := option nat) None n m (fun i => Some i) k.
Definition src_bins (n m : nat) : list (option nat) := map (src_bin n m) (seq 0 m).

(* ------------------------------------------------------------------------------------ *)
(* harness glue *)
Definition qcl (l : list (Z * Z)) : list Qc := map (fun p => Q2Qc (fst p # Z.to_pos (snd p))) l.
Definition qci (l : list Z) : list Qc := map (fun z => Q2Qc (z # 1)) l.
Definition show_qc (q : Qc) : Z * Z := (Qnum (this q), Zpos (Qden (this q))).
Definition show_t (t : tensor Qc) : list Z * list (Z * Z) := (zl (shape t), map show_qc (data t)).
Definition show_ti (t : tensor Z) : list Z * list Z := (zl (shape t), data t).
Definition show_m (m : meta) : list (Z * Z) * list (Z * Z) := (map show_qc (origin m), map show_qc (sampling m)).
Definition show_on (o : option nat) : Z := match o with Some k => Z.of_nat k | None => (-1)%Z end.
