(* C09 — extension of the model (round 3).  Definitions only; proofs in proof/C09_Proofs_Ext.v.
     1. RNGMixin (core/utils/rng.py): the rng bookkeeping as a state machine
        (seed, numpy generator = stream + draws since seeding, torch generator, device);
     2. the mini-batch schedule of one Ptychography.reconstruct call: split drawn once, one
        permutation per epoch, the draws taken from the numpy generator;
     3. SimpleBatcher called with explicit train / validation indices and batch_size=None;
     4. the float -> int glue of SimpleBatcher.__init__ as separate functions (n_val, k) — the
        functions the generated file build/C09/Gen_C09Glue.v is proved equal to;
     5. loss algebra: size-weighted mean of per-batch losses (any batch size), per-component
        gradients, the unscaled (pre-fix "poisson") loss;
     6. reset_recon field by field. *)
From QV.lib Require Import Prelude Chunks FloatBits.
From QV.model Require Import C09_Model.
From Coq Require Import QArith PrimFloat.
Local Close Scope Q_scope.

(* ------------------------------------------------------------------ 1. RNGMixin *)
(* A numpy Generator is (stream it was seeded from, draws taken since).  What a draw returns is
   a function of exactly that pair (PCG64 is a deterministic function of seed and position; the
   harness replays the pair on a reference np.random.default_rng).  SOs: seeded from OS entropy
   (rng=None); `token` identifies the seeding event. *)
Inductive stream := SSeed (s : Z) | SOs (token : nat).
Record gen := { g_stream : stream; g_hist : list nat }.
(* torch.Generator: manual_seed value (None: the library default seed) and draws since *)
Record tgen := { t_seed : option Z; t_hist : list nat }.
Record rngst := { r_seed : option Z; r_np : gen; r_torch : tgen; r_dev : nat }.

(* the argument of the `rng` setter *)
Inductive rng_arg :=
| ArgNone
| ArgInt (s : Z)
| ArgGen (entropy : Z) (hist : list nat)      (* np.random.Generator seeded with `entropy`, `hist` already drawn *)
| ArgTorch (initial_seed : Z).                (* torch.Generator: only initial_seed() is read *)

Definition two32 : Z := 4294967296.

(* _update_torch_rng: a NEW torch generator, manual_seed(seed % 2**32) when there is a seed *)
Definition torch_of_seed (sd : option Z) : tgen :=
  {| t_seed := option_map (fun s => s mod two32)%Z sd; t_hist := [] |}.

Definition seed_of_arg (a : rng_arg) : option Z :=
  match a with ArgNone => None | ArgInt s => Some s | ArgGen e _ => Some e | ArgTorch s => Some s end.

Definition gen_of_arg (tok : nat) (a : rng_arg) : gen :=
  match a with
  | ArgNone => {| g_stream := SOs tok; g_hist := [] |}
  | ArgInt s => {| g_stream := SSeed s; g_hist := [] |}
  | ArgGen e h => {| g_stream := SSeed e; g_hist := h |}       (* the object itself is kept *)
  | ArgTorch s => {| g_stream := SSeed s; g_hist := [] |}
  end.

(* rng.setter *)
Definition set_rng (tok : nat) (a : rng_arg) (st : rngst) : rngst :=
  {| r_seed := seed_of_arg a; r_np := gen_of_arg tok a;
     r_torch := torch_of_seed (seed_of_arg a); r_dev := r_dev st |}.

(* RNGMixin.__init__(rng, device) *)
Definition init_rng (dev tok : nat) (a : rng_arg) : rngst :=
  {| r_seed := seed_of_arg a; r_np := gen_of_arg tok a;
     r_torch := torch_of_seed (seed_of_arg a); r_dev := dev |}.

(* _reset_rng: `if self._rng_seed is not None: self.rng = self._rng_seed` *)
Definition reset_rng (tok : nat) (st : rngst) : rngst :=
  match r_seed st with
  | Some s => set_rng tok (ArgInt s) st
  | None => st
  end.

(* _rng_to_device: device stored, torch generator rebuilt from the seed; numpy generator untouched *)
Definition rng_to_device (dev : nat) (st : rngst) : rngst :=
  {| r_seed := r_seed st; r_np := r_np st; r_torch := torch_of_seed (r_seed st); r_dev := dev |}.

Definition draw_np (d : nat) (st : rngst) : rngst :=
  {| r_seed := r_seed st; r_np := {| g_stream := g_stream (r_np st); g_hist := g_hist (r_np st) ++ [d] |};
     r_torch := r_torch st; r_dev := r_dev st |}.

Definition draw_torch (d : nat) (st : rngst) : rngst :=
  {| r_seed := r_seed st; r_np := r_np st;
     r_torch := {| t_seed := t_seed (r_torch st); t_hist := t_hist (r_torch st) ++ [d] |}; r_dev := r_dev st |}.

Inductive rop := OSet (a : rng_arg) | ONp (d : nat) | OTorch (d : nat) | OReset | OToDev (dev : nat).

Definition step_rng (tok : nat) (o : rop) (st : rngst) : rngst :=
  match o with
  | OSet a => set_rng tok a st
  | ONp d => draw_np d st
  | OTorch d => draw_torch d st
  | OReset => reset_rng tok st
  | OToDev dev => rng_to_device dev st
  end.

(* `tok` numbers the operations (only used to tell OS-entropy seedings apart) *)
Fixpoint run_rng (tok : nat) (ops : list rop) (st : rngst) : rngst :=
  match ops with [] => st | o :: r => run_rng (S tok) r (step_rng tok o st) end.

Fixpoint trace_rng (tok : nat) (ops : list rop) (st : rngst) : list rngst :=
  match ops with [] => [] | o :: r => let st' := step_rng tok o st in st' :: trace_rng (S tok) r st' end.

(* identity of a value drawn: which generator (false: numpy, true: torch), the stream / seed it
   was seeded from, the draws taken before it, its own label.  Two draws with the same identity
   return the same value. *)
Inductive draw_id :=
| DNp (s : stream) (before : list nat) (d : nat)
| DTorch (s : option Z) (before : list nat) (d : nat).

Fixpoint draws_rng (tok : nat) (ops : list rop) (st : rngst) : list draw_id :=
  match ops with
  | [] => []
  | o :: r =>
    let rest := draws_rng (S tok) r (step_rng tok o st) in
    match o with
    | ONp d => DNp (g_stream (r_np st)) (g_hist (r_np st)) d :: rest
    | OTorch d => DTorch (t_seed (r_torch st)) (t_hist (r_torch st)) d :: rest
    | _ => rest
    end
  end.

(* what draws depend on: everything except the device label *)
Definition rng_core (st : rngst) : option Z * gen * tgen := (r_seed st, r_np st, r_torch st).

Definition is_set (o : rop) : bool := match o with OSet _ => true | _ => false end.

(* printable form for the correspondence run *)
Definition show_stream (s : stream) : Z * Z :=
  match s with SSeed z => (0, z)%Z | SOs t => (1, Z.of_nat t)%Z end.
Definition show_rng (st : rngst) :=
  (r_seed st, show_stream (g_stream (r_np st)), zl (g_hist (r_np st)),
   t_seed (r_torch st), zl (t_hist (r_torch st)), Z.of_nat (r_dev st)).

(* ------------------------------------------------------------------ 4. float -> int glue *)
(* `if val_ratio < 0 or val_ratio >= 1: val_ratio = 0.0` *)
Definition glue_ratio (ratio : float) : float :=
  if (PrimFloat.ltb ratio 0 || PrimFloat.leb 1 ratio)%bool then 0%float else ratio.
(* `n_val = int(round(len(self.indices) * val_ratio))` *)
Definition glue_nval (n : nat) (r : float) : option Z :=
  py_round (PrimFloat.mul (float_of_Z (Z.of_nat n)) r).
(* `k = max(1, int(round(1.0 / val_ratio)))` and the inverted branch *)
Definition glue_k_lo (r : float) : option Z := option_map (Z.max 1) (py_round (PrimFloat.div 1 r)).
Definition glue_k_hi (r : float) : option Z :=
  option_map (Z.max 1) (py_round (PrimFloat.div 1 (PrimFloat.sub 1 r))).
Definition glue_invert (r : float) : bool := negb (PrimFloat.leb r 0.5%float).

(* the same split as C09_Model.split_of_ratio, written over the glue functions *)
Definition split_of_glue (n : nat) (ratio : float) (random : bool) (perm : list nat) : option tvsplit :=
  let r := glue_ratio ratio in
  match glue_nval n r with
  | None => None
  | Some nv =>
    if (0 <? nv)%Z then
      if random then Some (split_random n (Z.to_nat nv) perm)
      else
        match (if glue_invert r then glue_k_hi r else glue_k_lo r) with
        | Some k => Some (split_grid n (Z.to_nat nv) (Z.to_nat k) (glue_invert r))
        | None => None
        end
    else Some (no_split n)
  end.

(* number of validation patterns the glue asks for (0: no validation set) *)
Definition n_val_of (n : nat) (ratio : float) : option nat :=
  option_map (fun nv => if (0 <? nv)%Z then Z.to_nat nv else 0) (glue_nval n (glue_ratio ratio)).

(* ------------------------------------------------------------------ 3. explicit indices, batch_size=None *)
Inductive berr := BErrValue.
(* SimpleBatcher(num, batch_size, ..., train_indices=tr, val_indices=va): both or neither *)
Definition split_explicit (tr va : option (list nat)) : berr + option tvsplit :=
  match tr, va with
  | Some t, Some v => inr (Some {| train := t; val := v |})
  | None, None => inr None                   (* fall through to the ratio split *)
  | _, _ => inl BErrValue
  end.
(* `self.batch_size = batch_size if batch_size is not None else num` *)
Definition bsz (num : nat) (b : option nat) : nat := match b with Some x => x | None => num end.
Definition has_validation (s : tvsplit) : bool := match val s with [] => false | _ => true end.

(* ------------------------------------------------------------------ 2. schedule of one reconstruct call *)
(* x[p] for an index permutation p (what Generator.permutation(x) returns when
   Generator.permutation(len(x)) returns p from the same state) *)
Definition pick (l : list nat) (p : list nat) : list nat := map (fun i => nth i l 0) p.

Record sched := {
  s_split : tvsplit;
  s_epochs : list (list (list nat));     (* per epoch: the training batches in order *)
  s_val : list (list nat);               (* validation batches (the same in every epoch) *)
  s_draws : list nat;                    (* sizes of the permutations drawn from the numpy generator, in order *)
  s_len : nat;                           (* __len__ *)
  s_val_len : nat                        (* val_len() *)
}.

(* draws of SimpleBatcher.__init__: one permutation of all n indices iff a random split is made *)
Definition init_draws (n : nat) (ratio : float) (random : bool) : list nat :=
  match n_val_of n ratio with
  | Some nv => if (random && negb (nv =? 0))%bool then [n] else []
  | None => []
  end.

(* `perm0`: the permutation of range(n) the generator returned for the split (ignored when none
   is drawn); `pps`: the index permutations it returned for the epochs, one per epoch *)
Definition schedule_of_split (b : nat) (shuffle : bool) (s : tvsplit) (pre : list nat) (pps : list (list nat)) : sched :=
  {| s_split := s;
     s_epochs := map (fun p => epoch b (if shuffle then pick (train s) p else train s)) pps;
     s_val := val_batches b s;
     s_draws := pre ++ (if shuffle then map (fun _ => length (train s)) pps else []);
     s_len := batcher_len b s;
     s_val_len := val_len b s |}.

Definition recon_schedule (n : nat) (b : option nat) (ratio : float) (random shuffle : bool)
           (perm0 : list nat) (pps : list (list nat)) : option sched :=
  match split_of_ratio n ratio random perm0 with
  | None => None
  | Some s => Some (schedule_of_split (bsz n b) shuffle s (init_draws n ratio random) pps)
  end.

(* the numpy generator after the call: the draws appended to its history *)
Definition rng_after_schedule (st : rngst) (sc : sched) : rngst := fold_left (fun s d => draw_np d s) (s_draws sc) st.

Definition show_sched (o : option sched) :=
  match o with
  | None => None
  | Some sc => Some (zl (train (s_split sc)), zl (val (s_split sc)), map zll (s_epochs sc), zll (s_val sc),
                     zl (s_draws sc), Z.of_nat (s_len sc), Z.of_nat (s_val_len sc))
  end.

(* ------------------------------------------------------------------ 5. loss algebra *)
Local Open Scope Q_scope.
Definition qn (n : nat) : Q := inject_Z (Z.of_nat n).

(* mean of the per-batch losses weighted by the batch sizes — equals the full-batch loss for EVERY
   batch size (proof file), which is why only divisor batch sizes make the plain mean exact *)
Definition weighted_mean_of_batch_losses (N : nat) (I : Q) (b : nat) (ls : list Q) : Q :=
  sumQ (map (fun c => qn (length c) * batch_loss N I c) (chunks b ls)) / qn (length ls).

(* plain mean over an arbitrary list of batches (the batches the implementation actually used) *)
Definition mean_over_batches (N : nat) (I : Q) (bs : list (list Q)) : Q :=
  sumQ (map (batch_loss N I) bs) / qn (length bs).

(* per-pattern gradient vectors: component j of the batch gradient is the same scaled sum *)
Definition comp (j : nat) (g : list Q) : Q := nth j g 0.
Definition batch_grad (N : nat) (I : Q) (gs : list (list Q)) (j : nat) : Q := batch_loss N I (map (comp j) gs).
Definition mean_of_batch_grads (N : nat) (I : Q) (b : nat) (gs : list (list Q)) (j : nat) : Q :=
  sumQ (map (fun c => batch_grad N I c j) (chunks b gs)) / qn (length (chunks b gs)).

(* a loss that is NOT divided by the batch fraction (the "poisson" branch of error_estimate
   before fixes/C09-poisson-loss-batch-fraction.diff) *)
Definition unscaled_loss (I : Q) (ls : list Q) : Q := sumQ ls / I.
Definition mean_of_unscaled_losses (I : Q) (b : nat) (ls : list Q) : Q :=
  sumQ (map (unscaled_loss I) (chunks b ls)) / qn (length (chunks b ls)).
Local Close Scope Q_scope.

(* ------------------------------------------------------------------ 6. reset_recon, field by field *)
(* The fields PtychographyBase.reset_recon / Ptychography.reset_recon assign.  `P`: values of the
   learnable tensors (object, probe, dataset parameters, propagators), `O`: optimiser + scheduler
   state, `L`: a loss value, `S`: a snapshot.  `cfg` holds what no iteration and no reset changes
   (initial tensors, optimiser parameters, the seed is inside f_rng). *)
Section ResetFields.
  Variables P O L S : Type.
  Record cfg := { c_obj0 : P; c_probe0 : P; c_dset0 : P; c_prop : P -> P -> P;   (* propagators from (obj, probe) model settings *)
                  c_opt0 : O; c_constraints0 : nat }.
  Record fields := {
    f_rng : rngst;
    f_obj : P; f_probe : P; f_dset : P; f_propagators : P;
    f_obj_constraints : nat;
    f_opt : O;
    f_iter_losses : list L; f_iter_val_losses : list L; f_iter_recon_types : list nat;
    f_iter_lrs : list (nat * list Q); f_snapshots : list S }.

  (* the state right after construction + preprocess from a seed *)
  Definition fresh (c : cfg) (dev : nat) (sd : Z) : fields :=
    {| f_rng := init_rng dev 0 (ArgInt sd);
       f_obj := c_obj0 c; f_probe := c_probe0 c; f_dset := c_dset0 c;
       f_propagators := c_prop c (c_obj0 c) (c_probe0 c);
       f_obj_constraints := c_constraints0 c; f_opt := c_opt0 c;
       f_iter_losses := []; f_iter_val_losses := []; f_iter_recon_types := [];
       f_iter_lrs := []; f_snapshots := [] |}.

  (* reset_recon, statement by statement *)
  Definition reset_recon (c : cfg) (tok : nat) (f : fields) : fields :=
    let rng' := reset_rng tok (f_rng f) in                (* self._reset_rng() *)
    let obj' := c_obj0 c in                               (* self.obj_model.reset() *)
    let probe' := c_probe0 c in                           (* self.probe_model.reset() *)
    let dset' := c_dset0 c in                             (* self.dset.reset() *)
    {| f_rng := rng'; f_obj := obj'; f_probe := probe'; f_dset := dset';
       f_propagators := c_prop c obj' probe';             (* self.compute_propagator_arrays() *)
       f_obj_constraints := c_constraints0 c;             (* obj_model.constraints = DEFAULT_CONSTRAINTS *)
       f_opt := c_opt0 c;                                 (* Ptychography.reset_recon: reset_optimizer() x3 *)
       f_iter_losses := []; f_iter_val_losses := []; f_iter_recon_types := [];
       f_iter_lrs := []; f_snapshots := [] |}.

  (* an iteration may change every field except the seed and the device of the rng *)
  Definition keeps_seed (step : fields -> fields) : Prop :=
    forall f, r_seed (f_rng (step f)) = r_seed (f_rng f) /\ r_dev (f_rng (step f)) = r_dev (f_rng f).
End ResetFields.
Arguments fresh {P O L S} c dev sd.
Arguments reset_recon {P O L S} c tok f.
Arguments keeps_seed {P O L S} step.
Arguments f_rng {P O L S} f.
Arguments f_obj {P O L S} f.
Arguments f_probe {P O L S} f.
Arguments f_dset {P O L S} f.
Arguments f_propagators {P O L S} f.
Arguments f_obj_constraints {P O L S} f.
Arguments f_opt {P O L S} f.
Arguments f_iter_losses {P O L S} f.
Arguments f_iter_val_losses {P O L S} f.
Arguments f_iter_recon_types {P O L S} f.
Arguments f_iter_lrs {P O L S} f.
Arguments f_snapshots {P O L S} f.
