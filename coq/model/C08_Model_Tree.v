(* C08 — targets below a chain of directories (definitions only; proofs in proof/C08_Proofs_Tree.v).

   `AutoSerialize.save` computes  parent = dirname(abspath(path))  and, for the directory store,
   calls  os.makedirs(parent, exist_ok=True)  before the staging directory is created in `parent`;
   the zip store does not create anything: TemporaryDirectory(dir = parent) raises when `parent`
   is not a directory.  `anc` is the chain of directories above the target (outermost first):
   os.makedirs is one `MkDir` per element (a directory that is there is kept, a missing one is
   created EMPTY, a file in the way is an error).  No clean-up handler is registered for them.

   `prune_env` is the environment (C08_Model_Ext.run_x) of a clean-up that "undoes" the creation
   by pruning empty directories upwards (os.removedirs): used for the refutation only. *)
From QV.lib Require Import Prelude.
From QV.model Require Import C08_Model C08_Model_Ext.

Definition is_dir (e : entry) : bool := match e with Dir _ => true | _ => false end.

Definition mk_parents (anc : list path) : list effect := map MkDir anc.

(* the effects of a save whose target p lies below the directories anc *)
Definition tree_prog (st : store) (m : mode) (p : path) (anc : list path) (ts tz : path) (ws zs : list item)
  : list effect :=
  CheckTarget m p ::
  match st with SDir => mk_parents anc | SZip => [] end
  ++ tl (save_prog st m p ts tz ws zs).

(* state left behind / how save() ended, exception injected at effect k of tree_prog *)
Definition tree_run (k : nat) (st : store) (m : mode) (p : path) (anc : list path) (ts tz : path)
           (ws zs : list item) (fs : fsys) : fsys * outcome :=
  let prog := tree_prog st m p anc ts tz ws zs in
  match st with
  | SDir => run k prog fs
  | SZip =>
      if forallb (fun q => is_dir (fs q)) anc then run k prog fs
      else (* the existence check, then TemporaryDirectory(dir = <not a directory>) raises *)
        match k with
        | O => (fs, Faulted)
        | S k' => match step (CheckTarget m p) fs with
                  | inl e => (fs, e)
                  | inr _ => (fs, match k' with O => Faulted | S _ => ErrOther end)
                  end
        end
  end.

(* fs1 differs from fs only in that missing directories of anc have been created, empty *)
Definition created_only (anc : list path) (fs fs1 : fsys) : Prop :=
  forall q, fs1 q = fs q \/ (In q anc /\ fs q = Absent /\ fs1 q = Dir []).

(* os.removedirs-like clean-up attached to the staging handler: after the staging area is gone every
   EMPTY directory of anc disappears (whether the save created it or not) *)
Definition prune (anc : list path) (fs : fsys) : fsys :=
  fold_left (fun f q => match f q with Dir [] => upd f q Absent | _ => f end) (rev anc) fs.

Definition prune_env (anc : list path) : env :=
  {| hrun := fun h fs => match h with
                         | HRmTemp _ _ => prune anc (run_handler h fs)
                         | _ => run_handler h fs
                         end;
     inside := fun _ fs => fs |}.

(* ---------------------------------------------------------------- observation (harness glue) *)
(* scenario: target 0, staging 1/2, siblings 3/4, the chain of directories at 6, 7, ...;
   code per directory: 0 missing | 1 there and empty | 2 there, holding other things *)
Definition anc_entry (c : Z) : entry :=
  (if c =? 1 then Dir [] else if c =? 2 then Dir [78] else Absent)%Z.

Definition tree_fs (pre : entry) (codes : list Z) : fsys :=
  fun q => if Nat.leb 6 q then anc_entry (nth (q - 6) codes 0%Z) else scen_fs pre q.

Definition anc_paths (codes : list Z) : list path := seq 6 (length codes).

(* per fault index k: (class of the target, target unmodified, outcome,
                       every PRE-EXISTING other path unchanged and no other path appeared except missing
                       directories of the chain, which of the chain's directories were created) *)
Definition tree_scen (st : store) (m : mode) (pre : entry) (codes : list Z) (n nz : nat)
  : list Z * list (Z * bool * Z * bool * list bool) :=
  let ws := zseq 0 n in
  let zs := zseq 500 nz in
  let fs0 := tree_fs pre codes in
  let anc := anc_paths codes in
  let prog := tree_prog st m 0 anc 1 2 ws zs in
  let final := final_entry st ws zs in
  (map effect_kind prog,
   map (fun k =>
          let r := tree_run k st m 0 anc 1 2 ws zs fs0 in
          (classify scen_markers fs0 (fst r) 0 final,
           entry_eqb (fst r 0) pre,
           outcome_code (snd r),
           forallb (fun q => entry_eqb (fst r q) (fs0 q)) [1; 2; 3; 4; 5; 6 + length codes]
           && forallb (fun q => if present (fs0 q) then entry_eqb (fst r q) (fs0 q)
                                else orb (entry_eqb (fst r q) Absent) (entry_eqb (fst r q) (Dir []))) anc,
           map (fun q => negb (present (fs0 q)) && present (fst r q)) anc))
       (seq 0 (S (length prog)))).
