(* C20 — display normalisation: the EXECUTABLE part of the model.
     quantem.core.visualization.custom_normalizations
       BaseInterval.__call__      subtract vmin, divide by (vmax - vmin) unless it is 0, clip to [0,1]
                                  on extended values  Fin x | NaN | +inf | -inf  with NumPy's propagation
       np.ma.masked_invalid       which entries of CustomNormalization.__call__'s result are masked
       QuantileInterval / ManualInterval / CenteredInterval .get_limits on data with NaN / inf
       np.quantile (method "linear") on the sorted finite data
   The extended-value functions are polymorphic in the carrier of finite values: the harness runs
   them on Q (exact) next to a PrimFloat transcription (bit-exact against NumPy's float64), the
   theorems of coq/gen_proofs instantiate the SAME functions with R and the translated stretches.
   Real-valued closed forms of the stretches are not executable; they are translated from the
   source at check time (harness/translate_norm.py).   Definitions only; proofs in proof/. *)
From QV.lib Require Import Prelude FloatBits.
From Coq Require Import QArith Qround Uint63 PrimFloat FloatOps SpecFloat.
Local Close Scope Q_scope.

(* ---------------------------------------------------------------- extended values *)
Inductive xval (A : Type) : Type :=
| Fin (a : A)
| XNaN
| PInf
| NInf.
Arguments Fin {A} a.
Arguments XNaN {A}.
Arguments PInf {A}.
Arguments NInf {A}.

(* what the finite carrier must provide (total order test, zero test) *)
Record carrier (A : Type) : Type := {
  k_zero : A;
  k_one : A;
  k_sub : A -> A -> A;
  k_div : A -> A -> A;
  k_leb : A -> A -> bool;
  k_eqb : A -> A -> bool }.
Arguments k_zero {A} c.
Arguments k_one {A} c.
Arguments k_sub {A} c _ _.
Arguments k_div {A} c _ _.
Arguments k_leb {A} c _ _.
Arguments k_eqb {A} c _ _.

Section Extended.
  Context {A : Type} (K : carrier A).

  Definition k_ltb (a b : A) : bool := negb (k_leb K b a).
  Definition k_max (a b : A) : A := if k_leb K a b then b else a.
  Definition k_min (a b : A) : A := if k_leb K a b then a else b.

  (* np.subtract(values, c) for a finite c *)
  Definition x_sub (v : xval A) (c : A) : xval A :=
    match v with
    | Fin a => Fin (k_sub K a c)
    | XNaN => XNaN
    | PInf => PInf
    | NInf => NInf
    end.

  (* np.true_divide(values, d) for a finite non-zero d *)
  Definition x_div (v : xval A) (d : A) : xval A :=
    match v with
    | Fin a => Fin (k_div K a d)
    | XNaN => XNaN
    | PInf => if k_ltb d (k_zero K) then NInf else PInf
    | NInf => if k_ltb d (k_zero K) then PInf else NInf
    end.

  (* np.clip(values, 0.0, 1.0) = minimum(maximum(values, 0), 1): NaN propagates *)
  Definition x_clip01 (v : xval A) : xval A :=
    match v with
    | Fin a => Fin (k_min (k_max a (k_zero K)) (k_one K))
    | XNaN => XNaN
    | PInf => Fin (k_one K)
    | NInf => Fin (k_zero K)
    end.

  (* BaseInterval.__call__ with finite limits *)
  Definition x_interval_map (vmin vmax : A) (v : xval A) : xval A :=
    let d := k_sub K vmax vmin in
    let s := x_sub v vmin in
    x_clip01 (if k_eqb K d (k_zero K) then s else x_div s d).

  (* a stretch acts on what the interval map returns: NaN or a finite value (x_interval_map
     never returns an infinity, lemma x_interval_map_no_inf) *)
  Definition x_stretch (f : A -> A) (v : xval A) : xval A :=
    match v with
    | Fin a => Fin (f a)
    | XNaN => XNaN
    | PInf => PInf
    | NInf => NInf
    end.

  (* CustomNormalization.__call__ before masking *)
  Definition x_norm (f : A -> A) (vmin vmax : A) (v : xval A) : xval A :=
    x_stretch f (x_interval_map vmin vmax v).

  (* np.ma.masked_invalid: NaN and infinities are masked *)
  Definition x_masked (v : xval A) : bool :=
    match v with Fin _ => false | _ => true end.

  (* values[np.isfinite(values)] *)
  Definition finite_of (l : list (xval A)) : list A :=
    flat_map (fun v => match v with Fin a => [a] | _ => [] end) l.

  Definition list_min (x : A) (l : list A) : A := fold_left k_min l x.
  Definition list_max (x : A) (l : list A) : A := fold_left k_max l x.

  (* (np.min, np.max) of the finite data; None when there is none (NumPy raises) *)
  Definition data_minmax (data : list (xval A)) : option (A * A) :=
    match finite_of data with
    | [] => None
    | x :: r => Some (list_min x r, list_max x r)
    end.
End Extended.

(* ---------------------------------------------------------------- Q instance *)
Definition Qcarrier : carrier Q :=
  {| k_zero := 0%Q; k_one := 1%Q; k_sub := Qminus; k_div := Qdiv;
     k_leb := Qle_bool; k_eqb := Qeq_bool |}.

Definition Qabs' (q : Q) : Q := if Qle_bool 0 q then q else Qopp q.
Definition Qmax' (a b : Q) : Q := k_max Qcarrier a b.

(* ManualInterval.get_limits *)
Definition limits_manual (vmin vmax : option Q) (data : list (xval Q)) : option (Q * Q) :=
  match vmin, vmax with
  | Some a, Some b => Some (a, b)
  | _, _ =>
    match data_minmax Qcarrier data with
    | None => None
    | Some (dmin, dmax) =>
      Some (match vmin with Some a => a | None => dmin end,
            match vmax with Some b => b | None => dmax end)
    end
  end.

(* CenteredInterval.get_limits *)
Definition limits_centered (vcenter : Q) (half_range : option Q) (data : list (xval Q))
  : option (Q * Q) :=
  match half_range with
  | Some h => Some (Qminus vcenter h, Qplus vcenter h)
  | None =>
    match data_minmax Qcarrier data with
    | None => None
    | Some (dmin, dmax) =>
      let h := Qmax' (Qabs' (Qminus dmin vcenter)) (Qabs' (Qminus dmax vcenter)) in
      Some (Qminus vcenter h, Qplus vcenter h)
    end
  end.

(* ---------------------------------------------------------------- np.quantile, method "linear" *)
Fixpoint qinsert (x : Q) (l : list Q) : list Q :=
  match l with
  | [] => [x]
  | y :: r => if Qle_bool x y then x :: l else y :: qinsert x r
  end.

Definition qsort (l : list Q) : list Q := fold_right qinsert [] l.

(* a + t (b - a) between positions i and i+1 of a sorted list (b = a past the end) *)
Definition lerp_at (s : list Q) (i : nat) (t : Q) : Q :=
  let a := nth i s 0%Q in
  let b := nth (S i) s a in
  Qplus a (Qmult t (Qminus b a)).

(* virtual index h = q (n - 1), i = floor h, weight h - i *)
Definition quantile (s : list Q) (q : Q) : Q :=
  let h := Qmult q (inject_Z (Z.of_nat (length s) - 1)) in
  let f := Qfloor h in
  lerp_at s (Z.to_nat f) (Qminus h (inject_Z f)).

(* QuantileInterval.get_limits *)
Definition limits_quantile (lq uq : Q) (data : list (xval Q)) : option (Q * Q) :=
  match qsort (finite_of data) with
  | [] => None
  | s => Some (quantile s lq, quantile s uq)
  end.

(* ---------------------------------------------------------------- binary64 transcription *)
(* np.maximum(x, 0.0), np.minimum(x, 1.0): NaN propagates *)
Definition f_clip01 (x : float) : float :=
  let m := if PrimFloat.eqb x x then (if PrimFloat.ltb x 0 then 0%float else x) else x in
  if PrimFloat.eqb m m then (if PrimFloat.ltb 1 m then 1%float else m) else m.

Definition f_interval_map (vmin vmax x : float) : float :=
  let d := PrimFloat.sub vmax vmin in
  let s := PrimFloat.sub x vmin in
  f_clip01 (if PrimFloat.eqb d 0 then s else PrimFloat.div s d).

(* decode a float: extended value over Q *)
Definition xclassify (f : float) : xval Q :=
  match Prim2SF f with
  | S754_zero _ => Fin 0%Q
  | S754_finite s m e =>
    let z := if s then Z.neg m else Z.pos m in
    Fin (if (0 <=? e)%Z then inject_Z (z * 2 ^ e) else Qmake z (Z.to_pos (2 ^ (- e))))
  | S754_nan => XNaN
  | S754_infinity s => if s then NInf else PInf
  end.

(* printable forms for the harness: (tag, m, e) with tag 0 finite (value m * 2^e), 1 NaN,
   2 +inf, 3 -inf;  and (tag, num, den) for extended rationals *)
Definition fshow (f : float) : Z * Z * Z :=
  match Prim2SF f with
  | S754_zero _ => (0, 0, 0)%Z
  | S754_finite s m e => (0, (if s then Z.neg m else Z.pos m), e)%Z
  | S754_nan => (1, 0, 0)%Z
  | S754_infinity s => ((if s then 3 else 2), 0, 0)%Z
  end.

Definition qshow (v : xval Q) : Z * Z * Z :=
  match v with
  | Fin q => let r := Qred q in (0, Qnum r, Z.pos (Qden r))%Z
  | XNaN => (1, 0, 1)%Z
  | PInf => (2, 0, 1)%Z
  | NInf => (3, 0, 1)%Z
  end.

Definition qshow_pair (p : option (Q * Q)) : option ((Z * Z) * (Z * Z)) :=
  match p with
  | None => None
  | Some (a, b) =>
    let ra := Qred a in let rb := Qred b in
    Some ((Qnum ra, Z.pos (Qden ra)), (Qnum rb, Z.pos (Qden rb)))
  end.
