(* C19 — the FIXED meanings the translator harness/translate_C19.py gives to the Python
   primitives that occur in quantem/core/config.py, over the value universe of C19_Model.v
   (cfg = Leaf scalar | Node association-list; Python None is Leaf JNone).
   Definitions only; the bridging lemmas are in proof/C19_Proofs_PyLib.v. *)
From QV.lib Require Import Prelude.
From QV.model Require Import C19_Model C19_Model2.
From Coq Require Import String Ascii DecimalString.

Definition py_none : cfg := Leaf JNone.

(* bool(x) *)
Definition cfg_truthy (c : cfg) : bool :=
  match c with Leaf x => py_truthy x | Node [] => false | Node _ => true end.

(* isinstance(x, Mapping) / isinstance(x, dict) *)
Definition is_mapping (c : cfg) : bool := match c with Node _ => true | Leaf _ => false end.

(* `k in c` for a str k: dict membership, substring test on a str, TypeError on None/bool/int *)
Definition py_in (k : string) (c : cfg) : err + bool :=
  match c with
  | Node l => inr (mem k l)
  | Leaf (JStr s) => inr (contains k s)
  | Leaf _ => inl TypeErr
  end.

(* c[k] for a str k: KeyError on a dict without k; TypeError on a scalar (str indices must be integers) *)
Definition py_getitem (c : cfg) (k : string) : err + cfg :=
  match c with
  | Node l => match lookup k l with Some v => inr v | None => inl KeyErr end
  | Leaf _ => inl TypeErr
  end.

(* c.get(k): AttributeError on a scalar *)
Definition py_get (c : cfg) (k : string) : err + cfg :=
  match c with
  | Node l => inr (match lookup k l with Some v => v | None => py_none end)
  | Leaf _ => inl AttrErr
  end.

(* d[k] on a variable known to hold a dict *)
Definition d_getitem (d : items) (k : string) : err + cfg :=
  match lookup k d with Some v => inr v | None => inl KeyErr end.

(* a value used where a dict is required (first argument of update / _assign): the mapping itself;
   a scalar there fails on the first dict operation *)
Definition as_dict (c : cfg) : err + items :=
  match c with Node l => inr l | Leaf _ => inl TypeErr end.

(* k.replace("_", "-") / k.replace("-", "_") / "_" in k: model's repl / has on one-character strings *)
Definition c_under : ascii := under.
Definition c_dash : ascii := dash.

(* key.split(".") *)
Definition py_split_dot (s : string) : list string := let (h, t) := split_dot s in h :: t.

(* str(x): the text of a scalar; of a mapping only the first character is modelled (its only
   consumer compares with "cpu" / startswith("cpu:")) *)
Definition py_str (c : cfg) : string :=
  match c with
  | Leaf JNone => "None"
  | Leaf (JBool true) => "True"
  | Leaf (JBool false) => "False"
  | Leaf (JInt z) => NilZero.string_of_int (Z.to_int z)
  | Leaf (JStr s) => s
  | Node _ => "{...}"
  end.

(* s.isdigit() on ASCII text: non-empty, all decimal digits *)
Definition py_isdigit (s : string) : bool := negb (String.eqb s EmptyString) && all_digits s.

(* s[4:] *)
Definition py_drop4 (s : string) : string := drop4 s.

(* error classes named in an `except` clause *)
Definition err_eqb (a b : err) : bool :=
  match a, b with
  | KeyErr, KeyErr | TypeErr, TypeErr | ValueErr, ValueErr | RuntimeErr, RuntimeErr | AttrErr, AttrErr => true
  | _, _ => false
  end.
Fixpoint err_in (e : err) (l : list err) : bool :=
  match l with [] => false | x :: r => err_eqb e x || err_in e r end.

(* short-circuit `or` / `and` / `not` over operands that may raise *)
Definition orM (a b : err + bool) : err + bool :=
  match a with inl e => inl e | inr true => inr true | inr false => b end.
Definition andM (a b : err + bool) : err + bool :=
  match a with inl e => inl e | inr false => inr false | inr true => b end.
Definition notM (a : err + bool) : err + bool :=
  match a with inl e => inl e | inr x => inr (negb x) end.
Definition bindM {A B : Type} (m : err + A) (f : A -> err + B) : err + B :=
  match m with inl e => inl e | inr a => f a end.

(* ------------------------------------------------------------------ tables of check_key_val *)
Definition depr_t := list (string * option string).
Definition alias_t := list (string * list (jval * jval)).

Definition amem {A : Type} (k : string) (l : list (string * A)) : bool :=
  match alookup k l with Some _ => true | None => false end.
Definition a_getitem {A : Type} (l : list (string * A)) (k : string) : err + A :=
  match alookup k l with Some a => inr a | None => inl KeyErr end.
(* truthiness of `str | None` *)
Definition os_truthy (o : option string) : bool :=
  match o with Some s => negb (String.eqb s EmptyString) | None => false end.
(* `val in tbl` / `tbl[val]` with a scalar key (hash + ==); a mapping is unhashable *)
Definition vt_in (v : cfg) (tbl : list (jval * jval)) : err + bool :=
  match v with
  | Node _ => inl TypeErr
  | Leaf x => inr (match vlookup x tbl with Some _ => true | None => false end)
  end.
Definition vt_getitem (tbl : list (jval * jval)) (v : cfg) : err + cfg :=
  match v with
  | Node _ => inl TypeErr
  | Leaf x => match vlookup x tbl with Some r => inr (Leaf r) | None => inl KeyErr end
  end.

(* ------------------------------------------------------------------ records of set *)
(* ("replace", path, previous value) / ("insert", path, None) *)
Definition rec_t := (string * list string * cfg)%type.
Definition crec_of (r : rec_t) : crec :=
  match r with (o, p, v) => (p, if String.eqb o "replace" then Some v else None) end.

(* ------------------------------------------------------------------ cursors (set.__exit__) *)
(* `d = self.config; d = d.setdefault(k, {}); d = d[k]; d[k] = v; d.pop(k, None)`: d is a reference
   INTO the tree held by self.config.  A reference is the list of keys from the root (the store is a
   tree: no dict object is reachable under two paths). *)
Fixpoint cur_val (p : list string) (c : cfg) : cfg :=
  match p with
  | [] => c
  | k :: r => match c with
              | Node l => match lookup k l with Some c' => cur_val r c' | None => py_none end
              | Leaf _ => py_none
              end
  end.

(* replace the value at path p by f(value) *)
Fixpoint cur_map (f : cfg -> cfg) (p : list string) (c : cfg) : cfg :=
  match p with
  | [] => f c
  | k :: r => match c with
              | Node l => match lookup k l with
                          | Some c' => Node (assign k (cur_map f r c') l)
                          | None => c
                          end
              | Leaf _ => c
              end
  end.

Definition items_of (c : cfg) : items := match c with Node l => l | Leaf _ => [] end.

(* d.setdefault(k, {}) where d is the cursor p: new root and new cursor; AttributeError on a scalar *)
Definition cur_setdefault (root : items) (p : list string) (k : string) : err + (items * list string) :=
  match cur_val p (Node root) with
  | Leaf _ => inl AttrErr
  | Node l =>
      if mem k l then inr (root, p ++ [k])
      else inr (items_of (cur_map (fun _ => Node (assign k (Node []) l)) p (Node root)), p ++ [k])
  end.

(* d = d[k] *)
Definition cur_descend (root : items) (p : list string) (k : string) : err + list string :=
  match py_getitem (cur_val p (Node root)) k with
  | inl e => inl e
  | inr _ => inr (p ++ [k])
  end.

(* d[k] = v *)
Definition cur_setitem (root : items) (p : list string) (k : string) (v : cfg) : err + items :=
  match cur_val p (Node root) with
  | Leaf _ => inl TypeErr
  | Node l => inr (items_of (cur_map (fun _ => Node (assign k v l)) p (Node root)))
  end.

(* d.pop(k, None) *)
Definition cur_pop (root : items) (p : list string) (k : string) : err + items :=
  match cur_val p (Node root) with
  | Leaf _ => inl AttrErr
  | Node l => inr (items_of (cur_map (fun _ => Node (remove k l)) p (Node root)))
  end.

(* path[:-1], path[-1] (IndexError on an empty path is outside: recorded paths are never empty) *)
Definition py_init (p : list string) : list string := removelast p.
Definition py_last (p : list string) : string := last p EmptyString.

(* depth of a value: the recursion depth update needs *)
Fixpoint cfg_depth (c : cfg) : nat :=
  match c with
  | Leaf _ => 0
  | Node l => S ((fix mx (l : items) : nat :=
                    match l with [] => 0 | (_, v) :: r => Nat.max (cfg_depth v) (mx r) end) l)
  end.

(* priority strings *)
Definition prio_str (p : priority) : string :=
  match p with POld => "old" | PNew => "new" | PNewDefaults => "new-defaults" end.

(* the `defaults` argument of update as a Python value *)
Definition dv_cfg (dv : option cfg) : cfg := match dv with Some c => c | None => py_none end.
