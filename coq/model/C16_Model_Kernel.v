(* C16 — the kernels the forward model builds, as SHAPES over an abstract character.
   Definitions only (proofs: proof/C16_Proofs_Kernel.v).  Round-3 extension of model/C16_Model.v.

   Modelled code (src/quantem/diffractive_imaging):
     ptycho_utils.fourier_translation_operator
         ramp_r = exp(-2 pi i kr[k1] * r),  ramp_c = exp(-2 pi i kc[k2] * c),  kr = fftfreq(nr, 1.0)
     probe_models.ProbeBase._compute_propagator_arrays
         propagators = exp(-i pi lambda dz (kr^2 + kc^2))
         if theta_r != 0: propagators *= exp(-2 pi i dz tan(theta_r / 1e3) kr)
         if theta_c != 0: propagators *= exp(-2 pi i dz tan(theta_c / 1e3) kc)       kr = fftfreq(n, sampling)
     ptychography_base.forward_operator   overlap *= fourier_translation_operator(descan)   (real space)
     ptychography.gradient_step           fourier_projection - overlap, all probe modes
     object_models.ObjectPixelated.backward / _get_obj_patches: gather / scatter slice by slice

   Phases are elements of a commutative ring P ("turns": the wave is E(t) = exp(2 pi i t)); the
   exponential enters ONLY as a parameter E : P -> R, used in the theorems through
       E (a + b) = E a * E b,   E 0 = 1,   conj (E a) = E (- a).
   chalf stands for the constant 1/2 of the Fresnel phase -(1/2) lambda dz k^2 turns; the
   tangents of the tilt angles are parameters tr tc (tan is not modelled).  The frequency grids
   fr fc : nat -> P are parameters in the theorems (ANY grid) and fftfreq in the executable
   instance C16K (P = Q), whose phases are compared with the angle of the arrays the code builds. *)
From Coq Require Import ZArith List QArith Qround.
From QV.lib Require Import FinSum DFT DFT2.
From QV.model Require Import C16_Model.
Import ListNotations.
Local Close Scope Q_scope.

Section Kernel.
  Variable R : Type.
  Variables (rO rI : R) (radd rmul rsub : R -> R -> R).
  Variable P : Type.
  Variables (pO pI : P) (padd pmul psub : P -> P -> P) (popp : P -> P).
  Variable E : P -> R.

  Notation img := (nat -> nat -> R).

  (* ---------------------------------------------------------------- sub-pixel shift ramp *)
  (* exp(-2 pi i k s): -(k s) turns *)
  Definition ramp_phase (k s : P) : P := popp (pmul k s).
  Definition shift_ramp (f : nat -> P) (s : P) : nat -> R := fun k => E (ramp_phase (f k) s).
  (* phase of ramp[k1, k2] = ramp_r[k1] * ramp_c[k2] *)
  Definition ramp2_phase (f1 f2 : nat -> P) (s1 s2 : P) (k1 k2 : nat) : P :=
    padd (ramp_phase (f1 k1) s1) (ramp_phase (f2 k2) s2).

  (* ---------------------------------------------------------------- Fresnel kernel *)
  Definition fresnel_phase0 (chalf lam dz kr kc : P) : P :=
    popp (pmul (pmul (pmul chalf lam) dz) (padd (pmul kr kr) (pmul kc kc))).
  Definition tilt_phase (dz t k : P) : P := popp (pmul (pmul dz t) k).
  Definition fresnel_phase (chalf lam tr tc dz kr kc : P) : P :=
    padd (padd (fresnel_phase0 chalf lam dz kr kc) (tilt_phase dz tr kr)) (tilt_phase dz tc kc).

  (* the kernel as ONE exponential of the total phase *)
  Definition fresnel_kernel (chalf lam tr tc : P) (fr fc : nat -> P) (dz : P) : img :=
    fun k1 k2 => E (fresnel_phase chalf lam tr tc dz (fr k1) (fc k2)).

  (* the kernel as CODED: a product of exponentials; the tilt factors are skipped when the tilt
     angle is zero (br / bc = "theta_r != 0" / "theta_c != 0") *)
  Definition fresnel_kernel_code (chalf lam : P) (br bc : bool) (tr tc : P) (fr fc : nat -> P) (dz : P) : img :=
    fun k1 k2 =>
      let p0 := E (fresnel_phase0 chalf lam dz (fr k1) (fc k2)) in
      let p1 := if br then rmul p0 (E (tilt_phase dz tr (fr k1))) else p0 in
      if bc then rmul p1 (E (tilt_phase dz tc (fc k2))) else p1.

  (* _compute_propagator_arrays: one kernel per slice gap *)
  Definition propagator_arrays (chalf lam : P) (br bc : bool) (tr tc : P) (fr fc : nat -> P) (thick : list P)
    : list img := map (fresnel_kernel_code chalf lam br bc tr tc fr fc) thick.
End Kernel.

Arguments ramp_phase {P} pmul popp k s.
Arguments shift_ramp {R P} pmul popp E f s _.
Arguments ramp2_phase {P} padd pmul popp f1 f2 s1 s2 k1 k2.
Arguments fresnel_phase0 {P} padd pmul popp chalf lam dz kr kc.
Arguments tilt_phase {P} pmul popp dz t k.
Arguments fresnel_phase {P} padd pmul popp chalf lam tr tc dz kr kc.
Arguments fresnel_kernel {R P} padd pmul popp E chalf lam tr tc fr fc dz _ _.
Arguments fresnel_kernel_code {R} rmul {P} padd pmul popp E chalf lam br bc tr tc fr fc dz _ _.
Arguments propagator_arrays {R} rmul {P} padd pmul popp E chalf lam br bc tr tc fr fc thick.

(* ------------------------------------------------------------------ the library's forward pass
   dset.forward -> probe_model.forward (sub-pixel shifted probes) -> obj_model.forward ->
   forward_operator (multislice, then the exit wave times the descan ramp in real space) *)
Section Forward.
  Variable R : Type.
  Variables (rO rI : R) (radd rmul rsub : R -> R -> R).
  Variables (N1 : nat) (w1 : Z -> R) (Ninv1 : R) (N2 : nat) (w2 : Z -> R) (Ninv2 : R).
  Notation img := (nat -> nat -> R).

  (* forward_operator(obj_patches, fourier_shift_expand(probe, frac), descan)[1] for one mode, one position *)
  Definition forward_operator (objs props : list img) (hr hc : nat -> R) (dr dc : nat -> R) (probe : img) : img :=
    pmul rmul (ramp2 rmul dr dc)
      (overlap_projection rO radd rmul N1 w1 Ninv1 N2 w2 Ninv2 objs props
         (fourier_shift rO radd rmul N1 w1 Ninv1 N2 w2 Ninv2 hr hc probe)).

  (* gradient_step for every probe mode: projected exit waves minus the current ones *)
  Definition sub_img (a b : img) : img := fun i j => rsub (a i j) (b i j).
  Fixpoint sub_imgs (ps qs : list img) : list img :=
    match ps, qs with
    | p :: ps', q :: qs' => sub_img p q :: sub_imgs ps' qs'
    | _, _ => []
    end.
  Definition gradient_step_mixed (conj : R -> R) (rs rsi : R) (isq : R -> R) (eps : R) (a : img) (psis : list img)
    : list img :=
    sub_imgs (fourier_projection_mixed rO radd rmul conj N1 w1 Ninv1 N2 w2 Ninv2 rs rsi isq eps a psis) psis.

  (* gather / scatter slice by slice (obj_flat[:, idx]; ObjectPixelated.backward loops sum_patches over slices) *)
  Definition gather_slices (objs : list (nat -> R)) (idx : list nat) : list (list R) :=
    map (fun o => gather o idx) objs.
  Definition scatter_slices (idx : list nat) (valss : list (list R)) : list (nat -> R) :=
    map (scatter rO radd idx) valss.
  Fixpoint ldot_slices (ps vs : list (list R)) : R :=
    match ps, vs with
    | p :: ps', v :: vs' => radd (ldot rO radd rmul p v) (ldot_slices ps' vs')
    | _, _ => rO
    end.
  Fixpoint adot_slices (size : nat) (os ss : list (nat -> R)) : R :=
    match os, ss with
    | o :: os', s :: ss' => radd (adot rO radd rmul size o s) (adot_slices size os' ss')
    | _, _ => rO
    end.
End Forward.

Arguments forward_operator {R} rO radd rmul N1 w1 Ninv1 N2 w2 Ninv2 objs props hr hc dr dc probe _ _.
Arguments sub_img {R} rsub a b _ _.
Arguments sub_imgs {R} rsub ps qs.
Arguments gradient_step_mixed {R} rO radd rmul rsub N1 w1 Ninv1 N2 w2 Ninv2 conj rs rsi isq eps a psis.
Arguments gather_slices {R} objs idx.
Arguments scatter_slices {R} rO radd idx valss.
Arguments ldot_slices {R} rO radd rmul ps vs.
Arguments adot_slices {R} rO radd rmul size os ss.

(* ============================================================================================
   exact rational instance used by harness/props/C16.py: the SAME phase formulas with P = Q and
   the fftfreq grids; printed as unreduced fractions (the reader reduces them).  (E is not evaluated: the check compares these phases,
   modulo one turn, with the angle of the arrays the implementation builds.) *)
Module C16K.
  Open Scope Q_scope.
  (* numpy / torch fftfreq(n, d)[k] = fftfreq_index n k / (n d) *)
  Definition fftfreq_q (n : nat) (d : Q) (k : nat) : Q :=
    inject_Z (fftfreq_index n k) / (inject_Z (Z.of_nat n) * d).
  Definition half : Q := 1 # 2.

  (* phases (turns) of fourier_translation_operator((s1, s2), (n1, n2)) *)
  Definition ramp_phases (n1 n2 : nat) (s1 s2 : Q) : list (list Q) :=
    map (fun k1 => map (fun k2 =>
        ramp2_phase Qplus Qmult Qopp (fftfreq_q n1 1) (fftfreq_q n2 1) s1 s2 k1 k2) (seq 0 n2)) (seq 0 n1).

  (* phases (turns) of _compute_propagator_arrays for one slice gap; tr tc = tan(theta / 1e3) *)
  Definition fresnel_phases (n1 n2 : nat) (d1 d2 lam tr tc dz : Q) : list (list Q) :=
    map (fun k1 => map (fun k2 =>
        fresnel_phase Qplus Qmult Qopp half lam tr tc dz (fftfreq_q n1 d1 k1) (fftfreq_q n2 d2 k2))
        (seq 0 n2)) (seq 0 n1).

  (* what is printed: floor (phase * 2^64) (printing a rational with hundreds of digits is slow; the
     reader takes the value modulo 2^64 for the phase modulo one turn and the quotient for its size) *)
  Definition fix64 (q : Q) : Z := Qfloor (q * inject_Z (2 ^ 64)).
  Definition ramp_phases_fix n1 n2 s1 s2 : list (list Z) := map (map fix64) (ramp_phases n1 n2 s1 s2).
  Definition fresnel_phases_fix n1 n2 d1 d2 lam tr tc dz : list (list Z) :=
    map (map fix64) (fresnel_phases n1 n2 d1 d2 lam tr tc dz).
  Close Scope Q_scope.
End C16K.
