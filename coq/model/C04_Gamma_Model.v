(* C04 — the per-pixel Fourier factors of the kernels (definitions only; proofs in proof/C04_Proofs_Gamma.v).

   complex_probe.evaluate_probe     probe(v) = aperture(v) * exp(-i chi(v))
   complex_probe.gamma_factor       gamma(k, q) = probe(q - k) * conj(probe(k)) - conj(probe(q + k)) * probe(k)
                                    (asymmetric_version = True, normalize = False: the call of
                                    _return_kernel_contributions)
   _return_kernel_contributions     ssb:  -i * V * conj(gamma) / clip(|gamma|)       (a Fourier multiplier)
                                    obf / mf:  -i * V * conj(gamma), power |gamma|^2
                                    prlx: V * exp(-i grad_k . q) * sign
   over an abstract commutative ring with conjugation; the frequency vectors K (detector k, scan q: not on a
   common lattice), the phases Ph, the CHARACTER  E : Ph -> R  (E t plays exp(-i t)), the APERTURE  A : K -> R
   and the aberration surface  chi : K -> Ph  are parameters.  The structural facts the kernels rely on are
   theorems about these definitions; harness/ext_C04.py recomputes [gamma_closed] in float64 for every
   gamma_factor call of real reconstructions.

   Also here: the object-state model of `reconstruct` (what a call reads and writes). *)
From Coq Require Import ZArith List Bool Arith.
From QV.lib Require Import Prelude FinSum DFT DFT2.
From QV.model Require Import C04_Model.
Import ListNotations.
Unset Implicit Arguments.

Section Gamma.
  Variable R : Type.
  Variables (radd rmul rsub : R -> R -> R) (conj : R -> R).
  Variable K : Type.
  Variables (kadd : K -> K -> K) (kneg : K -> K).
  Variable Ph : Type.
  Variables (padd : Ph -> Ph -> Ph) (pneg : Ph -> Ph).
  Variable E : Ph -> R.
  Variable A : K -> R.
  Variable chi : K -> Ph.

  Definition ksub (q k : K) : K := kadd q (kneg k).
  (* evaluate_probe *)
  Definition probe (v : K) : R := rmul (A v) (E (chi v)).
  (* gamma_factor(qmks = q - k, qpks = q + k, cmplx_probe_at_k = probe k, normalize = False) *)
  Definition gamma (k q : K) : R :=
    rsub (rmul (probe (ksub q k)) (conj (probe k))) (rmul (conj (probe (kadd q k))) (probe k)).
  (* the same in terms of the aperture and the surface at k, q - k, q + k *)
  Definition gamma_closed (k q : K) : R :=
    rmul (A k)
         (rsub (rmul (A (ksub q k)) (E (padd (chi (ksub q k)) (pneg (chi k)))))
               (rmul (A (kadd q k)) (E (padd (chi k) (pneg (chi (kadd q k))))))).
  (* abs_gamma.square() *)
  Definition norm2 (z : R) : R := rmul z (conj z).
  Definition gamma_power (k q : K) : R := norm2 (gamma k q).

  (* the multiplier of ssb / obf / mf at scan frequency q for the detector pixel at k:
     -i * conj(gamma) * ninv(q), ninv = 1/clip(|gamma|) (ssb) or 1/norm (obf, mf): any REAL factor *)
  Variable mi : R.                               (* -i *)
  Definition sb_factor (ninv : K -> R) (k q : K) : R := rmul (rmul mi (conj (gamma k q))) (ninv q).
  (* the parallax ramp exp(-i grad_k . q) * sign(q): the character applied to a pairing *)
  Variable pair : K -> K -> Ph.                  (* (grad, q) |-> grad . q *)
  Definition prlx_factor (sgn : K -> R) (grad q : K) : R := rmul (E (pair grad q)) (sgn q).
End Gamma.

Arguments ksub {K} kadd kneg q k.
Arguments probe {R} rmul {K Ph} E A chi v.
Arguments gamma {R} rmul rsub conj {K} kadd kneg {Ph} E A chi k q.
Arguments gamma_closed {R} rmul rsub {K} kadd kneg {Ph} padd pneg E A chi k q.
Arguments norm2 {R} rmul conj z.
Arguments gamma_power {R} rmul rsub conj {K} kadd kneg {Ph} E A chi k q.
Arguments sb_factor {R} rmul rsub conj {K} kadd kneg {Ph} E A chi mi ninv k q.
Arguments prlx_factor {R} rmul {K Ph} E pair sgn grad q.

(* index of the negative frequency on a length-N axis: (N - k) mod N *)
Definition negidx (N k : nat) : nat := ((N - k) mod N)%nat.
(* numerator of torch.fft.fftfreq(N)[k]: k for k < ceil(N/2), k - N above *)
Definition signed_idx (N k : nat) : Z := if (2 * k <? N)%nat then Z.of_nat k else (Z.of_nat k - Z.of_nat N)%Z.

(* ------------------------------------------------------------------ object state of DirectPtychography *)
(* Everything `reconstruct` reads is fixed at construction (`inputs`: stack, construction mask, samplings,
   energy, hyper-parameter state, ...) or is an argument of the call; the only attribute it writes is
   `_corrected_stack` (corrected_bf is a property computed from it).  A call is modelled as a function
   f : inputs -> args -> result. *)
Section State.
  Variables (In Args Res : Type).
  Variable f : In -> Args -> Res.
  Record obj := { inputs : In; corrected : option Res }.
  Definition construct (i : In) : obj := {| inputs := i; corrected := None |}.
  Definition reconstruct_call (o : obj) (a : Args) : obj := {| inputs := inputs o; corrected := Some (f (inputs o) a) |}.
  Definition run_calls (o : obj) (calls : list Args) : obj := fold_left reconstruct_call calls o.
End State.
Arguments inputs {In Res} o.
Arguments corrected {In Res} o.
Arguments construct {In} Res i.
Arguments reconstruct_call {In Args Res} f o a.
Arguments run_calls {In Args Res} f o calls.
