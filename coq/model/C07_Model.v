(* C07 — Torch Radon / filtered back-projection vs the scikit-image reference.

   Two exact models over Q, with (cos theta, sin theta) abstract rationals (c, s) and an
   abstract image sampler:

   SPECIFICATION  [sk_...]   scikit-image 0.26  skimage/transform/radon_transform.py
       radon(circle=True)        centre n//2, warp matrix R, warp(order=1, cval=0), column sums
       _get_fourier_filter       index vector n, spatial ramp kernel, window definitions
       iradon                    _sinogram_circle_to_square, padded FFT size, np.interp
                                 (left=0, right=0), circle mask, pi/(2A)
   PORT           [port_...]  /repo/src/quantem/tomography/radon/radon.py
       radon_torch               coords / rot / grid normalisation / grid_sample(align_corners=True)
       get_fourier_filter_torch  index vector, linspace / hamming_window / hann_window arguments
       iradon_torch              padded size, floor/clamp/gather back-projection, mask, scale

   The port is parametrised by a `variant`: `as_written` is the code of the pinned commit,
   `repaired` is the code after fixes/C07-*.diff (one flag per diff).  Theorems about agreement
   with scikit-image are proved for `repaired`; `…_refuted` lemmas for `as_written` isolate the
   cause of each defect.

   Definitions only; proofs are in proof/C07_Proofs.v. *)
From QV.lib Require Import Prelude.
From Coq Require Import QArith Qround Qabs.
Local Open Scope Q_scope.

(* ------------------------------------------------------------------------------ helpers *)
Definition zrange (n : Z) : list Z := map Z.of_nat (seq 0 (Z.to_nat n)).

(* Qred only normalises the representation (Qred q == q): it keeps the numerals small when the
   model is executed *)
Definition sumQ (f : Z -> Q) (l : list Z) : Q := fold_right (fun i acc => Qred (f i + acc)) 0 l.

Definition iz (z : Z) : Q := inject_Z z.

(* an image is its pixel function (row, column); arrays are total functions, the size is
   carried separately *)
Definition image := Z -> Z -> Q.

(* a sampler evaluates an n x n image at real coordinates (x = column, y = row) *)
Definition sampler := Z -> image -> Q -> Q -> Q.

(* pixel access with zeros outside the n x n array: grid_sample(padding_mode="zeros") and
   warp(mode="constant", cval=0) *)
Definition clip (n : Z) (img : image) : image :=
  fun r k => if ((0 <=? r) && (r <? n) && (0 <=? k) && (k <? n))%Z then img r k else 0.

(* bilinear interpolation (the common `sample` of grid_sample(mode="bilinear") and
   warp(order=1)): the four neighbours weighted by the fractional parts *)
Definition bilinear : sampler := fun n img x y =>
  let x0 := Qfloor x in let y0 := Qfloor y in
  let fx := x - iz x0 in let fy := y - iz y0 in
  let p := clip n img in
  (1 - fy) * ((1 - fx) * p y0 x0 + fx * p y0 (x0 + 1)%Z)
  + fy * ((1 - fx) * p (y0 + 1)%Z x0 + fx * p (y0 + 1)%Z (x0 + 1)%Z).

(* laws a sampler may satisfy (premises of the theorems; `bilinear` satisfies all of them) *)
Definition sampler_proper (sample : sampler) : Prop :=
  (forall n img x x' y y', x == x' -> y == y' -> sample n img x y == sample n img x' y') /\
  (forall n f g x y, (forall r k, f r k == g r k) -> sample n f x y == sample n g x y).

Definition lin_img (a : Q) (f : image) (b : Q) (g : image) : image := fun r k => a * f r k + b * g r k.

Definition sampler_linear (sample : sampler) : Prop :=
  forall n a f b g x y, sample n (lin_img a f b g) x y == a * sample n f x y + b * sample n g x y.

Definition sampler_on_grid (sample : sampler) : Prop :=
  forall n img (r k : Z), (0 <= r < n)%Z -> (0 <= k < n)%Z -> sample n img (iz k) (iz r) == img r k.

(* the reconstruction disc: centre n//2, radius n//2 (square n x n image) *)
Definition in_disc (n r k : Z) : bool := ((k - n / 2) ^ 2 + (r - n / 2) ^ 2 <=? (n / 2) ^ 2)%Z.
Definition disc_mask (n : Z) (img : image) : image := fun r k => if in_disc n r k then img r k else 0.

(* ============================================================ SPECIFICATION: skimage.radon *)
(* center = padded_image.shape[0] // 2 *)
Definition sk_center (n : Z) : Z := (n / 2)%Z.

(* R = [[cos, sin, -center*(cos+sin-1)], [-sin, cos, -center*(cos-sin-1)], [0,0,1]] *)
Definition sk_R (c s : Q) (ctr : Z) : (Q * Q * Q) * (Q * Q * Q) :=
  ((c, s, - iz ctr * (c + s - 1)), (- s, c, - iz ctr * (c - s - 1))).

(* warp(image, M): output pixel (row r, column k) takes the input at (x, y) = M (k, r, 1)^T,
   x the column coordinate and y the row coordinate (skimage _warp_fast) *)
Definition warp_point (M : (Q * Q * Q) * (Q * Q * Q)) (r k : Z) : Q * Q :=
  let '((a0, a1, a2), (b0, b1, b2)) := M in
  (a0 * iz k + a1 * iz r + a2, b0 * iz k + b1 * iz r + b2).

Definition sk_point (c s : Q) (n r k : Z) : Q * Q := warp_point (sk_R c s (sk_center n)) r k.

(* radon_image[:, i] = warp(...).sum(0): sum over the rows r of column k *)
Definition sk_radon (sample : sampler) (img : image) (n : Z) (c s : Q) (k : Z) : Q :=
  sumQ (fun r => let p := sk_point c s n r k in sample n img (fst p) (snd p)) (zrange n).

(* ==================================================================== PORT: radon_torch *)
Record variant := {
  v_rot_fixed : bool;      (* fixes/C07-even-size-centre.diff            *)
  v_cosine_fixed : bool;   (* fixes/C07-cosine-filter-endpoint.diff      *)
  v_circle_pad : bool;     (* fixes/C07-iradon-circle-padding.diff (pad to the diagonal) *)
  v_interp_mask : bool;    (* fixes/C07-iradon-circle-padding.diff (np.interp left/right) *)
  v_theta_fixed : bool     (* fixes/C07-iradon-default-theta-endpoint.diff *)
}.
Definition as_written : variant := Build_variant false false false false false.
Definition repaired : variant := Build_variant true true true true true.

(* rot = [[cos, -sin], [-sin, -cos]]   (as written) / [[cos, sin], [-sin, cos]] (repaired) *)
Definition port_rot (v : variant) (c s : Q) : (Q * Q) * (Q * Q) :=
  if v_rot_fixed v then ((c, s), (- s, c)) else ((c, - s), (- s, - c)).

(* coords[r, k] = (k - center, r - center); coords_rot = coords @ rot^T; coords_rot += center *)
Definition port_coords_rot (v : variant) (c s : Q) (n r k : Z) : Q * Q :=
  let ctr := iz (n / 2) in
  let u := iz k - ctr in let w := iz r - ctr in
  let '((r00, r01), (r10, r11)) := port_rot v c s in
  (u * r00 + w * r01 + ctr, u * r10 + w * r11 + ctr).

(* grid = 2 * coords_rot / (N - 1) - 1 *)
Definition port_grid (v : variant) (c s : Q) (n r k : Z) : Q * Q :=
  let p := port_coords_rot v c s n r k in
  (2 * fst p / (iz n - 1) - 1, 2 * snd p / (iz n - 1) - 1).

(* F.grid_sample(align_corners=True): a grid value g along an axis of n pixels addresses the
   pixel coordinate ((g + 1) / 2) * (n - 1); grid[..., 0] is x (column), grid[..., 1] is y (row) *)
Definition unnormalize_ac (n : Z) (g : Q) : Q := ((g + 1) / 2) * (iz n - 1).

Definition port_point (v : variant) (c s : Q) (n r k : Z) : Q * Q :=
  let g := port_grid v c s n r k in (unnormalize_ac n (fst g), unnormalize_ac n (snd g)).

(* images *= mask; sampled.sum(dim=1): sum over the rows r of column k *)
Definition port_radon (v : variant) (sample : sampler) (img : image) (n : Z) (c s : Q) (k : Z) : Q :=
  sumQ (fun r => let p := port_point v c s n r k in sample n (disc_mask n img) (fst p) (snd p))
       (zrange n).

(* whole sinograms [angle][detector] (for execution) *)
Definition sk_sinogram (sample : sampler) (img : image) (n : Z) (angles : list (Q * Q)) : list (list Q) :=
  map (fun cs => map (sk_radon sample img n (fst cs) (snd cs)) (zrange n)) angles.
Definition port_sinogram (v : variant) (sample : sampler) (img : image) (n : Z) (angles : list (Q * Q))
  : list (list Q) :=
  map (fun cs => map (port_radon v sample img n (fst cs) (snd cs)) (zrange n)) angles.

(* batched call [B, H, W] -> [B, A, N]; `squeeze(0)` when B = 1 *)
Inductive result (A : Type) := Single (x : A) | Batch (xs : list A).
Arguments Single {A}. Arguments Batch {A}.
Definition squeeze0 {A} (xs : list A) : result A :=
  match xs with [x] => Single x | _ => Batch xs end.
Definition port_radon_batched (v : variant) (sample : sampler) (imgs : list image) (n : Z)
  (angles : list (Q * Q)) : result (list (list Q)) :=
  squeeze0 (map (fun img => port_sinogram v sample img n angles) imgs).

(* ============================================================ Fourier reconstruction filter *)
Inductive fname := Ramp | SheppLogan | Cosine | Hamming | Hann | NoFilter.

(* C cast float -> int (toward zero) *)
Definition Qtrunc (q : Q) : Z := if Qle_bool 0 q then Qfloor q else Qceiling q.

(* np.arange(start, stop, step, dtype=int) with float arguments: length ceil((stop-start)/step),
   values int(start) + i * (int(start + step) - int(start)) *)
Definition np_arange_int (start stop step : Q) : list Z :=
  let len := Qceiling ((stop - start) / step) in
  let first := Qtrunc start in let delta := (Qtrunc (start + step) - first)%Z in
  map (fun i => (first + i * delta)%Z) (zrange len).

(* skimage: n = concatenate(arange(1, size/2 + 1, 2, dtype=int), arange(size/2 - 1, 0, -2, dtype=int)),
   `size / 2` being true (float) division *)
Definition sk_filter_n (size : Z) : list Z :=
  np_arange_int 1 (iz size / 2 + 1) 2 ++ np_arange_int (iz size / 2 - 1) 0 (-2).

(* torch.arange(start, stop, step) on integers: length ceil((stop - start) / step) *)
Definition torch_arange (start stop step : Z) : list Z :=
  let len := (if (0 <? step)%Z then (stop - start + step - 1) / step else (start - stop + (- step) - 1) / (- step))%Z in
  map (fun i => (start + i * step)%Z) (zrange len).

(* port: n = cat(arange(1, size // 2 + 1, 2), arange(size // 2 - 1, 0, -2)) *)
Definition port_filter_n (size : Z) : list Z :=
  torch_arange 1 (size / 2 + 1) 2 ++ torch_arange (size / 2 - 1) 0 (-2).

(* f = zeros(size); f[0] = 0.25; f[1::2] = -1 / (pi * n)^2.  An entry (a, b) stands for
   a + b / pi^2.  (The assignment needs len(n) = number of odd indices below size.) *)
Definition ramp_kernel (size : Z) (ns : list Z) : list (Q * Q) :=
  map (fun k => if (k =? 0)%Z then (1 # 4, 0)
                else if Z.odd k then (0, - (1 / (iz (nth (Z.to_nat ((k - 1) / 2)) ns 0%Z)) ^ 2))
                else (0, 0))
      (zrange size).
Definition sk_ramp_kernel (size : Z) := ramp_kernel size (sk_filter_n size).
Definition port_ramp_kernel (size : Z) := ramp_kernel size (port_filter_n size).

(* np.fft.fftfreq(n)[k] = torch.fft.fftfreq(n)[k]:  results[:N] = arange(0, N), N = (n-1)//2 + 1;
   results[N:] = arange(-(n//2), 0); all divided by n *)
Definition fftfreq (n k : Z) : Q :=
  let N := ((n - 1) / 2 + 1)%Z in
  iz (if (k <? N)%Z then k else (- (n / 2) + (k - N))%Z) / iz n.

(* np.fft.fftshift(x)[k] = torch.fft.fftshift(x)[k] = x[(k - n//2) mod n]  (roll by n//2) *)
Definition fftshift_src (n k : Z) : Z := ((k - n / 2) mod n)%Z.

(* linspace(0, pi, num)[j] as a multiple of pi: numpy  j * (1 / div), div = num - 1 if endpoint
   else num;  torch.linspace(0, pi, steps)[j] = j / (steps - 1) *)
Definition linspace_coef (num : Z) (endpoint : bool) (j : Z) : Q :=
  iz j / iz (if endpoint then num - 1 else num)%Z.

Section FILTER.
  (* the transcendental functions, evaluated at exactly specified multiples of pi:
     sinpi a = sin(pi a), cospi a = cos(pi a), sincpi a = sin(pi a) / (pi a);
     rampF f k = 2 * Re(fft(f))[k] for a spatial kernel given as (a, b) ~ a + b/pi^2 *)
  Variables sinpi cospi sincpi : Q -> Q.
  Variable rampF : list (Q * Q) -> Z -> Q.

  (* --- scikit-image: multiplicative window at index k of a size-`size` filter *)
  (* np.hamming(M) = 0.54 + 0.46 cos(pi n / (M-1)), n = arange(1-M, M, 2); np.hanning likewise *)
  Definition np_window_arg (M j : Z) : Q := iz (1 - M + 2 * j) / iz (M - 1).
  Definition sk_window (name : fname) (size k : Z) : Q :=
    match name with
    | Ramp => 1
    | SheppLogan => if (k =? 0)%Z then 1 else sincpi (fftfreq size k)       (* omega = pi*fftfreq[1:] *)
    | Cosine => sinpi (linspace_coef size false (fftshift_src size k))      (* endpoint=False *)
    | Hamming => (27 # 50) + (23 # 50) * cospi (np_window_arg size (fftshift_src size k))
    | Hann => (1 # 2) + (1 # 2) * cospi (np_window_arg size (fftshift_src size k))
    | NoFilter => 1
    end.
  Definition sk_filter (name : fname) (size k : Z) : Q :=
    match name with
    | NoFilter => 1                                                          (* fourier_filter[:] = 1 *)
    | _ => rampF (sk_ramp_kernel size) k * sk_window name size k
    end.

  (* --- port *)
  (* torch.hamming_window(M, periodic=False) = 0.54 - 0.46 cos(2 pi j / (M-1));
     torch.hann_window(M, periodic=False)    = 0.5  - 0.5  cos(2 pi j / (M-1)) *)
  Definition torch_window_arg (M j : Z) : Q := iz (2 * j) / iz (M - 1).
  (* as written: linspace(0, pi, steps=size); repaired: linspace(0, pi, steps=size+1)[:-1] *)
  Definition port_cosine_coef (v : variant) (size j : Z) : Q :=
    if v_cosine_fixed v then linspace_coef (size + 1) true j else linspace_coef size true j.
  Definition port_window (v : variant) (name : fname) (size k : Z) : Q :=
    match name with
    | Ramp => 1
    | SheppLogan => if (k =? 0)%Z then 1 else sincpi (fftfreq size k)
    | Cosine => sinpi (port_cosine_coef v size (fftshift_src size k))
    | Hamming => (27 # 50) - (23 # 50) * cospi (torch_window_arg size (fftshift_src size k))
    | Hann => (1 # 2) - (1 # 2) * cospi (torch_window_arg size (fftshift_src size k))
    | NoFilter => 1
    end.
  Definition port_filter (v : variant) (name : fname) (size k : Z) : Q :=
    match name with
    | NoFilter => 1
    | _ => rampF (port_ramp_kernel size) k * port_window v name size k
    end.
End FILTER.

(* arguments handed to sin / cos / sinc for index k (for the harness; None: no call) *)
Definition sk_window_arg (name : fname) (size k : Z) : option Q :=
  match name with
  | SheppLogan => if (k =? 0)%Z then None else Some (fftfreq size k)
  | Cosine => Some (linspace_coef size false (fftshift_src size k))
  | Hamming | Hann => Some (np_window_arg size (fftshift_src size k))
  | _ => None
  end.
Definition port_window_arg (v : variant) (name : fname) (size k : Z) : option Q :=
  match name with
  | SheppLogan => if (k =? 0)%Z then None else Some (fftfreq size k)
  | Cosine => Some (port_cosine_coef v size (fftshift_src size k))
  | Hamming | Hann => Some (torch_window_arg size (fftshift_src size k))
  | _ => None
  end.

(* ====================================================================== iradon geometry *)
(* int(ceil(sqrt(2) * n)) = least d with 2 n^2 <= d^2 *)
Definition diagonal (n : Z) : Z := Z.sqrt_up (2 * n * n).

(* max(64, int(2 ** ceil(log2(2 * m)))) *)
Definition padded_size (m : Z) : Z := Z.max 64 (2 ^ Z.log2_up (2 * m)).

(* output_size default: N if circle else int(floor(sqrt(N^2 / 2))) *)
Definition output_size (N : Z) (circle : bool) : Z := if circle then N else Z.sqrt (N * N / 2).

(* skimage: detector length after _sinogram_circle_to_square, and pad_before *)
Definition sk_det_size (N : Z) (circle : bool) : Z := if circle then diagonal N else N.
Definition sk_pad_before (N : Z) (circle : bool) : Z :=
  if circle then (diagonal N / 2 - N / 2)%Z else 0%Z.
Definition port_det_size (v : variant) (N : Z) (circle : bool) : Z :=
  if circle && v_circle_pad v then diagonal N else N.
Definition port_pad_before (v : variant) (N : Z) (circle : bool) : Z :=
  if circle && v_circle_pad v then (diagonal N / 2 - N / 2)%Z else 0%Z.

(* np.pad(..., constant 0) / F.pad of one sinogram column of length N *)
Definition pad_col (pb N : Z) (col : Z -> Q) : Z -> Q :=
  fun j => if ((pb <=? j) && (j <? pb + N))%Z then col (j - pb)%Z else 0.

(* default angles (theta=None): skimage linspace(0, 180, A, endpoint=False); port as written
   torch.linspace(0, 180, steps=A); repaired linspace(0, 180, steps=A+1)[:-1] *)
Definition sk_default_theta (A i : Z) : Q := 180 * linspace_coef A false i.
Definition port_default_theta (v : variant) (A i : Z) : Q :=
  180 * (if v_theta_fixed v then linspace_coef (A + 1) true i else linspace_coef A true i).

(* --- np.interp(t, xp, fp, left=0, right=0) with xp = x0, x0+1, ..., x0+S-1 *)
Definition np_interp (x0 S : Z) (fp : Z -> Q) (t : Q) : Q :=
  if Qlt_le_dec t (iz x0) then 0                                   (* t < xp[0]: left *)
  else if Qlt_le_dec (iz (x0 + S - 1)) t then 0                    (* t > xp[-1]: right *)
  else if Qeq_bool t (iz (x0 + S - 1)) then fp (S - 1)%Z           (* t == xp[-1] *)
  else let j := (Qfloor t - x0)%Z in                               (* xp[j] <= t < xp[j+1] *)
       (fp (j + 1)%Z - fp j) / (iz (x0 + j + 1) - iz (x0 + j)) * (t - iz (x0 + j)) + fp j.

(* --- port: t_idx = t + S//2; t0 = floor(t_idx).clamp(0, S-2); t1 = t0+1; w = t_idx - t0;
       (1-w) * f[t0] + w * f[t1]; repaired: times (0 <= t_idx <= S-1) *)
Definition clampZ (lo hi z : Z) : Z := Z.min hi (Z.max lo z).   (* torch.clamp: min(max(x, lo), hi) *)
Definition port_t0 (S : Z) (t : Q) : Z := clampZ 0 (S - 2) (Qfloor (t + iz (S / 2))).
Definition port_interp (v : variant) (S : Z) (fp : Z -> Q) (t : Q) : Q :=
  let tidx := t + iz (S / 2) in
  let t0 := port_t0 S t in
  let w := tidx - iz t0 in
  let proj := (1 - w) * fp t0 + w * fp (t0 + 1)%Z in
  if v_interp_mask v then
    (if Qle_bool 0 tidx && Qle_bool tidx (iz (S - 1)) then proj else 0)
  else proj.

(* detector coordinate of reconstruction pixel (row, col):
   skimage  xpr, ypr = mgrid[:out, :out] - radius;  t = ypr cos - xpr sin   (xpr rows, ypr cols)
   port     y, x = meshgrid(arange(out) - radius, ..., "ij"); t = x cos - y sin  (y rows, x cols) *)
Definition sk_t (out : Z) (c s : Q) (row col : Z) : Q :=
  let radius := (out / 2)%Z in iz (col - radius) * c - iz (row - radius) * s.
Definition port_t (out : Z) (c s : Q) (row col : Z) : Q :=
  let radius := (out / 2)%Z in
  let x := (col - radius)%Z in let y := (row - radius)%Z in iz x * c - iz y * s.
Definition outside_circle (out row col : Z) : bool :=
  let radius := (out / 2)%Z in ((radius ^ 2 <? (row - radius) ^ 2 + (col - radius) ^ 2))%Z.

Section IRADON.
  (* hker P d : the real inverse DFT of the size-P Fourier filter at lag d in [0, P): filtering
     real(ifft(fft(x) * H)) is the circular convolution with this kernel (convolution theorem,
     an oracle contract on the FFT library).  pi : the constant. *)
  Variable hker : Z -> Z -> Q.
  Variable pi : Q.

  (* filtered[j] for j < S, the input being zero-padded from length S to P *)
  Definition circ_filter (P S : Z) (col : Z -> Q) (j : Z) : Q :=
    sumQ (fun m => hker P ((j - m) mod P)%Z * col m) (zrange S).

  (* sino i j : projection i (angle (c_i, s_i) = ang i), detector pixel j, A x N *)
  Definition sk_iradon (A N : Z) (circle : bool) (ang : Z -> Q * Q) (sino : Z -> Z -> Q)
    (row col : Z) : Q :=
    let out := output_size N circle in
    let S := sk_det_size N circle in
    let pb := sk_pad_before N circle in
    let P := padded_size S in
    let acc := sumQ (fun i => np_interp (- (S / 2)) S (circ_filter P S (pad_col pb N (sino i)))
                                        (sk_t out (fst (ang i)) (snd (ang i)) row col)) (zrange A) in
    (if circle && outside_circle out row col then 0 else acc) * pi / (2 * iz A).

  Definition port_iradon (v : variant) (A N : Z) (circle : bool) (ang : Z -> Q * Q)
    (sino : Z -> Z -> Q) (row col : Z) : Q :=
    let out := output_size N circle in
    let S := port_det_size v N circle in
    let pb := port_pad_before v N circle in
    let P := padded_size S in
    let acc := sumQ (fun i => port_interp v S (circ_filter P S (pad_col pb N (sino i)))
                                          (port_t out (fst (ang i)) (snd (ang i)) row col)) (zrange A) in
    (if circle && outside_circle out row col then 0 else acc) * (pi / (2 * iz A)).

  (* batched call [B, A, N] -> [B, out, out] *)
  Definition port_iradon_image (v : variant) (A N : Z) (circle : bool) (ang : Z -> Q * Q)
    (sino : Z -> Z -> Q) : list (list Q) :=
    let out := output_size N circle in
    map (fun row => map (port_iradon v A N circle ang sino row) (zrange out)) (zrange out).
  Definition sk_iradon_image (A N : Z) (circle : bool) (ang : Z -> Q * Q) (sino : Z -> Z -> Q)
    : list (list Q) :=
    let out := output_size N circle in
    map (fun row => map (sk_iradon A N circle ang sino row) (zrange out)) (zrange out).
  Definition port_iradon_batched (v : variant) (A N : Z) (circle : bool) (ang : Z -> Q * Q)
    (sinos : list (Z -> Z -> Q)) : result (list (list Q)) :=
    squeeze0 (map (port_iradon_image v A N circle ang) sinos).
End IRADON.

Definition lin_sino (a : Q) (f : Z -> Z -> Q) (b : Q) (g : Z -> Z -> Q) : Z -> Z -> Q :=
  fun i j => a * f i j + b * g i j.

(* the identity filter kernel (filter_name=None: H = 1) *)
Definition delta_ker : Z -> Z -> Q := fun _ d => if (d =? 0)%Z then 1 else 0.

(* ---------------------------------------------------------------- harness glue (execution) *)
Definition img_of_rows (rows : list (list Q)) : image :=
  fun r k => if ((r <? 0) || (k <? 0))%Z then 0 else nth (Z.to_nat k) (nth (Z.to_nat r) rows []) 0.
Definition fun_of_list (l : list Q) : Z -> Q :=
  fun j => if (j <? 0)%Z then 0 else nth (Z.to_nat j) l 0.
Definition sino_of_rows (rows : list (list Q)) : Z -> Z -> Q :=
  fun i j => if (i <? 0)%Z then 0 else fun_of_list (nth (Z.to_nat i) rows []) j.
Definition ang_of_list (l : list (Q * Q)) : Z -> Q * Q :=
  fun i => if (i <? 0)%Z then (0, 0) else nth (Z.to_nat i) l (0, 0).
(* exact value -> fixed point with 40 fractional bits (printing) *)
Definition qz (q : Q) : Z := Qfloor (q * iz (2 ^ 40)).
Definition qzp (p : Q * Q) : Z * Z := (qz (fst p), qz (snd p)).
Definition fname_of (i : Z) : fname :=
  match i with 0 => Ramp | 1 => SheppLogan | 2 => Cosine | 3 => Hamming | 4 => Hann | _ => NoFilter end%Z.
