(* C03 — fixed meanings of the Python constructs that harness/translate_C03.py emits when it
   translates the bookkeeping of quantem/core/datastructures/dataset.py and
   quantem/core/utils/validators.py (definitions only; the generated file build/C03/Gen_C03.v
   is written in terms of these and of the executable definitions of C03_Model.v).

   Partial Python operations whose guard is NOT visible next to them in the source return `res`
   (`x[-1]`, `x[0]`, `min(generator)` raise on an empty sequence).  Operations the translator
   accepts only under their syntactic guard (`t.index(x)` inside `if x in t`, `idx.step` inside
   `isinstance(idx, slice) and idx.step not in (None, ...)`) are total here. *)
From Coq Require Import QArith String.
From QV.lib Require Import Prelude C03_Slice.
From QV.model Require Import C03_Model.
From Coq Require Import List.
Import ListNotations.
Local Close Scope Q_scope.
Local Open Scope list_scope.

(* ------------------------------------------------------------------ sequences *)
Definition nonempty {A : Type} (l : list A) : bool := match l with [] => false | _ => true end.

(* x[-1], x[0] on a list of ints: IndexError when empty *)
Definition py_last (l : list nat) : res nat := match l with [] => Err IndexErr | _ => Ok (last l 0) end.
Definition py_first (l : list nat) : res nat := match l with [] => Err IndexErr | x :: _ => Ok x end.
(* min(generator): ValueError when empty *)
Definition py_min (l : list nat) : res nat :=
  match l with [] => Err ValueErr | x :: r => Ok (fold_left Nat.min r x) end.
(* sum(cond(i) for i in l) *)
Definition py_count (p : nat -> bool) (l : list nat) : nat := length (filter p l).
(* np.asarray(a)[list of axes]; `d` stands for an entry that does not exist (IndexError in NumPy) *)
Definition py_getq (d : Q) (l : list Q) (ks : list nat) : list Q := map (fun i => nth i l d) ks.

(* ------------------------------------------------------------------ slice objects *)
Definition slice_step (x : index) : option Z := match x with ISlice _ _ c => c | _ => None end.
Definition oz_eqb (a b : option Z) : bool :=
  match a, b with
  | None, None => true
  | Some x, Some y => (x =? y)%Z
  | _, _ => false
  end.
Definition oz_in (a : option Z) (l : list (option Z)) : bool := existsb (oz_eqb a) l.
(* the step as a number (only used where `step not in (None, ...)` holds) *)
Definition oz_val (a : option Z) : Z := match a with Some c => c | None => 1%Z end.

(* ------------------------------------------------------------------ Dataset._registry *)
(* a dict filled by the register_dimension decorators: the last registration of a key wins;
   KeyError -> the default *)
Definition reg_lookup (r : list (nat * tag)) (k : nat) (d : tag) : tag :=
  fold_left (fun acc p => if fst p =? k then snd p else acc) r d.

(* ------------------------------------------------------------------ assignment tails *)
(* the statements with which pad / crop / bin / fourier_resample store their results: either
   directly into the private attributes of self (in place) or through the property setters of
   a copy *)
Inductive attr := AArray | ASampling | AOrigin.
Inductive val :=
| VArr (sh : list nat) (fl : list Z)      (* a freshly computed ndarray *)
| VNum (l : list Q)                       (* a freshly computed calibration array *)
| VCrop (sl : list index).                (* <target>.array[tuple(slices)]: a view of the target's array *)
Inductive eff :=
| ECopySelf                               (* x = self.copy(); later statements assign to x *)
| ERaw (a : attr) (slot : nat)            (* target._a = value  (no validation) *)
| ESet (a : attr) (slot : nat).           (* target.a = value   (property setter) *)

Definition store_array (raw : bool) (s : state) (tgt aid : nat) : res state :=
  if raw then Ok (assign_array s tgt aid) else set_array s tgt aid.

Definition run_eff (self : nat) (vals : list val) (st : state * nat) (e : eff) : res (state * nat) :=
  let (s, tgt) := st in
  let put (raw : bool) (a : attr) (k : nat) : res (state * nat) :=
    match a, nth_error vals k with
    | AArray, Some (VArr sh fl) =>
      let (s1, aid) := alloc_fresh s sh fl in
      do s2 <- store_array raw s1 tgt aid; Ok (s2, tgt)
    | AArray, Some (VCrop sl) =>
      let d := get_ds s tgt in
      let a0 := get_arr s (d_arr d) in
      do v <- np_index (a_shape a0) (a_flat a0) sl;
      let (s1, aid) := alloc_view s (d_arr d) (np_shape v) (np_flat v) in
      do s2 <- store_array raw s1 tgt aid; Ok (s2, tgt)
    | ASampling, Some (VNum l) =>
      if raw then Ok (assign_sampling s tgt l, tgt)
      else do s1 <- set_sampling s tgt (NList l); Ok (s1, tgt)
    | AOrigin, Some (VNum l) =>
      if raw then Ok (assign_origin s tgt l, tgt)
      else do s1 <- set_origin s tgt (NList l); Ok (s1, tgt)
    | _, _ => Err OtherErr
    end in
  match e with
  | ECopySelf => do s1 <- copy_ds s self; Ok (s1, length (dss s))
  | ERaw a k => put true a k
  | ESet a k => put false a k
  end.

Fixpoint run_effs (self : nat) (vals : list val) (st : state * nat) (es : list eff) : res (state * nat) :=
  match es with
  | [] => Ok st
  | e :: r => do st1 <- run_eff self vals st e; run_effs self vals st1 r
  end.

Definition run_tail (self : nat) (vals : list val) (s : state) (es : list eff) : res state :=
  do st <- run_effs self vals (s, self) es; Ok (fst st).
