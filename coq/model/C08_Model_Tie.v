(* C08 — the EFFECT PROGRAM of `AutoSerialize.save` as the translator (harness/c08_tie.py) extracts it from the
   source, and its meaning (definitions only; proofs in proof/C08_Proofs_Tie.v, the tie itself in
   gen_proofs/C08_GenProofs.v against the generated build/C08/Gen_C08.v).

   The translator turns the statements of `save` after the argument prelude into a list of tokens `tok`:
   primitives in source order, with the `if store == ...` blocks and the `with` blocks as brackets, every
   path-valued argument as a SYMBOLIC value `sym` (which variable version reaches the site).
   `interp toks st` evaluates the brackets for one store: the list of segments `seg` that run, each with the
   clean-up scopes (`with` blocks) it is inside of.  `expand` turns segments into effects of the model
   (one segment = one effect, or one effect per item write / archive member / directory of the chain).
   `save_skeleton st` is the FIXED list of segments the theorems of props/C08_Properties.v are about:
   proof/C08_Proofs_Tie.v proves  expand (save_skeleton st) = annot (tree_prog st ...) []  for all arguments,
   where `annot` pairs every effect of a program with the handler stack `run_prefix` has when it reaches it. *)
From QV.lib Require Import Prelude.
From QV.model Require Import C08_Model C08_Model_Tree.

Inductive sym :=
| YRaw                 (* str(path): the name as given *)
| YTarget              (* the name after the suffix rule (store resolved): the target *)
| YParentOf (s : sym)  (* os.path.dirname(os.path.abspath(s)) *)
| YTmp                 (* the directory TemporaryDirectory hands out *)
| YStore               (* os.path.join(tmpdir, "store") *)
| YZipFile             (* os.path.join(tmpdir, "store.zip") *)
| YIfZip (a b : sym).  (* a if store == "zip" else b: a variable re-assigned inside the zip block *)

Inductive cnd := CZip | CDir.

Inductive prim :=
| PCheckExists (s : sym)        (* if os.path.exists(s) and mode != "o": raise FileExistsError *)
| PValidate                     (* if ...: raise ValueError  (no effect on disk) *)
| PMakeDirs (s : sym)           (* os.makedirs(s, exist_ok=True) *)
| PGroup (s : sym)              (* root = zarr.group(store=LocalStore(s), overwrite=True) *)
| PRecursiveSave (s : sym)      (* self._recursive_save(self, root, ...), root living at s *)
| PSkipMeta (s : sym)           (* write_skip_metadata(root) *)
| PZipWalk (src z : sym)        (* for ... in os.walk(src): ... zf.write(...)   with zf the archive at z *)
| PRemoveOld (s : sym)          (* if os.path.isdir(s): shutil.rmtree(s) elif os.path.exists(s): os.remove(s) *)
| PReplace (a b : sym).         (* os.replace(a, b) *)

Inductive tok :=
| TPrim (p : prim)
| TIf (c : cnd) | TEndIf
| TWithTemp (dir : sym) | TEndWithTemp          (* with tempfile.TemporaryDirectory(dir=dir) as tmpdir: *)
| TWithZip (z : sym) | TEndWithZip (z : sym).   (* with ZipFile(z, mode="w") as zf: *)

(* resolved locations / clean-up scopes *)
Inductive aloc := ATarget | ARaw | AStore | AZip.
Inductive hscope := HTemp | HZip (z : aloc).

Inductive seg :=
| GCheck (a : aloc) | GMkParents | GMkTemp | GWrites (part : nat) (d : aloc)
| GZipOpen (z : aloc) | GZipAdds (z : aloc) | GZipClose (z : aloc)
| GRemove (a : aloc) | GRename (s d : aloc).

Definition is_zip (st : store) : bool := match st with SZip => true | SDir => false end.

Fixpoint resolve_sym (st : store) (s : sym) : option aloc :=
  match s with
  | YRaw => Some ARaw
  | YTarget => Some ATarget
  | YStore => Some AStore
  | YZipFile => Some AZip
  | YIfZip a b => if is_zip st then resolve_sym st a else resolve_sym st b
  | _ => None
  end.

Definition is_parent_of_target (s : sym) : bool :=
  match s with YParentOf YTarget => true | _ => false end.

Definition holds (st : store) (c : cnd) : bool :=
  match c with CZip => is_zip st | CDir => negb (is_zip st) end.

Definition aloc_eqb (a b : aloc) : bool :=
  match a, b with ATarget, ATarget | ARaw, ARaw | AStore, AStore | AZip, AZip => true | _, _ => false end.

Definition prim_segs (st : store) (p : prim) : option (list seg) :=
  match p with
  | PCheckExists s => option_map (fun a => [GCheck a]) (resolve_sym st s)
  | PValidate => Some []
  | PMakeDirs s => if is_parent_of_target s then Some [GMkParents] else None
  | PGroup s => option_map (fun a => [GWrites 0 a]) (resolve_sym st s)
  | PRecursiveSave s => option_map (fun a => [GWrites 1 a]) (resolve_sym st s)
  | PSkipMeta s => option_map (fun a => [GWrites 2 a]) (resolve_sym st s)
  | PZipWalk src z =>
      match resolve_sym st src, resolve_sym st z with
      | Some AStore, Some a => Some [GZipAdds a]
      | _, _ => None
      end
  | PRemoveOld s => option_map (fun a => [GRemove a]) (resolve_sym st s)
  | PReplace a b =>
      match resolve_sym st a, resolve_sym st b with
      | Some x, Some y => Some [GRename x y]
      | _, _ => None
      end
  end.

(* skip = 0: executing; skip = S d: inside a block whose condition is false for this store, d blocks deep *)
Fixpoint interp (toks : list tok) (st : store) (skip : nat) (hs : list hscope) : option (list (seg * list hscope)) :=
  match toks with
  | [] => match skip with O => Some [] | S _ => None end
  | t :: r =>
      match skip with
      | S d =>
          match t with
          | TIf _ => interp r st (S (S d)) hs
          | TEndIf => interp r st d hs
          | _ => interp r st skip hs
          end
      | O =>
          match t with
          | TIf c => if holds st c then interp r st 0 hs else interp r st 1 hs
          | TEndIf => interp r st 0 hs
          | TPrim p =>
              match prim_segs st p, interp r st 0 hs with
              | Some l, Some rest => Some (map (fun g => (g, hs)) l ++ rest)
              | _, _ => None
              end
          | TWithTemp d =>
              if is_parent_of_target d then
                match interp r st 0 (HTemp :: hs) with
                | Some rest => Some ((GMkTemp, hs) :: rest)
                | None => None
                end
              else None
          | TEndWithTemp => match hs with HTemp :: hs' => interp r st 0 hs' | _ => None end
          | TWithZip z =>
              match resolve_sym st z with
              | Some a => match interp r st 0 (HZip a :: hs) with
                          | Some rest => Some ((GZipOpen a, hs) :: rest)
                          | None => None
                          end
              | None => None
              end
          | TEndWithZip z =>
              match resolve_sym st z, hs with
              | Some a, HZip b :: hs' =>
                  if aloc_eqb a b then
                    match interp r st 0 hs' with
                    | Some rest => Some ((GZipClose a, hs) :: rest)
                    | None => None
                    end
                  else None
              | _, _ => None
              end
          end
      end
  end.

(* ---------------------------------------------------------------- meaning of segments *)
Section Expand.
  Variables (m : mode) (p praw : path) (anc : list path) (ts tz : path) (wg wr wk zs : list item).

  Definition L (a : aloc) : path :=
    match a with ATarget => p | ARaw => praw | AStore => ts | AZip => tz end.
  Definition H (h : hscope) : handler :=
    match h with HTemp => HRmTemp ts tz | HZip z => HZipClose (L z) end.
  Definition part_items (i : nat) : list item :=
    match i with 0 => wg | 1 => wr | _ => wk end.

  Definition seg_effects (g : seg) : list effect :=
    match g with
    | GCheck a => [CheckTarget m (L a)]
    | GMkParents => mk_parents anc
    | GMkTemp => [MkTemp ts tz]
    | GWrites i d => map (WriteItem (L d)) (part_items i)
    | GZipOpen z => [ZipOpen (L z)]
    | GZipAdds z => map (ZipAdd (L z)) zs
    | GZipClose z => [ZipClose (L z)]
    | GRemove a => [RemoveTarget (L a)]
    | GRename s d => [Rename (L s) (L d)]
    end.

  Fixpoint expand (l : list (seg * list hscope)) : list (effect * list handler) :=
    match l with
    | [] => []
    | (g, hs) :: r => map (fun e => (e, map H hs)) (seg_effects g) ++ expand r
    end.
End Expand.

(* every effect of a program with the handler stack run_prefix has when it reaches it *)
Fixpoint annot (prog : list effect) (hs : list handler) : list (effect * list handler) :=
  match prog with
  | [] => []
  | e :: r => (e, hs) :: annot r (handlers_after e hs)
  end.

(* run of an annotated program: the stack in force comes from the annotation (the `with` nesting of the
   source), not from handlers_after; hs0 = the stack for an empty program *)
Fixpoint run_annot_prefix (k : nat) (l : list (effect * list handler)) (hs0 : list handler) (fs : fsys) : res :=
  match l with
  | [] => Continue k hs0 fs
  | (e, hs) :: rest =>
      match k with
      | O => Stopped (unwind (fault_handlers e hs) fs) Faulted
      | S k' =>
          match step e fs with
          | inl err => Stopped (unwind hs fs) err
          | inr fs1 => run_annot_prefix k' rest (handlers_after e hs) fs1
          end
      end
  end.

Definition run_annot (k : nat) (l : list (effect * list handler)) (fs : fsys) : fsys * outcome :=
  match run_annot_prefix k l [] fs with
  | Stopped fs' o => (fs', o)
  | Continue _ hs fs' => (unwind hs fs', Done)
  end.

(* ---------------------------------------------------------------- the skeleton the theorems are about *)
Definition save_skeleton (st : store) : list (seg * list hscope) :=
  (GCheck ATarget, []) ::
  (if is_zip st then [] else [(GMkParents, [])]) ++
  [(GMkTemp, []); (GWrites 0 AStore, [HTemp]); (GWrites 1 AStore, [HTemp]); (GWrites 2 AStore, [HTemp])] ++
  (if is_zip st then [(GZipOpen AZip, [HTemp]); (GZipAdds AZip, [HZip AZip; HTemp]); (GZipClose AZip, [HZip AZip; HTemp])]
   else []) ++
  [(GRemove ATarget, [HTemp]); (GRename (if is_zip st then AZip else AStore) ATarget, [HTemp])].

(* the token list of the source as it is today (documentation and non-vacuity; the tie uses the GENERATED one) *)
Definition save_toks_reference : list tok :=
  [TPrim (PCheckExists YTarget); TPrim PValidate; TPrim PValidate;
   TIf CDir; TPrim (PMakeDirs (YParentOf YTarget)); TEndIf;
   TWithTemp (YParentOf YTarget);
     TPrim (PGroup YStore); TPrim (PRecursiveSave YStore); TPrim (PSkipMeta YStore);
     TIf CZip;
       TWithZip YZipFile; TPrim (PZipWalk YStore YZipFile); TEndWithZip YZipFile;
     TEndIf;
     TPrim (PRemoveOld YTarget); TPrim (PReplace (YIfZip YZipFile YStore) YTarget);
   TEndWithTemp].
