(* C19 — configuration store, second part of the executable model (round 3).  Definitions only.
     get with default / override_with (the error enum of dotted keys into non-dicts is the one of
       C19_Model.get_path: TypeErr below a scalar, KeyErr for a missing name);
     check_key_val with the `deprecations` and `aliases` tables as parameters (both are empty
       in quantem.core.config today), set / update run with these tables;
     collect (the environment mapping is an input and is ignored by the code today: the
       collect_env call is commented out) and collect_env itself (dead code, modelled as it is);
     the store right after `import quantem.core.config` as a function of the probe defaults
       (has_torch / has_cupy) and the parsed quantem.yaml;
     statement trees: with-blocks nested to any depth, a context manager object entered twice;
     a boolean decision procedure for `good`. *)
From QV.lib Require Import Prelude.
From QV.model Require Import C19_Model.
From Coq Require Import String Ascii.

(* ---------------------------------------------------------------- get(key, default, override_with) *)
(* `override_with is not None` -> handed straight back; otherwise the walk of get; a
   KeyError / TypeError (/ IndexError) is replaced by `default` unless default is no_default *)
Definition is_none (c : cfg) : bool := match c with Leaf JNone => true | _ => false end.

Definition get_full (key : string) (default : option cfg) (override : option cfg) (d : items) : err + cfg :=
  match override with
  | Some o => if is_none o then
                match C19_Model.get key d with
                | inr c => inr c
                | inl e => match default with Some x => inr x | None => inl e end
                end
              else inr o
  | None =>
      match C19_Model.get key d with
      | inr c => inr c
      | inl e => match default with Some x => inr x | None => inl e end
      end
  end.

(* ---------------------------------------------------------------- the tables of check_key_val *)
Fixpoint alookup {A : Type} (k : string) (l : list (string * A)) : option A :=
  match l with
  | [] => None
  | (k', a) :: r => if String.eqb k k' then Some a else alookup k r
  end.

(* dict lookup with a scalar key: hash + == (True == 1) *)
Fixpoint vlookup (x : jval) (l : list (jval * jval)) : option jval :=
  match l with
  | [] => None
  | (y, c) :: r => if py_eqb x y then Some c else vlookup x r
  end.

Section Tables.
  Variable validate : cfg -> err + string.
  (* deprecations: key -> Some new (renamed: a warning) | None (removed: ValueError) *)
  Variable depr : list (string * option string).
  (* aliases: key -> {value: replacement} *)
  Variable alias : list (string * list (jval * jval)).

  (* `if key in deprecations: new = deprecations[key]; if new: warn else: raise ValueError` *)
  Definition depr_check (key : string) : option err :=
    match alookup key depr with
    | None => None
    | Some None => Some ValueErr
    | Some (Some s) => if String.eqb s EmptyString then Some ValueErr else None   (* only a warning: the key is NOT renamed *)
    end.

  (* `if key in aliases: if val in aliases[key]: new_val = aliases[key][val]` (a mapping value is unhashable) *)
  Definition alias_val (key : string) (v : cfg) : err + cfg :=
    match alookup key alias with
    | None => inr v
    | Some tbl =>
        match v with
        | Node _ => inl TypeErr
        | Leaf x => match vlookup x tbl with Some r => inr (Leaf r) | None => inr v end
        end
    end.

  Definition check_key_val_t (key : string) (v : cfg) : err + cfg :=
    match depr_check key with
    | Some e => inl e
    | None => match alias_val key v with
              | inl e => inl e
              | inr v1 => check_key_val validate key v1
              end
    end.

  (* the part of check_key_val that runs before the device check, as a translation of the
     arguments: the items up to the first one the tables reject, values replaced by aliases *)
  Fixpoint xl_items (l : items) : items * option err :=
    match l with
    | [] => ([], None)
    | (k, v) :: r =>
        match depr_check k with
        | Some e => ([], Some e)
        | None => match alias_val k v with
                  | inl e => ([], Some e)
                  | inr v1 => let (r', e) := xl_items r in ((k, v1) :: r', e)
                  end
        end
    end.

  (* the same for update, which consults check_key_val at every level: the tree cut at the first
     rejected entry, in the order update visits the entries.  (An alias replaces a scalar by a
     scalar; a mapping value under a key that has an alias table is unhashable: TypeError.) *)
  Fixpoint xl_cfg (c : cfg) : cfg * option err :=
    match c with
    | Leaf x => (Leaf x, None)
    | Node l =>
        let (l', e) :=
          (fix go (l : items) : items * option err :=
             match l with
             | [] => ([], None)
             | (k, v) :: r =>
                 match depr_check k with
                 | Some e => ([], Some e)
                 | None =>
                     match v with
                     | Leaf x =>
                         match alias_val k (Leaf x) with
                         | inl e => ([], Some e)
                         | inr v1 => let (r', e) := go r in ((k, v1) :: r', e)
                         end
                     | Node _ =>
                         match alookup k alias with
                         | Some _ => ([], Some TypeErr)
                         | None =>
                             if String.eqb k "device" then      (* consumed by the device check, not merged *)
                               let (r', e) := go r in ((k, v) :: r', e)
                             else
                               match xl_cfg v with
                               | (v2, Some e) => ([(k, v2)], Some e)
                               | (v2, None) => let (r', e) := go r in ((k, v2) :: r', e)
                               end
                         end
                     end
                 end
             end) l in
        (Node l', e)
    end.

  Definition set_items_t (l : items) (d : items) (recs : list crec) : items * list crec * option err :=
    let (l', e) := xl_items l in
    match set_items validate l' d recs with
    | (d', r, None) => (d', r, e)
    | x => x
    end.

  Definition set_call_t (arg : option cfg) (kw : items) (d : items) : items * list crec * option err :=
    match arg with
    | Some (Leaf _) => (d, [], Some TypeErr)
    | Some (Node l) =>
        match set_items_t l d [] with
        | (d', recs, Some e) => (d', recs, Some e)
        | (d', recs, None) => set_items_t (kw_items kw) d' recs
        end
    | None => set_items_t (kw_items kw) d []
    end.

  Definition update_items_t (prio : priority) (new old : items) (dv : dview) : items * option err :=
    let (new', e) := xl_cfg (Node new) in
    match update_cfg validate prio new' old dv with
    | (old', None) => (old', e)
    | x => x
    end.
End Tables.

(* ---------------------------------------------------------------- collect / collect_env / refresh *)
Section Collect.
  Variable validate : cfg -> err + string.

  (* collect(path, env): `configs = [*collect_yaml(path)]` — the collect_env(env) entry is
     commented out in the code, so the environment mapping is an input that is not read *)
  Definition collect (yaml : list items) (env : items) : items * option err := merge validate yaml.

  (* refresh with the environment made explicit *)
  Definition refresh_e (yaml : list items) (env : items) (s : store) : store * option err :=
    match merge_from validate [] (dflts s) with
    | (c1, Some e) => ({| conf := c1; dflts := dflts s |}, Some e)
    | (c1, None) =>
        match collect yaml env with
        | (_, Some e) => ({| conf := c1; dflts := dflts s |}, Some e)
        | (cy, None) =>
            let (c2, e) := update_items validate PNew cy c1 None in
            ({| conf := c2; dflts := dflts s |}, e)
        end
    end.

  (* collect_env(env) as written (not called by refresh): names starting with "QUANTEM_",
     varname = name[5:].lower().replace("__", ".") — five characters are dropped, not eight —
     values already interpreted (ast.literal_eval is outside the model); then set(d, config={}) *)
  Fixpoint drop (n : nat) (s : string) : string :=
    match n, s with
    | O, _ => s
    | S n', String _ r => drop n' r
    | S _, EmptyString => EmptyString
    end.

  Definition env_name (name : string) : option string :=
    if is_prefix "QUANTEM_" name then Some (dunder (lower (drop 5 name))) else None.

  Definition env_dict (env : items) : items :=
    fold_left (fun acc nv => match env_name (fst nv) with
                             | Some k => assign k (snd nv) acc
                             | None => acc
                             end) env [].

  Definition collect_env (env : items) : items * option err :=
    match set_call validate (Some (Node (env_dict env))) [] [] with
    | (c, _, e) => (c, e)
    end.

  (* the module body: defaults = [probe]; refresh(); _initialize() = update_defaults(yaml) *)
  Definition import_store (probe yaml : items) : store * option err :=
    match refresh validate [] {| conf := []; dflts := [probe] |} with
    | (s1, Some e) => (s1, Some e)
    | (s1, None) => update_defaults validate yaml s1
    end.

  (* ------------------------------------------------------------ statement trees *)
  Inductive stmt :=
  | Plain (o : sop)
  | Block (x : bool) (arg : option cfg) (kw : items) (body : list stmt)
      (* with set(arg, **kw): body — x = true: the first exception of the body leaves the block
         (through __exit__); x = false: every body statement in its own try/except *)
  | Reuse (arg : option cfg) (kw : items) (b1 b2 : list stmt).
      (* cm = set(arg, **kw); with cm: b1; with cm: b2  (statements in their own try/except) *)

  Definition mk (c : items) (ds : list items) : store := {| conf := c; dflts := ds |}.

  (* the state and outcome after the statement, and the log of (state, outcome) after every
     step: enter, body statements (recursively), exit *)
  Fixpoint exec (t : stmt) (s : store) : (store * option err) * list (store * option err) :=
    let body_run := fix go (x : bool) (b : list stmt) (s : store) : (store * option err) * list (store * option err) :=
      match b with
      | [] => ((s, None), [])
      | t' :: r =>
          match exec t' s with
          | ((s', Some e), lg) => if x then ((s', Some e), lg)
                                  else let (res, lg') := go x r s' in (res, lg ++ lg')
          | ((s', None), lg) => let (res, lg') := go x r s' in (res, lg ++ lg')
          end
      end in
    match t with
    | Plain o => let r := step_s validate o s in (r, [r])
    | Block x arg kw body =>
        match set_call validate arg kw (conf s) with
        | (c1, _, Some e) => let r := (mk c1 (dflts s), Some e) in (r, [r])
        | (c1, recs, None) =>
            let s1 := mk c1 (dflts s) in
            match body_run x body s1 with
            | ((s2, eb), lg) =>
                let (c3, ee) := exit_call recs (conf s2) in
                let r := (mk c3 (dflts s2), match ee with Some e => Some e | None => eb end) in
                (r, (s1, None) :: lg ++ [r])
            end
        end
    | Reuse arg kw b1 b2 =>
        match set_call validate arg kw (conf s) with
        | (c1, _, Some e) => let r := (mk c1 (dflts s), Some e) in (r, [r])
        | (c1, recs, None) =>
            let s1 := mk c1 (dflts s) in
            match body_run false b1 s1 with
            | ((s2, _), lg1) =>
                match exit_call recs (conf s2) with
                | (c3, Some e) => let r := (mk c3 (dflts s2), Some e) in (r, (s1, None) :: lg1 ++ [r])
                | (c3, None) =>
                    let s3 := mk c3 (dflts s2) in
                    match body_run false b2 s3 with
                    | ((s4, _), lg2) =>
                        let (c5, ee) := exit_call recs (conf s4) in
                        let r := (mk c5 (dflts s4), ee) in
                        (r, (s1, None) :: lg1 ++ [(s3, None)] ++ (s3, None) :: lg2 ++ [r])
                    end
                end
            end
        end
    end.

  Fixpoint exec_all (ts : list stmt) (s : store) : list (list (store * option err)) :=
    match ts with
    | [] => []
    | t :: r => let (res, lg) := exec t s in lg :: exec_all r (fst res)
    end.
End Collect.

(* ---------------------------------------------------------------- deciding `good` *)
Fixpoint nodupb (l : list string) : bool :=
  match l with
  | [] => true
  | a :: r => negb (existsb (String.eqb a) r) && nodupb r
  end.

Fixpoint goodb (c : cfg) : bool :=
  match c with
  | Leaf _ => true
  | Node l =>
      forallb (fun kv => pure (fst kv)) l && nodupb (map (fun kv => norm (fst kv)) l) &&
      (fix all (l : items) : bool :=
         match l with [] => true | kv :: r => goodb (snd kv) && all r end) l
  end.
