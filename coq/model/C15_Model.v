(* C15 — Drift-correction geometry.  Exact rational (Q) model of
     quantem.imaging.drift.DriftCorrection.preprocess      (scan vectors, canvas shape, initial knots)
     quantem.imaging.drift.DriftInterpolator.transform_rows / transform_coordinates / warp_image
     quantem.core.utils.imaging_utils.bilinear_kde          (bilinear splat with wrap, i.e. the
                                                             weight map handed to gaussian_filter)
     quantem.imaging.drift.DriftCorrection.align_translation (the knot update from measured shifts)
   The scan direction enters only through the pair (s, c) = (sin(-theta), cos(-theta)) that
   numpy computed; no trigonometric fact is used anywhere.
   transform_rows with ONE knot is modelled as REPAIRED by fixes/C15-one-knot-rows.diff
   (both coordinates scaled by input_shape[1]-1); `transform_rows_asis` keeps the line as it is
   written in the pinned commit, for the refutation witness.
   Definitions only; proofs are in proof/C15_Proofs.v. *)
From QV.lib Require Import Prelude.
From Coq Require Import QArith Qround.
Local Open Scope Q_scope.

Definition qn (n : nat) : Q := inject_Z (Z.of_nat n).
Definition vec := (Q * Q)%type.                      (* (row coordinate, column coordinate) *)
Definition vadd (a b : vec) : vec := (fst a + fst b, snd a + snd b).

Definition qsum (l : list Q) : Q := fold_right Qplus 0 l.
Definition Qltb (a b : Q) : bool := negb (Qle_bool b a).

(* ------------------------------------------------------------------ numpy.linspace *)
(* np.linspace(start, stop, num)[i], endpoint=True:
     div = num - 1; step = (stop - start) / div; y = arange(num) * step + start;
     if num > 1: y[-1] = stop          (num = 1: y = arange(1) * delta + start = [start]) *)
Definition linspace (start stop : Q) (num i : nat) : Q :=
  match num with
  | O => 0
  | S O => start
  | S (S _ as d) =>
      if Nat.eqb i d then stop
      else qn i * ((stop - start) / qn d) + start
  end.

(* ------------------------------------------------------------------ preprocess *)
(* scan_fast = (sin(-t), cos(-t)), scan_slow = (cos(-t), -sin(-t)) *)
Definition scan_fast (s c : Q) : vec := (s, c).
Definition scan_slow (s c : Q) : vec := (c, - s).

(* Python round / np.round on a rational: half to even *)
Definition round_half_even (q : Q) : Z :=
  let f := Qfloor q in
  match Qcompare (q - inject_Z f) (1 # 2) with
  | Lt => f
  | Gt => (f + 1)%Z
  | Eq => if Z.even f then f else (f + 1)%Z
  end.

(* int(np.round(n * (1 + pad_fraction) / 2) * 2) *)
Definition canvas_dim (n : nat) (pad : Q) : Z :=
  (round_half_even (qn n * (1 + pad) / 2) * 2)%Z.

(* (shape - 1) / 2 for an image extent, -(shape-1)/2 its negation *)
Definition half_extent (n : nat) : Q := (qn n - 1) / 2.

Definition canvas_centre (rows cols : Z) : vec :=
  ((inject_Z rows - 1) / 2, (inject_Z cols - 1) / 2).

(* self.knots[a0][:, r, j] for an H x W image, K knots per scan line, canvas rows x cols *)
Definition init_knot (rows cols : Z) (H W K : nat) (s c : Q) (r j : nat) : vec :=
  ( fst (canvas_centre rows cols)
      + linspace (- half_extent W) (half_extent W) K j * fst (scan_fast s c)
      + linspace (- half_extent H) (half_extent H) H r * fst (scan_slow s c),
    snd (canvas_centre rows cols)
      + linspace (- half_extent W) (half_extent W) K j * snd (scan_fast s c)
      + linspace (- half_extent H) (half_extent H) H r * snd (scan_slow s c) ).

(* ------------------------------------------------------------------ transform_rows *)
(* self.u = np.linspace(0, 1, input_shape[1]);  basis = np.linspace(0, 1, num_knots) *)
Definition u_param (W col : nat) : Q := linspace 0 1 W col.
Definition basis (K j : nat) : Q := linspace 0 1 K j.

(* the interpolating polynomial through (nodes j, vals j), j < K, in Lagrange form: what
   scipy interp1d(kind="quadratic"|"cubic") evaluates when it is given exactly k+1 points
   (one polynomial piece, not-a-knot ends) — oracle contract, exercised on every case *)
Definition lagrange_weight (nodes : nat -> Q) (K j : nat) (x : Q) : Q :=
  fold_right (fun m acc => if Nat.eqb m j then acc
                           else ((x - nodes m) / (nodes j - nodes m)) * acc) 1 (seq 0 K).
Definition lagrange (nodes vals : nat -> Q) (K : nat) (x : Q) : Q :=
  fold_right (fun j acc => vals j * lagrange_weight nodes K j x + acc) 0 (seq 0 K).

(* one coordinate of transform_rows for one scan line; `fcomp` is the matching component of
   scan_fast, `kn j` that coordinate of knot j.
     1 knot : knots_row + u * scan_fast * (input_shape[1] - 1)          (REPAIRED, see header)
     2 knots: interp1d linear: slope * (u - x_lo) + y_lo
     3,4    : interpolating polynomial *)
Definition transform_row_comp (W K : nat) (fcomp : Q) (kn : nat -> Q) (col : nat) : Q :=
  match K with
  | 0%nat => 0
  | 1%nat => kn 0%nat + u_param W col * fcomp * (qn W - 1)
  | 2%nat => ((kn 1%nat - kn 0%nat) / (basis 2 1 - basis 2 0)) * (u_param W col - basis 2 0)
             + kn 0%nat
  | _ => lagrange (basis K) kn K (u_param W col)
  end.

(* knots of one image: row -> knot index -> canvas position *)
Definition knots_t := nat -> nat -> vec.

(* transform_coordinates(knots)[.., r, col]  (1 knot: vectorised call, same formula per row) *)
Definition transform_coordinates (W K : nat) (s c : Q) (kn : knots_t) (r col : nat) : vec :=
  ( transform_row_comp W K (fst (scan_fast s c)) (fun j => fst (kn r j)) col,
    transform_row_comp W K (snd (scan_fast s c)) (fun j => snd (kn r j)) col ).

(* the one-knot branch exactly as written in the pinned commit: the ROW coordinate is scaled
   by input_shape[0]-1 (= H-1), the column coordinate by input_shape[1]-1 *)
Definition transform_coordinates_1knot_asis (H W : nat) (s c : Q) (kn : knots_t) (r col : nat)
  : vec :=
  ( fst (kn r 0%nat) + u_param W col * fst (scan_fast s c) * (qn H - 1),
    snd (kn r 0%nat) + u_param W col * snd (scan_fast s c) * (qn W - 1) ).

(* the statement of the property: canvas centre + rotated offset from the image centre *)
Definition expected_coordinate (rows cols : Z) (H W : nat) (s c : Q) (r col : nat) : vec :=
  ( fst (canvas_centre rows cols)
      + (qn col - half_extent W) * fst (scan_fast s c)
      + (qn r - half_extent H) * fst (scan_slow s c),
    snd (canvas_centre rows cols)
      + (qn col - half_extent W) * snd (scan_fast s c)
      + (qn r - half_extent H) * snd (scan_slow s c) ).

(* ------------------------------------------------------------------ bilinear_kde: the splat *)
(* xF = floor(x); dx = x - xF; four corners with weights (1-dx)(1-dy), dx(1-dy), (1-dx)dy, dx dy
   at np.ravel_multi_index([xF+ox, yF+oy], dims=(rows, cols), mode="wrap") *)
Definition flat_index (rows cols i j : Z) : Z := ((i mod rows) * cols + (j mod cols))%Z.

Definition splat (rows cols : Z) (p : vec) : list (Z * Q) :=
  let xF := Qfloor (fst p) in
  let yF := Qfloor (snd p) in
  let dx := fst p - inject_Z xF in
  let dy := snd p - inject_Z yF in
  [ (flat_index rows cols xF yF,             (1 - dx) * (1 - dy));
    (flat_index rows cols (xF + 1) yF,       dx * (1 - dy));
    (flat_index rows cols xF (yF + 1),       (1 - dx) * dy);
    (flat_index rows cols (xF + 1) (yF + 1), dx * dy) ].

Definition contributions (rows cols : Z) (pts : list vec) : list (Z * Q) :=
  flat_map (splat rows cols) pts.

(* np.bincount(inds_1D, weights)[k] *)
Definition cell_weight (cs : list (Z * Q)) (k : Z) : Q :=
  qsum (map snd (filter (fun iw => Z.eqb (fst iw) k) cs)).

(* pix_count (flattened, length rows*cols) before gaussian_filter *)
Definition weight_map (rows cols : Z) (pts : list vec) : list Q :=
  let cs := contributions rows cols pts in
  map (fun t => cell_weight cs (Z.of_nat t)) (seq 0 (Z.to_nat (rows * cols))).

(* image pixels in ravel (row-major) order *)
Definition pixels (H W : nat) : list (nat * nat) := list_prod (seq 0 H) (seq 0 W).

Definition pixel_coordinates (H W K : nat) (s c : Q) (kn : knots_t) : list vec :=
  map (fun rc => transform_coordinates W K s c kn (fst rc) (snd rc)) (pixels H W).

(* the weight map warp_image produces from `knots`, before the sum-preserving filter *)
Definition warp_weights (rows cols : Z) (H W K : nat) (s c : Q) (kn : knots_t) : list Q :=
  weight_map rows cols (pixel_coordinates H W K s c kn).

(* ------------------------------------------------------------------ align_translation *)
(* dxy[0] = 0; dxy[i] = shift measured by cross_correlation_shift for image i >= 1 (input of
   this model: the estimator itself is property C13) *)
Definition measured (shifts : nat -> vec) (i : nat) : vec :=
  match i with O => (0, 0) | _ => shifts i end.

(* np.mean(dxy, axis=0) over n images *)
Definition mean_shift (n : nat) (dxy : nat -> vec) : vec :=
  ( qsum (map (fun i => fst (dxy i)) (seq 0 n)) / qn n,
    qsum (map (fun i => snd (dxy i)) (seq 0 n)) / qn n ).

(* dxy -= mean;  then, only when min_image_shift is given and only for the LAST image (the
   loop variable `ind` left over from the measuring loop): norm(dxy[ind]) < min -> dxy[ind] = 0 *)
Definition applied_shift (n : nat) (min_image_shift : option Q) (shifts : nat -> vec) (i : nat)
  : vec :=
  let dxy := measured shifts in
  let m := mean_shift n dxy in
  let d := (fst (dxy i) - fst m, snd (dxy i) - snd m) in
  match min_image_shift with
  | Some t =>
      if (Nat.eqb i (n - 1) && Qltb 0 t
          && Qltb (fst d * fst d + snd d * snd d) (t * t))%bool
      then (0, 0) else d
  | None => d
  end.

(* self.knots[i][0] += dxy[i,0]; self.knots[i][1] += dxy[i,1] *)
Definition align_translation_knots (n : nat) (min_image_shift : option Q) (shifts : nat -> vec)
           (kn : nat -> knots_t) (i : nat) : knots_t :=
  fun r j => vadd (kn i r j) (applied_shift n min_image_shift shifts i).

(* ====================================================================================== *)
(* Round-3 extension (additive; nothing above is changed)                                 *)
(* ====================================================================================== *)

Definition vscale (k : Q) (a : vec) : vec := (k * fst a, k * snd a).

(* ------------------------------------------------------------------ straight knot arrays *)
(* ANY knot array whose K knots of scan line r lie on a straight line with uniform spacing:
   knot j of line r sits at A r + (j / (K-1)) * B r  (K = 1: the single knot is A r).
   The initial knots of preprocess are the instance A r = centre - (W-1)/2 fast + v_slow[r] slow,
   B r = (W-1) fast; the knots after align_translation (A r + d) and after the knot update of
   align_affine (A r + (r - (H-1)/2) dxy) are further instances. *)
Definition straight_knots (K : nat) (A B : nat -> vec) : knots_t :=
  fun r j => vadd (A r) (vscale (basis K j) (B r)).

(* the knot update of align_affine (outside the property; modelled because it keeps scan lines
   straight): knots[a0][:, r, :] += dxy * (r - (rows-1)/2) *)
Definition affine_update_knots (H : nat) (dxy : vec) (kn : knots_t) : knots_t :=
  fun r j => vadd (kn r j) (vscale (qn r - half_extent H) dxy).

(* ------------------------------------------------------------------ preprocess, end to end *)
(* the canvas of preprocess for an H x W stack and the weight map of one freshly placed image *)
Definition preprocess_weights (H W K : nat) (pad s c : Q) : list Q :=
  let rows := canvas_dim H pad in
  let cols := canvas_dim W pad in
  warp_weights rows cols H W K s c (init_knot rows cols H W K s c).

(* ------------------------------------------------------------------ warp_image(upsample_factor) *)
(* bilinear_kde(xa * up, ya * up, output_shape = round(output_shape * up)): `urows`, `ucols` are the
   rounded upsampled canvas dimensions *)
Definition warp_weights_up (urows ucols : Z) (up : Q) (H W K : nat) (s c : Q) (kn : knots_t)
  : list Q :=
  weight_map urows ucols (map (vscale up) (pixel_coordinates H W K s c kn)).

(* ------------------------------------------------------------------ bilinear_kde(max_batch_size) *)
(* pix_count[k] accumulated batch by batch: sum over batches of np.bincount(inds_1D, weights)[k] *)
Definition cell_weight_batched (rows cols : Z) (batches : list (list vec)) (k : Z) : Q :=
  qsum (map (fun b => cell_weight (contributions rows cols b) k) batches).

(* (row, column) of a flat canvas index, as np.unravel_index / reshape(output_shape) reads it *)
Definition unravel (cols k : Z) : Z * Z := ((k / cols)%Z, (k mod cols)%Z).

(* ------------------------------------------------------------------ align_translation, more *)
(* the running reference of the measuring loop, per Fourier coefficient (real or imaginary part):
     F_ref = F_ref * ind / (ind + 1) + image_shift / (ind + 1)        for ind = 1, 2, ...
   `ref_fold k ref xs`: ref is the reference before image k (k >= 1), xs the shifted images k, k+1, ... *)
Definition ref_update (ref : Q) (k : nat) (x : Q) : Q :=
  ref * qn k / qn (S k) + x / qn (S k).
Fixpoint ref_fold (k : nat) (ref : Q) (xs : list Q) : Q :=
  match xs with
  | [] => ref
  | x :: xs' => ref_fold (S k) (ref_update ref k x) xs'
  end.
(* reference after the images x0, x1, ..., x_m have been merged *)
Definition ref_after (x0 : Q) (xs : list Q) : Q := ref_fold 1 x0 xs.

(* several passes of align_translation; pass p measures `shifts_of p` *)
Fixpoint align_passes (n : nat) (mis : option Q) (passes : list (nat -> vec)) (kn : nat -> knots_t)
  : nat -> knots_t :=
  match passes with
  | [] => kn
  | sh :: rest => align_passes n mis rest (fun i => align_translation_knots n mis sh kn i)
  end.

(* total displacement applied to image i by one pass *)
Definition displacement (n : nat) (mis : option Q) (shifts : nat -> vec) (i : nat) : vec :=
  applied_shift n mis shifts i.

(* ------------------------------------------------------------------ the Gaussian KDE after the splat *)
(* scipy.ndimage.gaussian_filter(pix_count, kde_sigma) (default mode="reflect") is, along each axis, the
   correlation with a SYMMETRIC kernel (centre weight k0, weights ks = [k1; ...; kR] at distance 1..R on
   both sides; scipy normalises it to k0 + 2 * (k1 + ... + kR) = 1) of the signal extended by
   half-sample reflection (d c b a | a b c d | d c b a), i.e. the 2n-periodic even extension.
   The weights themselves (exp(-t^2 / (2 sigma^2)) / sum) are parameters: nothing below depends on them. *)
Definition reflect_ext (n : nat) (x : nat -> Q) (j : Z) : Q :=
  let p := (2 * Z.of_nat n)%Z in
  let m := (j mod p)%Z in
  if (m <? Z.of_nat n)%Z then x (Z.to_nat m) else x (Z.to_nat (p - 1 - m)).

Fixpoint taps (t : Z) (ks : list Q) (e : Z -> Q) (i : Z) : Q :=
  match ks with
  | [] => 0
  | k :: ks' => k * (e (i + t)%Z + e (i - t)%Z) + taps (t + 1) ks' e i
  end.

Definition sym_filter (k0 : Q) (ks : list Q) (n : nat) (x : nat -> Q) (i : nat) : Q :=
  k0 * reflect_ext n x (Z.of_nat i) + taps 1 ks (reflect_ext n x) (Z.of_nat i).

Definition kernel_mass (k0 : Q) (ks : list Q) : Q := k0 + 2 * qsum ks.

Definition fsum (n : nat) (f : nat -> Q) : Q := qsum (map f (seq 0 n)).

(* a 2-D array as a function of (row, column); filtering along axis 0 and along axis 1 *)
Definition filter_axis0 (k0 : Q) (ks : list Q) (R : nat) (a : nat -> nat -> Q) : nat -> nat -> Q :=
  fun r c => sym_filter k0 ks R (fun r' => a r' c) r.
Definition filter_axis1 (k0 : Q) (ks : list Q) (C : nat) (a : nat -> nat -> Q) : nat -> nat -> Q :=
  fun r c => sym_filter k0 ks C (a r) c.
Definition total2 (R C : nat) (a : nat -> nat -> Q) : Q := fsum R (fun r => fsum C (a r)).

(* gaussian_filter on a 2-D array: axis 0, then axis 1 (kernels may differ) *)
Definition kde2 (k0 : Q) (ks : list Q) (k0' : Q) (ks' : list Q) (R C : nat) (a : nat -> nat -> Q)
  : nat -> nat -> Q :=
  filter_axis1 k0' ks' C (filter_axis0 k0 ks R a).

(* the weight map of bilinear_kde as a 2-D array (pix_count.reshape(output_shape)) *)
Definition weight_map2 (rows cols : Z) (pts : list vec) : nat -> nat -> Q :=
  fun r c => cell_weight (contributions rows cols pts) (Z.of_nat r * cols + Z.of_nat c)%Z.

(* weights_warped as warp_image returns it: splat, then the KDE *)
Definition kde_weights (k0 : Q) (ks : list Q) (rows cols : Z) (pts : list vec) : nat -> nat -> Q :=
  kde2 k0 ks k0 ks (Z.to_nat rows) (Z.to_nat cols) (weight_map2 rows cols pts).
