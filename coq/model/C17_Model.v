(* C17 — reliability-sorted phase unwrapping.  Executable model of
     quantem.core.utils.imaging_utils:
       _wrap_to_pi, _find_wrap, _build_edges (edge set; the ORDER is an input: the theorems hold
       for every order, so the reliability sort is not modelled), UnionFindPhase
       (find_root_and_offset, union), _final_offsets,
       _unwrap_phase_2d_torch_reliability_sorting (offsets -> output, mean subtraction)
   on Q, for an arbitrary half-period P (the code has P = pi).
   Definitions only; proofs are in proof/C17_Proofs.v. *)
From QV.lib Require Import Prelude.
From Coq Require Import QArith Qround.
Local Close Scope Q_scope.

(* ---------------------------------------------------------------- wrapping *)
Definition Qltb (a b : Q) : bool := negb (Qle_bool b a).

(* _wrap_to_pi: (x + P) % (2P) - P  =  x - 2P * floor((x + P) / (2P)) *)
Definition wrapK (P x : Q) : Z := Qfloor ((x + P) / (2 * P))%Q.
Definition wrapP (P x : Q) : Q := (x - 2 * P * inject_Z (wrapK P x))%Q.

(* _find_wrap(a, b): d = a - b; -1 if d > P; +1 if d < -P; else 0 *)
Definition find_wrap (P a b : Q) : Z :=
  let d := (a - b)%Q in
  if Qltb P d then (-1)%Z else if Qltb d (- P)%Q then 1%Z else 0%Z.

(* ---------------------------------------------------------------- edges *)
(* pixel (r, c) of an H x W grid has flat index r * W + c (torch row-major flatten) *)
Definition edge := (nat * nat * Z)%type.

(* _build_edges, before the sort: horizontal edges first, then vertical ones;
   wrap_around=True uses torch.roll(idx, -1, axis) (periodic neighbour), otherwise the last
   column / row has no right / lower neighbour; an edge is kept when both pixels are in the mask *)
Definition grid_pairs (H W : nat) (wrap : bool) (mask : nat -> bool) : list (nat * nat) :=
  let idx := seq 0 (H * W) in
  let hor :=
    if wrap then map (fun i => (i, (i / W) * W + (i mod W + 1) mod W)) idx
    else map (fun i => (i, i + 1)) (filter (fun i => i mod W + 1 <? W) idx) in
  let ver :=
    if wrap then map (fun i => (i, ((i / W + 1) mod H) * W + i mod W)) idx
    else map (fun i => (i, i + W)) (filter (fun i => i / W + 1 <? H) idx) in
  filter (fun e => mask (fst e) && mask (snd e)) (hor ++ ver).

(* inc = _find_wrap(phi[i1], phi[i2]) *)
Definition incs_of (P : Q) (phiw : nat -> Q) (pairs : list (nat * nat)) : list edge :=
  map (fun e => (fst e, snd e, find_wrap P (phiw (fst e)) (phiw (snd e)))) pairs.

(* ---------------------------------------------------------------- union-find with offsets *)
Record uf := mkUF { parent : list nat; rank : list nat; offset : list Z }.

Definition uf_init (n : nat) : uf :=
  {| parent := seq 0 n; rank := repeat 0 n; offset := repeat 0%Z n |}.

Fixpoint upd {A : Type} (i : nat) (v : A) (l : list A) : list A :=
  match l, i with
  | [], _ => []
  | _ :: r, 0 => v :: r
  | a :: r, S i' => a :: upd i' v r
  end.

(* find_root_and_offset: `while parent[root] != root: total += offset[root]; root = parent[root]`
   with explicit fuel (None = the loop did not terminate within `fuel` iterations) *)
Fixpoint find (fuel : nat) (st : uf) (x : nat) (total : Z) : option (nat * Z) :=
  match fuel with
  | 0 => None
  | S f =>
    let p := nth x (parent st) x in
    if p =? x then Some (x, total)
    else find f st p (total + nth x (offset st) 0)%Z
  end.

Definition union (fuel : nat) (st : uf) (x y : nat) (inc : Z) : option uf :=
  match find fuel st x 0%Z, find fuel st y 0%Z with
  | Some (rx, ox), Some (ry, oy) =>
    if rx =? ry then Some st
    else
      let delta := (ox - oy - inc)%Z in
      let kx := nth rx (rank st) 0 in
      let ky := nth ry (rank st) 0 in
      if kx <? ky then
        Some {| parent := upd rx ry (parent st); rank := rank st;
                offset := upd rx (- delta)%Z (offset st) |}
      else
        Some {| parent := upd ry rx (parent st);
                rank := if kx =? ky then upd rx (S kx) (rank st) else rank st;
                offset := upd ry delta (offset st) |}
  | _, _ => None
  end.

(* `for k in range(i1.numel()): uf.union(i1[k], i2[k], inc[k])` *)
Fixpoint run (fuel : nat) (st : uf) (es : list edge) : option uf :=
  match es with
  | [] => Some st
  | (x, y, inc) :: r =>
    match union fuel st x y inc with
    | Some st' => run fuel st' r
    | None => None
    end
  end.

(* ghost: the edges that actually merged two trees (roots differed when processed) *)
Fixpoint merged (fuel : nat) (st : uf) (es : list edge) : list edge :=
  match es with
  | [] => []
  | (x, y, inc) :: r =>
    match find fuel st x 0%Z, find fuel st y 0%Z, union fuel st x y inc with
    | Some (rx, _), Some (ry, _), Some st' =>
      (if rx =? ry then [] else [(x, y, inc)]) ++ merged fuel st' r
    | _, _, _ => []
    end
  end.

Fixpoint all_some {A : Type} (l : list (option A)) : option (list A) :=
  match l with
  | [] => Some []
  | None :: _ => None
  | Some a :: r => match all_some r with Some r' => Some (a :: r') | None => None end
  end.

(* _final_offsets *)
Definition final_offsets (fuel : nat) (st : uf) (n : nat) : option (list Z) :=
  all_some (map (fun i => option_map snd (find fuel st i 0%Z)) (seq 0 n)).

Definition final_roots (fuel : nat) (st : uf) (n : nat) : option (list nat) :=
  all_some (map (fun i => option_map fst (find fuel st i 0%Z)) (seq 0 n)).

(* the fuel used everywhere: one more than the number of edges *)
Definition fuel_of (es : list edge) : nat := S (length es).

Definition uf_offsets (n : nat) (es : list edge) : option (list Z) :=
  match run (fuel_of es) (uf_init n) es with
  | Some st => final_offsets (fuel_of es) st n
  | None => None
  end.

(* ---------------------------------------------------------------- unwrap *)
(* out = phi + 2P * incs   (before the mean subtraction) *)
Definition unwrap_raw (P : Q) (n : nat) (phiw : nat -> Q) (pairs : list (nat * nat))
  : option (list Q) :=
  match uf_offsets n (incs_of P phiw pairs) with
  | Some offs =>
    Some (map (fun i => (phiw i + 2 * P * inject_Z (nth i offs 0%Z))%Q) (seq 0 n))
  | None => None
  end.

Fixpoint sumQ (l : list Q) : Q := match l with [] => 0%Q | x :: r => (x + sumQ r)%Q end.
Definition meanQ (l : list Q) : Q := (sumQ l / inject_Z (Z.of_nat (length l)))%Q.

(* `out -= out.mean()` (mean over ALL pixels, masked or not) *)
Definition unwrap (P : Q) (n : nat) (phiw : nat -> Q) (pairs : list (nat * nat))
  : option (list Q) :=
  match unwrap_raw P n phiw pairs with
  | Some out => Some (map (fun v => (v - meanQ out)%Q) out)
  | None => None
  end.

(* ---------------------------------------------------------------- harness glue *)
Definition el (l : list (Z * Z * Z)) : list edge :=
  map (fun t => (Z.to_nat (fst (fst t)), Z.to_nat (snd (fst t)), snd t)) l.
Definition zpairs (l : list (nat * nat)) : list (Z * Z) :=
  map (fun e => (Z.of_nat (fst e), Z.of_nat (snd e))) l.
Definition ztriples (l : list edge) : list (Z * Z * Z) :=
  map (fun e => (Z.of_nat (fst (fst e)), Z.of_nat (snd (fst e)), snd e)) l.
(* phases given as integers k meaning k / den *)
Definition phase_of (den : positive) (l : list Z) : nat -> Q :=
  fun i => Qmake (nth i l 0%Z) den.
Definition mask_of (l : list bool) : nat -> bool := fun i => nth i l false.
