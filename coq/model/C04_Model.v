(* C04 — Direct ptychography.  Executable model (definitions only; proofs in proof/C04_Proofs*.v) of
     quantem.diffractive_imaging.direct_ptychography.DirectPtychography
       _return_bf_context   torch.nonzero(sub) (row-major) and  torch.where(sub[full])[0]
       _preprocess          fft2 of every virtual image, DC bin set to zero
       reconstruct          Fourier-space tiling (upsampling), batched first pass writing
                            fourier_factor[batch_idx], power accumulation `power += pow`,
                            `power /= BF_weights`, norm, second pass over the same batches,
                            `corrected_stack = fourier_factor.real / BF_weights`, corrected_bf = sum
   over ring operations given as parameters: the SAME definitions are used in the proofs (with a
   ring_theory and the root-of-unity laws of lib/DFT.v as hypotheses) and are run on binary64
   complex pairs (Section-free instance at the end of this file) against the implementation.

   NOT modelled (abstract parameters): the per-pixel kernel operators K_j (gamma_factor, the
   parallax phase ramp, the iCoM operator), the per-pixel power |gamma_j|^2, the aperture
   weights |probe(k_j)|^2, the Butterworth envelope and the norm function.  Their physics is
   not verified here; the theorems say the result is the stated function of them. *)
From Coq Require Import ZArith List Bool Arith Lia.
From Coq Require Import Uint63 PrimFloat.
From QV.lib Require Import Prelude Chunks FinSum DFT DFT2 DFT_Float.
Import ListNotations.
Unset Implicit Arguments.

(* ------------------------------------------------------------------ masks and the index map *)
Section Select.
  Variable A : Type.
  (* boolean-mask selection  l[m]  (order of the list = row-major order of the tensor) *)
  Fixpoint select (m : list bool) (l : list A) : list A :=
    match m, l with
    | b :: m', x :: l' => if b then x :: select m' l' else select m' l'
    | _, _ => []
    end.
End Select.
Arguments select {A} m l.

Definition mask2 := list (list bool).                 (* a 2-D boolean tensor as its list of rows *)
Definition flat (m : mask2) : list bool := concat m.   (* row-major flattening *)
Definition row_positions (i : nat) (row : list bool) : list (nat * nat) :=
  map (fun j => (i, j)) (seq 0 (length row)).
Fixpoint positions_from (i : nat) (m : mask2) : list (nat * nat) :=
  match m with
  | [] => []
  | row :: r => row_positions i row ++ positions_from (S i) r
  end.
Definition positions (m : mask2) : list (nat * nat) := positions_from 0 m.
(* torch.nonzero(mask, as_tuple=True): coordinates of the True entries, row-major *)
Definition nonzero2 (m : mask2) : list (nat * nat) := select (flat m) (positions m).
(* torch.where(v)[0] of a 1-D boolean tensor *)
Definition where1 (v : list bool) : list nat := select v (seq 0 (length v)).
(* sub[full]: the values of `sub` at the True entries of `full`, row-major *)
Definition masked (full sub : mask2) : list bool := select (flat full) (flat sub).
(* vbf_index_mapping = torch.where(bf_mask[self.bf_mask])[0] *)
Definition index_map (full sub : mask2) : list nat := where1 (masked full sub).

Definition same_shape (a b : mask2) : Prop := map (@length bool) a = map (@length bool) b.
Definition submask (full sub : mask2) : Prop :=
  forall p, nth p (flat sub) false = true -> nth p (flat full) false = true.

(* ------------------------------------------------------------------ arrays (lists) with scatter *)
Section Arr.
  Variable A : Type.
  Fixpoint upd (l : list A) (j : nat) (v : A) : list A :=
    match l, j with
    | [], _ => []
    | _ :: r, O => v :: r
    | x :: r, S j' => x :: upd r j' v
    end.
  (* arr[js] = vs   (advanced-index assignment, element by element in order) *)
  Definition put (arr : list A) (js : list nat) (vs : list A) : list A :=
    fold_left (fun a p => upd a (fst p) (snd p)) (combine js vs) arr.
End Arr.
Arguments upd {A} l j v.
Arguments put {A} arr js vs.

(* ------------------------------------------------------------------ the reconstruction skeleton *)
Section Skeleton.
  Variable R : Type.
  Variables (rO : R) (radd rmul : R -> R -> R).
  Variable conj : R -> R.
  Variable half : R.                      (* 1/2: z.real = half * (z + conj z) *)
  Variable rinv : R -> R.                 (* reciprocal: x / W is modelled as x * rinv W *)
  Definition img := nat -> nat -> R.

  Definition re_part (z : R) : R := rmul half (radd z (conj z)).
  Definition imul (a b : img) : img := fun k1 k2 => rmul (a k1 k2) (b k1 k2).

  (* reconstruction (upsampled) grid N1 x N2 with its root families *)
  Variables (N1 N2 : nat) (w1 w2 : Z -> R) (Ninv1 Ninv2 : R).
  Definition ifft2 (X : img) : img := idft2_m rO radd rmul N1 w1 Ninv1 N2 w2 Ninv2 X.

  (* per-pixel data in BF-context order j = 0 .. n-1 *)
  Variable n : nat.
  Variable contrib : nat -> img.   (* numerator of BF pixel j returned by _return_kernel_contributions *)
  Variable pw : nat -> img.        (* |gamma_j|^2 (obf / mf only) *)
  Variable wt : nat -> R.          (* |probe(k_j)|^2 *)
  Variable env : img.              (* butterworth_env *)
  Variable normf : img -> img.     (* 1 / norm, as a function of the whole image power / BF_weights *)
  Variable garbage : img.          (* torch.empty: contents of never-written entries *)

  (* BF_weights = cmplx_probe_k[bf_mask].abs().square().sum() *)
  Definition bf_weights : R := suml rO radd (map wt (seq 0 n)).

  Definition get (arr : list img) (js : list nat) : list img := map (fun j => nth j arr garbage) js.

  (* corrected_stack = fourier_factor.real / BF_weights *)
  Definition finish (arr : list img) : list img :=
    map (fun a => fun r1 r2 => rmul (re_part (a r1 r2)) (rinv bf_weights)) arr.

  (* --- single-pass kernels (ssb, prlx, icom): num *= env; fourier_factor[batch_idx] = ifft2(num) *)
  Definition pass_single (arr : list img) (batch : list nat) : list img :=
    put arr batch (map (fun j => ifft2 (imul (contrib j) env)) batch).
  Definition reconstruct_single (batches : list (list nat)) : list img :=
    finish (fold_left pass_single batches (repeat garbage n)).

  (* --- two-pass kernels (obf, mf) *)
  (* pow = abs_gamma.square().sum(0)   over the pixels of the batch *)
  Definition batch_power (batch : list nat) : img :=
    fun k1 k2 => suml rO radd (map (fun j => pw j k1 k2) batch).
  (* fourier_factor[batch_idx] = num ; power += pow *)
  Definition pass1 (st : list img * img) (batch : list nat) : list img * img :=
    (put (fst st) batch (map contrib batch),
     fun k1 k2 => radd (snd st k1 k2) (batch_power batch k1 k2)).
  (* ff = fourier_factor[batch_idx]; ff /= norm; ff *= env; fourier_factor[batch_idx] = ifft2(ff) *)
  Definition pass2 (nf : img) (arr : list img) (batch : list nat) : list img :=
    put arr batch (map (fun ff => ifft2 (imul (imul ff nf) env)) (get arr batch)).
  Definition accumulated_power (batches : list (list nat)) : img :=
    snd (fold_left pass1 batches (repeat garbage n, fun _ _ => rO)).
  Definition reconstruct_two (batches : list (list nat)) : list img :=
    let st := fold_left pass1 batches (repeat garbage n, fun _ _ => rO) in
    let P := fun k1 k2 => rmul (snd st k1 k2) (rinv bf_weights) in   (* power /= BF_weights *)
    let nf := normf P in
    finish (fold_left (pass2 nf) batches (fst st)).

  (* SimpleBatcher(num_bf, batch_size = b, shuffle = False): consecutive chunks of arange(n) *)
  Definition batches_of (b : nat) : list (list nat) := chunks b (seq 0 n).

  (* corrected_bf = corrected_stack.sum(dim = 0) *)
  Definition corrected_bf (stack : list img) : img :=
    fun r1 r2 => suml rO radd (map (fun a => a r1 r2) stack).
End Skeleton.

Arguments img R : clear implicits.
Arguments re_part {R} radd rmul conj half z.
Arguments imul {R} rmul a b _ _.
Arguments ifft2 {R} rO radd rmul N1 N2 w1 w2 Ninv1 Ninv2 X _ _.
Arguments bf_weights {R} rO radd n wt.
Arguments get {R} garbage arr js.
Arguments finish {R} rO radd rmul conj half rinv n wt arr.
Arguments pass_single {R} rO radd rmul N1 N2 w1 w2 Ninv1 Ninv2 contrib env arr batch.
Arguments reconstruct_single {R} rO radd rmul conj half rinv N1 N2 w1 w2 Ninv1 Ninv2 n contrib wt env garbage batches.
Arguments batch_power {R} rO radd pw batch _ _.
Arguments pass1 {R} rO radd contrib pw st batch.
Arguments pass2 {R} rO radd rmul N1 N2 w1 w2 Ninv1 Ninv2 env garbage nf arr batch.
Arguments accumulated_power {R} rO radd n contrib pw garbage batches _ _.
Arguments reconstruct_two {R} rO radd rmul conj half rinv N1 N2 w1 w2 Ninv1 Ninv2 n contrib pw wt env normf garbage batches.
Arguments batches_of n b : clear implicits.
Arguments corrected_bf {R} rO radd stack _ _.

(* ------------------------------------------------------------------ from the stack to the contributions *)
Section Front.
  Variable R : Type.
  Variables (rO : R) (radd rmul : R -> R -> R).
  (* scan grid n1 x n2 (the virtual images) with its root families *)
  Variables (n1 n2 : nat) (ws1 ws2 : Z -> R).

  (* _preprocess: fft2, then  _vbf_fourier[..., 0, 0] = 0 *)
  Definition zero_dc (X : img R) : img R :=
    fun k1 k2 => match k1, k2 with O, O => rO | _, _ => X k1 k2 end.
  Definition preprocess (v : img R) : img R :=
    zero_dc (dft2_m rO radd rmul n1 ws1 n2 ws2 v).
  (* torch.cat([torch.cat([X] * u, dim=-1)] * u, dim=-2) *)
  Definition tile (X : img R) : img R := fun k1 k2 => X (k1 mod n1) (k2 mod n2).

  (* kernel operator, power and aperture weight of a DETECTOR pixel (physics: abstract) *)
  Variable kern : nat * nat -> img R -> img R.
  Variable pwd : nat * nat -> img R.
  Variable wtd : nat * nat -> R.
  Variable stack : nat -> img R.            (* vbf_stack[m], m in the order of nonzero(full) *)

  (* the BF context of a sub-mask *)
  Definition ctx_pix (sub : mask2) (j : nat) : nat * nat := nth j (nonzero2 sub) (0, 0)%nat.
  Definition ctx_contrib (full sub : mask2) (j : nat) : img R :=
    kern (ctx_pix sub j) (tile (preprocess (stack (nth j (index_map full sub) 0%nat)))).
  Definition ctx_pw (sub : mask2) (j : nat) : img R := pwd (ctx_pix sub j).
  Definition ctx_wt (sub : mask2) (j : nat) : R := wtd (ctx_pix sub j).
  Definition ctx_n (sub : mask2) : nat := length (nonzero2 sub).

  (* a kernel that is a Fourier multiplier (all five kernels of the code have this form) *)
  Definition kern_mult (g : nat * nat -> img R) : nat * nat -> img R -> img R :=
    fun p X => fun k1 k2 => rmul (X k1 k2) (g p k1 k2).
End Front.

Arguments zero_dc {R} rO X _ _.
Arguments preprocess {R} rO radd rmul n1 n2 ws1 ws2 v _ _.
Arguments tile {R} n1 n2 X _ _.
Arguments ctx_pix sub j : clear implicits.
Arguments ctx_contrib {R} rO radd rmul n1 n2 ws1 ws2 kern stack full sub j _ _.
Arguments ctx_pw {R} pwd sub j _ _.
Arguments ctx_wt {R} wtd sub j.
Arguments ctx_n sub : clear implicits.
Arguments kern_mult {R} rmul g p X _ _.

(* reconstruct(bf_mask = sub, max_batch_size = b) for a single-pass / two-pass kernel *)
Section MaskRecon.
  Variable R : Type.
  Variables (rO : R) (radd rmul : R -> R -> R) (conj : R -> R) (half : R) (rinv : R -> R).
  Variables (n1 n2 : nat) (ws1 ws2 : Z -> R).
  Variables (N1 N2 : nat) (w1 w2 : Z -> R) (Ninv1 Ninv2 : R).
  Variable kern : nat * nat -> img R -> img R.
  Variable pwd : nat * nat -> img R.
  Variable wtd : nat * nat -> R.
  Variable stack : nat -> img R.
  Variables (env : img R) (normf : img R -> img R) (garbage : img R).

  Definition recon_mask_single (full sub : mask2) (b : nat) : list (img R) :=
    reconstruct_single rO radd rmul conj half rinv N1 N2 w1 w2 Ninv1 Ninv2 (ctx_n sub)
      (ctx_contrib rO radd rmul n1 n2 ws1 ws2 kern stack full sub) (ctx_wt wtd sub) env garbage
      (batches_of (ctx_n sub) b).
  Definition recon_mask_two (full sub : mask2) (b : nat) : list (img R) :=
    reconstruct_two rO radd rmul conj half rinv N1 N2 w1 w2 Ninv1 Ninv2 (ctx_n sub)
      (ctx_contrib rO radd rmul n1 n2 ws1 ws2 kern stack full sub) (ctx_pw pwd sub) (ctx_wt wtd sub)
      env normf garbage (batches_of (ctx_n sub) b).
End MaskRecon.

Arguments recon_mask_single {R} rO radd rmul conj half rinv n1 n2 ws1 ws2 N1 N2 w1 w2 Ninv1 Ninv2
  kern wtd stack env garbage full sub b.
Arguments recon_mask_two {R} rO radd rmul conj half rinv n1 n2 ws1 ws2 N1 N2 w1 w2 Ninv1 Ninv2
  kern pwd wtd stack env normf garbage full sub b.

(* zero-insertion upsampling by u (what the Fourier-space tiling does in real space) *)
Definition upsample2 {R} (rO : R) (u : nat) (y : nat -> nat -> R) : nat -> nat -> R :=
  fun m1 m2 => if ((m1 mod u =? 0) && (m2 mod u =? 0))%nat then y (m1 / u)%nat (m2 / u)%nat else rO.

(* ------------------------------------------------------------------ binary64 instance (runs only) *)
(* complex numbers = pairs of PrimFloat (lib/DFT_Float.v); twiddle tables are oracle inputs *)
Definition cfhalf : cf := (0.5%float, 0%float).
Definition cfrinv (z : cf) : cf := (PrimFloat.div 1%float (fst z), 0%float).
Definition fclamp_min (x lo : float) : float := if PrimFloat.ltb x lo then lo else x.

Record fgrids := { scan : grid; big : grid }.

Definition gmax (N1 N2 : nat) (P : nat -> nat -> cf) : float :=
  fold_right (fun i m => fold_right (fun j m' => fmaxn (fst (P i j)) m') m (seq 0 N2)) neg_infinity (seq 0 N1).

(* obf: norm = power.sqrt().clamp_min(1e-8) *)
Definition normf_obf (g : grid) (P : nat -> nat -> cf) : nat -> nat -> cf :=
  memo2 cf0 (gN1 g) (gN2 g)
    (fun k1 k2 => (PrimFloat.div 1%float (fclamp_min (PrimFloat.sqrt (fst (P k1 k2))) 0x1.5798ee2308c3ap-27%float), 0%float)).
(* mf: norm = (power + eps * power.max()).clamp_min(1e-8) *)
Definition normf_mf (eps : float) (g : grid) (P : nat -> nat -> cf) : nat -> nat -> cf :=
  let Pm := memo2 cf0 (gN1 g) (gN2 g) P in
  let mx := gmax (gN1 g) (gN2 g) Pm in
  memo2 cf0 (gN1 g) (gN2 g)
    (fun k1 k2 => (PrimFloat.div 1%float
                     (fclamp_min (PrimFloat.add (fst (Pm k1 k2)) (PrimFloat.mul eps mx)) 0x1.5798ee2308c3ap-27%float),
                   0%float)).

Definition cfgarbage : nat -> nat -> cf := fun _ _ => (nan, nan).

Definition f_single (g : grid) (n : nat) (contrib : list (list (list cf))) (wt : list float)
           (env : list (list float)) (batches : list (list nat)) : list (list (list cf)) :=
  map (glst2 g)
    (reconstruct_single cf0 cfadd cfmul cfconj cfhalf cfrinv (gN1 g) (gN2 g)
       (ftw (gN1 g) (gT1 g)) (ftw (gN2 g) (gT2 g)) (fNinv (gN1 g)) (fNinv (gN2 g)) n
       (fun j => sig2 (nth j contrib nil)) (fun j => cf_re (nth j wt 0%float)) (rsig2 env) cfgarbage batches).

Definition f_two (nf : grid -> (nat -> nat -> cf) -> nat -> nat -> cf) (g : grid) (n : nat)
           (contrib : list (list (list cf))) (pw : list (list (list float))) (wt : list float)
           (env : list (list float)) (batches : list (list nat)) : list (list (list cf)) :=
  map (glst2 g)
    (reconstruct_two cf0 cfadd cfmul cfconj cfhalf cfrinv (gN1 g) (gN2 g)
       (ftw (gN1 g) (gT1 g)) (ftw (gN2 g) (gT2 g)) (fNinv (gN1 g)) (fNinv (gN2 g)) n
       (fun j => sig2 (nth j contrib nil)) (fun j => rsig2 (nth j pw nil)) (fun j => cf_re (nth j wt 0%float))
       (rsig2 env) (nf g) cfgarbage batches).

(* whole pipeline from the raw stack for a multiplier kernel given by its table (parallax):
   masks -> context -> preprocess -> tile -> multiply -> skeleton *)
Definition f_mask_single (gs : fgrids) (full sub : mask2) (stack : list (list (list float)))
           (gtab : list (list (list cf)))       (* multiplier of the j-th pixel of nonzero(full) *)
           (wtab : list float)                   (* aperture weight of the j-th pixel of nonzero(full) *)
           (env : list (list float)) (b : nat) : list (list (list cf)) :=
  let pixF := nonzero2 full in
  let idx := fun p : nat * nat =>
               match find (fun q => (Nat.eqb (fst (fst q)) (fst p) && Nat.eqb (snd (fst q)) (snd p))%bool)
                          (combine pixF (seq 0 (length pixF))) with
               | Some q => snd q | None => 0%nat end in
  let sg := scan gs in let g := big gs in
  map (glst2 g)
    (recon_mask_single cf0 cfadd cfmul cfconj cfhalf cfrinv (gN1 sg) (gN2 sg)
       (ftw (gN1 sg) (gT1 sg)) (ftw (gN2 sg) (gT2 sg))
       (gN1 g) (gN2 g) (ftw (gN1 g) (gT1 g)) (ftw (gN2 g) (gT2 g)) (fNinv (gN1 g)) (fNinv (gN2 g))
       (kern_mult cfmul (fun p => sig2 (nth (idx p) gtab nil)))
       (fun p => cf_re (nth (idx p) wtab 0%float))
       (fun m => rsig2 (nth m stack nil)) (rsig2 env) cfgarbage full sub b).

(* comparison helpers: largest |model - impl| over a stack of real images, as an exact (m, e) pair *)
Definition re_stack (st : list (list (list cf))) : list (list (list cf)) :=
  map (map (map (fun z : cf => (fst z, 0%float)))) st.
Fixpoint maxerr3 (a b : list (list (list cf))) : float :=
  match a, b with
  | [], [] => 0%float
  | x :: r, y :: s => fmaxn (maxerr2 x y) (maxerr3 r s)
  | _, _ => infinity
  end.
Definition rstack (st : list (list (list float))) : list (list (list cf)) := map (map (map cf_re)) st.
Definition cmp_stack (got : list (list (list cf))) (want : list (list (list float))) : (Z * Z) * (Z * Z) :=
  (fZZ (maxerr3 (re_stack got) (rstack want)),
   fZZ (fold_right (fun l m => fmaxn (maxabs2 l) m) 0%float (rstack want))).
