(* C08 — round 5: PERSISTENT faults and a "retry transient errors" helper around the effects.
   Definitions only; proofs are in proof/C08_Proofs_Retry.v.

   A fault plan says, for every effect of the program and every attempt at it, whether that attempt
   fails:  pl j a = true  <->  attempt number a (0-based) at effect number j raises.
     one-shot fault at k    : pl j a = (j =? k) && (a =? 0)
     persistent fault at k  : pl k a = true for EVERY a (repeating the write does not help)
   `retry_run r pl` is the protocol with a retry helper allowing r repetitions (r + 1 attempts) around
   every effect; a failed attempt leaves the state as it was (the helper re-creates the item from
   scratch); when the last attempt has failed too, the exception propagates (clean-up handlers run).
   r = 0 is the code as it is (no helper).
   `swallow_run` is the helper whose give-up test never fires: after the last failed attempt at an
   item write the exception is dropped and the save carries on with the next effect. *)
From QV.lib Require Import Prelude.
From QV.model Require Import C08_Model.

Definition plan := nat -> nat -> bool.

(* the attempts 0 .. n-1 all fail *)
Fixpoint all_fail (f : nat -> bool) (n : nat) : bool :=
  match n with
  | O => true
  | S n' => f O && all_fail (fun a => f (S a)) n'
  end.

Fixpoint retry_prefix (r : nat) (pl : plan) (j : nat) (prog : list effect) (hs : list handler) (fs : fsys)
  {struct prog} : res :=
  match prog with
  | [] => Continue O hs fs
  | e :: rest =>
      if all_fail (pl j) (S r)
      then Stopped (unwind (fault_handlers e hs) fs) Faulted
      else match step e fs with
           | inl err => Stopped (unwind hs fs) err
           | inr fs1 => retry_prefix r pl (S j) rest (handlers_after e hs) fs1
           end
  end.

Definition retry_run (r : nat) (pl : plan) (prog : list effect) (fs : fsys) : fsys * outcome :=
  match retry_prefix r pl O prog [] fs with
  | Stopped fs' o => (fs', o)
  | Continue _ hs fs' => (unwind hs fs', Done)
  end.

(* number of the first effect all of whose r + 1 attempts fail, counted from j (len: none) *)
Fixpoint first_exhausted (r : nat) (pl : plan) (j len : nat) : nat :=
  match len with
  | O => O
  | S len' => if all_fail (pl j) (S r) then O else S (first_exhausted r pl (S j) len')
  end.

Definition one_shot (k : nat) : plan := fun j a => Nat.eqb j k && Nat.eqb a O.
Definition persistent (k : nat) : plan := fun j _ => Nat.eqb j k.

(* the helper that gives up SILENTLY on item writes *)
Fixpoint swallow_prefix (r : nat) (pl : plan) (j : nat) (prog : list effect) (hs : list handler) (fs : fsys)
  {struct prog} : res :=
  match prog with
  | [] => Continue O hs fs
  | e :: rest =>
      if all_fail (pl j) (S r)
      then match e with
           | WriteItem _ _ => swallow_prefix r pl (S j) rest hs fs        (* error dropped, item not written *)
           | _ => Stopped (unwind (fault_handlers e hs) fs) Faulted
           end
      else match step e fs with
           | inl err => Stopped (unwind hs fs) err
           | inr fs1 => swallow_prefix r pl (S j) rest (handlers_after e hs) fs1
           end
  end.

Definition swallow_run (r : nat) (pl : plan) (prog : list effect) (fs : fsys) : fsys * outcome :=
  match swallow_prefix r pl O prog [] fs with
  | Stopped fs' o => (fs', o)
  | Continue _ hs fs' => (unwind hs fs', Done)
  end.

(* harness glue: class / outcome of retry_run for a one-shot or persistent fault at k *)
Definition retry_scen (st : store) (m : mode) (pre : entry) (n nz r k : nat) (pers : bool) : Z * Z :=
  let ws := zseq 0 n in
  let zs := zseq 500 nz in
  let prog := save_prog st m 0 1 2 ws zs in
  let fs0 := scen_fs pre in
  let '(fs', o) := retry_run r (if pers then persistent k else one_shot k) prog fs0 in
  (classify scen_markers fs0 fs' 0 (final_entry st ws zs), outcome_code o).
