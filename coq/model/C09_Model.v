(* C09 — mini-batch scheduling.  Executable model of
     quantem.diffractive_imaging.ptycho_utils.SimpleBatcher   (__init__, __iter__, __len__, iter_val, val_len)
     quantem.core.utils.utils.subdivide_batches / generate_batches
     the batch-fraction scaling of PtychographyBase.error_estimate (on Q)
     the reset bookkeeping of PtychographyBase.reset_recon (abstract iteration step)
   Definitions only; proofs are in proof/C09_Proofs.v. *)
From QV.lib Require Import Prelude Chunks FloatBits.
From Coq Require Import QArith PrimFloat.
Local Close Scope Q_scope.

(* ---------------------------------------------------------------- train / validation split *)
Record tvsplit := { train : list nat; val : list nat }.

(* np.setdiff1d(indices, sel): sorted unique values of `indices` (= arange n) not in sel *)
Definition setdiff (l sel : list nat) : list nat := filter (fun i => negb (memb i sel)) l.

(* np.arange(n)[::k] *)
Definition stride (k n : nat) : list nat := filter (fun i => i mod k =? 0) (seq 0 n).

Definition split_grid (n n_val k : nat) (invert : bool) : tvsplit :=
  let sel := firstn n_val (stride k n) in   (* `if len(grid_sel) > n_val: grid_sel[:n_val]` *)
  if invert then {| train := sel; val := setdiff (seq 0 n) sel |}
  else {| train := setdiff (seq 0 n) sel; val := sel |}.

(* val_mode == "random": `perm` is what rng.permutation(indices) returned (oracle input) *)
Definition split_random (n n_val : nat) (perm : list nat) : tvsplit :=
  let v := firstn n_val perm in
  {| train := setdiff (seq 0 n) v; val := v |}.

Definition no_split (n : nat) : tvsplit := {| train := seq 0 n; val := [] |}.

(* the float -> int glue of __init__, bit-faithful on binary64 *)
Definition kz (z : Z) : nat := Nat.max 1 (Z.to_nat z).

Definition split_of_ratio (n : nat) (ratio : float) (random : bool) (perm : list nat)
  : option tvsplit :=
  let r := if (PrimFloat.ltb ratio 0 || PrimFloat.leb 1 ratio)%bool then 0%float else ratio in
  match py_round (PrimFloat.mul (float_of_Z (Z.of_nat n)) r) with
  | None => None                                   (* round(nan): ValueError *)
  | Some nv =>
    if (nv <=? 0)%Z then Some (no_split n)
    else
      let n_val := Z.to_nat nv in
      if random then Some (split_random n n_val perm)
      else if PrimFloat.leb r 0.5%float then
        match py_round (PrimFloat.div 1 r) with
        | Some k => Some (split_grid n n_val (kz k) false)
        | None => None
        end
      else
        match py_round (PrimFloat.div 1 (PrimFloat.sub 1 r)) with
        | Some k => Some (split_grid n n_val (kz k) true)
        | None => None
        end
  end.

(* ---------------------------------------------------------------- epochs *)
(* __iter__: chunks of the (shuffled) training order; `order` is the permutation the rng
   returned (or train itself when shuffle=False) *)
Definition epoch (b : nat) (order : list nat) : list (list nat) := chunks b order.
Definition batcher_len (b : nat) (s : tvsplit) : nat := ceil_div (length (train s)) b.
Definition val_batches (b : nat) (s : tvsplit) : list (list nat) := chunks b (val s).
Definition val_len (b : nat) (s : tvsplit) : nat :=
  match val s with [] => 0 | _ => ceil_div (length (val s)) b end.

(* ---------------------------------------------------------------- subdivide / generate *)
Inductive err := ErrRuntime | ErrValue | ErrZeroDiv.

Definition subdivide_batches (num_items : Z) (num_batches max_batch : option Z)
  : err + list Z :=
  match num_batches, max_batch with
  | Some _, Some _ => inl ErrRuntime
  | None, None => inl ErrRuntime
  | _, _ =>
    let nb_or_err :=
      match num_batches with
      | Some nb => inr nb
      | None => match max_batch with
                | Some mb => if (mb =? 0)%Z then inl ErrZeroDiv
                             else inr ((num_items + mb - 1) / mb)%Z
                | None => inl ErrRuntime
                end
      end in
    match nb_or_err with
    | inl e => inl e
    | inr nb =>
      if (num_items <? nb)%Z then inl ErrValue
      else if (nb =? 0)%Z then inl ErrZeroDiv
      else
        let base := (num_items / nb)%Z in
        let rem := (num_items mod nb)%Z in
        (* Python: [x]*k is [] for k <= 0 *)
        inr (repeat (base + 1)%Z (Z.to_nat rem) ++ repeat base (Z.to_nat (nb - rem)))
    end
  end.

Fixpoint ranges_from (idx : Z) (sizes : list Z) : list (Z * Z) :=
  match sizes with
  | [] => []
  | s :: r => (idx, (idx + s)%Z) :: ranges_from (idx + s)%Z r
  end.

Definition generate_batches (num_items : Z) (num_batches max_batch : option Z) (start : Z)
  : err + list (Z * Z) :=
  match subdivide_batches num_items num_batches max_batch with
  | inl e => inl e
  | inr sizes => inr (ranges_from start sizes)
  end.

(* ---------------------------------------------------------------- loss scaling (exact, Q) *)
Fixpoint sumQ (l : list Q) : Q := match l with [] => 0%Q | x :: r => (x + sumQ r)%Q end.

(* error_estimate: sum over the batch / (batch_size / num_gpts) / mean_intensity *)
Definition batch_loss (N : nat) (I : Q) (ls : list Q) : Q :=
  (sumQ ls / (inject_Z (Z.of_nat (length ls)) / inject_Z (Z.of_nat N)) / I)%Q.

Definition mean_of_batch_losses (N : nat) (I : Q) (b : nat) (ls : list Q) : Q :=
  (sumQ (map (batch_loss N I) (chunks b ls)) / inject_Z (Z.of_nat (length (chunks b ls))))%Q.

(* ---------------------------------------------------------------- reset / determinism *)
(* Reconstruction bookkeeping with an abstract iteration step.  `St` bundles everything an
   iteration reads or writes (parameters, optimiser and scheduler state, rng state); the
   step is a function of that state alone (determinism of the torch/numpy kernels is an
   oracle assumption, exercised by the toy reconstruction in the harness). *)
Section Recon.
  Variable St : Type.          (* mutable reconstruction state incl. rng streams *)
  Variable Loss : Type.
  Variable init_of_seed : Z -> St.           (* what construction / reset builds from the seed *)
  Variable iter_step : St -> St * Loss.

  Record recon := { seed : Z; st : St; iter_losses : list Loss }.

  Definition start (sd : Z) : recon := {| seed := sd; st := init_of_seed sd; iter_losses := [] |}.

  Definition iterate (r : recon) : recon :=
    let (s', l) := iter_step (st r) in
    {| seed := seed r; st := s'; iter_losses := iter_losses r ++ [l] |}.

  Fixpoint run (k : nat) (r : recon) : recon :=
    match k with 0 => r | S k' => run k' (iterate r) end.

  (* reset_recon: _reset_rng() re-seeds from the stored seed; models / dataset / optimisers
     go back to their initial values; histories are emptied *)
  Definition reset (r : recon) : recon := start (seed r).
End Recon.
Arguments seed {St Loss} r.
Arguments st {St Loss} r.
Arguments iter_losses {St Loss} r.
Arguments start {St} Loss init_of_seed sd.
Arguments iterate {St Loss} iter_step r.
Arguments run {St Loss} iter_step k r.
Arguments reset {St Loss} init_of_seed r.
