(* C09 — loss algebra with an additive regulariser (Ptychography._soft_constraints): the loss of
   one mini-batch is   error_estimate(batch) + soft,   where `soft` (object TV / surface-zero,
   probe TV, descan TV with their weights) depends on the parameters only, not on the batch.
   Executable definitions only. *)
From QV.lib Require Import Prelude Chunks.
From QV.model Require Import C09_Model C09_Model_Ext.
From Coq Require Import QArith.
Local Open Scope Q_scope.

(* batch_loss = batch_consistency_loss + batch_soft_constraint_loss *)
Definition reg_batch_loss (N : nat) (I r : Q) (c : list Q) : Q := batch_loss N I c + r.

(* iter_losses entry: total / len(batcher) over the batches the epoch used *)
Definition mean_over_reg_batches (N : nat) (I r : Q) (bs : list (list Q)) : Q :=
  sumQ (map (reg_batch_loss N I r) bs) / qn (length bs).

(* gradient component j: per-pattern data gradients gs, gradient rg of the regulariser *)
Definition reg_batch_grad (N : nat) (I : Q) (rg : list Q) (gs : list (list Q)) (j : nat) : Q :=
  batch_grad N I gs j + comp j rg.
Definition mean_over_reg_batch_grads (N : nat) (I : Q) (rg : list Q) (bss : list (list (list Q))) (j : nat) : Q :=
  sumQ (map (fun gs => reg_batch_grad N I rg gs j) bss) / qn (length bss).

(* a variant that weights the regulariser by the batch share len(batch)/N *)
Definition frac_reg_batch_loss (N : nat) (I r : Q) (c : list Q) : Q :=
  batch_loss N I c + (qn (length c) / qn N) * r.
Definition mean_over_frac_reg_batches (N : nat) (I r : Q) (bs : list (list Q)) : Q :=
  sumQ (map (frac_reg_batch_loss N I r) bs) / qn (length bs).
Local Close Scope Q_scope.
