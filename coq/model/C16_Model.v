(* C16 — forward-model operators of quantem.diffractive_imaging, expressed on lib/DFT.v, lib/DFT2.v.
   Definitions only (generic over the ring operations, so the same text is used for the proofs
   — abstract commutative ring with a root of unity — and, instantiated with binary64 complex
   pairs at the end of this file, for the correspondence runs).  Proofs: proof/C16_Proofs.v.

   Modelled code (src/quantem/diffractive_imaging):
     ptycho_utils.fourier_translation_operator   ramp = ramp_r[:, None] * ramp_c[None, :]
     ptycho_utils.fourier_shift_expand           ifft2 (fft2 array * ramp)         -> fourier_shift
     ptychography_base._propagate_array, object_models._propagate_array
                                                 ifft2 (fft2 array * propagator)   -> propagate
     object_models._get_obj_patches              obj_flat[:, patch_indices]        -> gather
     ptycho_utils.sum_patches(_base)             zeros.index_add_(0, idx, values)  -> scatter
     dataset_models._set_patch_indices           wrap-around flat indices          -> patch_indices
     ptychography_base.overlap_projection        multislice transmit / propagate   -> overlap_projection
     detector_models.DetectorPixelated.forward   fftshift (sum_modes |fft2_ortho|^2)     -> detector_forward
     ptychography_base.estimate_intensities      sum_modes |fft2_ortho|^2 (corner)  -> estimate_intensities
     ptychography.fourier_projection             single state: a * exp(i angle F); mixed: a / est * F
                                                 -> fourier_projection / fourier_projection_mixed
     ptychography.gradient_step                  fourier_projection - overlap       -> gradient_step
   What is NOT computed here: exp / cos / sin / sqrt / angle.  They enter as parameters:
     hr hc : nat -> R      the two 1-D phase ramps  exp(-2 pi i fftfreq(k) s)  (oracle input in the
                           float runs, a character family in the theorems)
     p : nat -> nat -> R   the propagator array (output of _compute_propagator_arrays)
     ph : R -> R           z |-> exp (i angle z);   isq : R -> R   s |-> 1 / sqrt s  (0 at 0)
     rs rsi : R            1/sqrt(N1 N2) and sqrt(N1 N2)    (norm="ortho")
   REPAIRED behaviour: fourier_projection corner-centres the measured amplitudes with ifftshift2.
   The pinned commit calls torch.fft.fftshift there, which is a different permutation for odd
   ROI sizes (fixes/C16-fourier-projection-ifftshift.diff). *)
From Coq Require Import ZArith List Lia.
From QV.lib Require Import FinSum DFT DFT2.
Import ListNotations.

Section C16.
  Variable R : Type.
  Variables (rO rI : R) (radd rmul rsub : R -> R -> R).
  Variable conj : R -> R.
  Variables (N1 : nat) (w1 : Z -> R) (Ninv1 : R) (N2 : nat) (w2 : Z -> R) (Ninv2 : R).

  Infix "+" := radd.   Infix "*" := rmul.  Infix "-" := rsub.
  Notation img := (nat -> nat -> R).
  Notation fmul2_m := (fmul2_m rO radd rmul N1 w1 Ninv1 N2 w2 Ninv2).
  Notation dft2_m := (dft2_m rO radd rmul N1 w1 N2 w2).
  Notation idft2_m := (idft2_m rO radd rmul N1 w1 Ninv1 N2 w2 Ninv2).
  Notation suml := (suml rO radd).
  Notation sum2 := (sum2 rO radd N1 N2).

  Definition abs2 (z : R) : R := z * conj z.
  Definition pmul (a b : img) : img := fun i j => a i j * b i j.

  (* ---------------------------------------------------------------- Fourier translation *)
  (* fourier_translation_operator: ramp[k1, k2] = ramp_r[k1] * ramp_c[k2] *)
  Definition ramp2 (hr hc : nat -> R) : img := fun k1 k2 => hr k1 * hc k2.
  (* fourier_shift_expand on one 2-D array and one position *)
  Definition fourier_shift (hr hc : nat -> R) (x : img) : img := fmul2_m (ramp2 hr hc) x.

  (* ---------------------------------------------------------------- Fresnel propagation *)
  Definition propagate (p : img) (x : img) : img := fmul2_m p x.

  (* ---------------------------------------------------------------- gather / scatter *)
  (* obj_flat[patch_indices] *)
  Definition gather (obj : nat -> R) (idx : list nat) : list R := map obj idx.
  (* out = zeros(size); out.index_add_(0, idx, vals); value at flat position n *)
  Definition scatter (idx : list nat) (vals : list R) : nat -> R :=
    fun n => fold_left (fun acc iv => if Nat.eqb (fst iv) n then acc + snd iv else acc) (combine idx vals) rO.
  (* sum of products of two lists (truncating like zip) and of two flat arrays *)
  Definition ldot (a b : list R) : R := suml (map (fun ab => fst ab * snd ab) (combine a b)).
  Definition adot (size : nat) (a b : nat -> R) : R := sumn rO radd size (fun n => a n * b n).

  (* dataset_models._set_patch_indices for one position: rows (r0 + fftfreq_index) mod H etc. *)
  Definition fftfreq_index (N i : nat) : Z :=
    if Nat.ltb i ((N + 1) / 2) then Z.of_nat i else (Z.of_nat i - Z.of_nat N)%Z.
  Definition patch_indices (H W : nat) (r0 c0 : Z) : list nat :=
    flat_map (fun i => map (fun j =>
        (Z.to_nat ((r0 + fftfreq_index N1 i) mod Z.of_nat H) * W
         + Z.to_nat ((c0 + fftfreq_index N2 j) mod Z.of_nat W))%nat) (seq 0 N2)) (seq 0 N1).

  (* the flattened index tensor of a batch of positions (what sum_patches / obj_flat[...] receive) *)
  Definition batch_patch_indices (H W : nat) (pos : list (Z * Z)) : list nat :=
    flat_map (fun rc => patch_indices H W (fst rc) (snd rc)) pos.

  (* ---------------------------------------------------------------- multislice overlap *)
  (* for s in 1 .. S-1: overlap = obj[s] * propagate(overlap, propagators[s-1]) *)
  Fixpoint multislice (objs props : list img) (overlap : img) : img :=
    match objs, props with
    | o :: objs', p :: props' =>
        let q := propagate p overlap in
        multislice objs' props' (pmul o q)
    | _, _ => overlap
    end.
  (* overlap_projection(obj_patches, input_probe)[1] for one probe mode and one position *)
  Definition overlap_projection (objs props : list img) (probe : img) : img :=
    match objs with
    | [] => probe
    | o0 :: rest => multislice rest props (pmul o0 probe)
    end.

  (* ---------------------------------------------------------------- detector *)
  Variables (rs rsi : R).          (* 1/sqrt(N1 N2), sqrt(N1 N2) *)
  Definition dft2_ortho (x : img) : img := let X := dft2_m x in fun k1 k2 => rs * X k1 k2.
  Definition idft2_ortho (X : img) : img := let x := idft2_m X in fun n1 n2 => rsi * x n1 n2.

  (* estimate_intensities: sum over modes of |fft2_ortho|^2, corner-centred *)
  Definition estimate_intensities (psis : list img) : img :=
    let Fs := map dft2_ortho psis in
    fun k1 k2 => suml (map (fun F : img => abs2 (F k1 k2)) Fs).
  (* DetectorPixelated.forward: the same, fftshifted *)
  Definition detector_forward (psis : list img) : img :=
    let I := estimate_intensities psis in fftshift2 N1 N2 I.
  (* total predicted intensity of one pattern *)
  Definition total_intensity (psis : list img) : R := sum2 (detector_forward psis).

  (* ---------------------------------------------------------------- Fourier projection *)
  Variable ph : R -> R.            (* exp (i angle z) *)
  Variable isq : R -> R.           (* 1 / sqrt s, 0 at 0 *)
  Variable eps : R.                (* 1e-9 in estimate_amplitudes; 0 in the theorems *)

  (* num_probes == 1 *)
  Definition fourier_projection (a : img) (psi : img) : img :=
    let am := memo2 rO N1 N2 (ifftshift2 N1 N2 a) in
    let F := dft2_ortho psi in
    idft2_ortho (fun k1 k2 => am k1 k2 * ph (F k1 k2)).

  (* estimate_amplitudes(..., corner_centered=True) squared *)
  Definition est2 (Fs : list img) : img := fun k1 k2 => suml (map (fun F : img => abs2 (F k1 k2 + eps)) Fs).

  (* num_probes > 1 *)
  Definition fourier_projection_mixed (a : img) (psis : list img) : list img :=
    let am := memo2 rO N1 N2 (ifftshift2 N1 N2 a) in
    let Fs := map dft2_ortho psis in
    let md := memo2 rO N1 N2 (fun k1 k2 => am k1 k2 * isq (est2 Fs k1 k2)) in
    map (fun F : img => idft2_ortho (fun k1 k2 => md k1 k2 * F k1 k2)) Fs.

  Definition gradient_step (a : img) (psi : img) : img :=
    let P := fourier_projection a psi in fun i j => P i j - psi i j.
End C16.

Arguments abs2 {R} rmul conj z.
Arguments pmul {R} rmul a b _ _.
Arguments ramp2 {R} rmul hr hc _ _.
Arguments fourier_shift {R} rO radd rmul N1 w1 Ninv1 N2 w2 Ninv2 hr hc x _ _.
Arguments propagate {R} rO radd rmul N1 w1 Ninv1 N2 w2 Ninv2 p x _ _.
Arguments gather {R} obj idx.
Arguments scatter {R} rO radd idx vals _.
Arguments ldot {R} rO radd rmul a b.
Arguments adot {R} rO radd rmul size a b.
Arguments multislice {R} rO radd rmul N1 w1 Ninv1 N2 w2 Ninv2 objs props overlap _ _.
Arguments overlap_projection {R} rO radd rmul N1 w1 Ninv1 N2 w2 Ninv2 objs props probe _ _.
Arguments dft2_ortho {R} rO radd rmul N1 w1 N2 w2 rs x _ _.
Arguments idft2_ortho {R} rO radd rmul N1 w1 Ninv1 N2 w2 Ninv2 rsi X _ _.
Arguments estimate_intensities {R} rO radd rmul conj N1 w1 N2 w2 rs psis _ _.
Arguments detector_forward {R} rO radd rmul conj N1 w1 N2 w2 rs psis _ _.
Arguments total_intensity {R} rO radd rmul conj N1 w1 N2 w2 rs psis.
Arguments fourier_projection {R} rO radd rmul N1 w1 Ninv1 N2 w2 Ninv2 rs rsi ph a psi _ _.
Arguments est2 {R} rO radd rmul conj eps Fs _ _.
Arguments fourier_projection_mixed {R} rO radd rmul conj N1 w1 Ninv1 N2 w2 Ninv2 rs rsi isq eps a psis.
Arguments gradient_step {R} rO radd rmul rsub N1 w1 Ninv1 N2 w2 Ninv2 rs rsi ph a psi _ _.

(* ============================================================================================
   binary64 instance used by harness/props/C16.py (correspondence only; see lib/DFT_Float.v) *)
From Coq Require Import PrimFloat.
From QV.lib Require Import DFT_Float.

Module C16F.
  Definition img := nat -> nat -> cf.
  Definition T1 (g : grid) := ftw (gN1 g) (gT1 g).
  Definition T2 (g : grid) := ftw (gN2 g) (gT2 g).
  Definition frs (g : grid) : cf := cf_re (PrimFloat.div 1 (PrimFloat.sqrt (float_of_nat (gN1 g * gN2 g)))).
  Definition frsi (g : grid) : cf := cf_re (PrimFloat.sqrt (float_of_nat (gN1 g * gN2 g))).
  (* exp (i angle z): z / |z|, and 1 at z = 0 (torch.angle(0) = 0) *)
  Definition fph (z : cf) : cf :=
    let m := cfabs z in if PrimFloat.eqb m 0 then cf1 else cfdiv_re z m.
  (* a / est with est == 0 replaced by inf *)
  Definition fisq (s : cf) : cf :=
    let m := PrimFloat.sqrt (fst s) in if PrimFloat.eqb m 0 then cf0 else cf_re (PrimFloat.div 1 m).
  Definition feps : cf := cf_re 0x1.12e0be826d695p-30%float.   (* 1e-9 *)

  Definition shift (g : grid) (hr hc : list cf) (x : img) : img :=
    fourier_shift cf0 cfadd cfmul (gN1 g) (T1 g) (fNinv (gN1 g)) (gN2 g) (T2 g) (fNinv (gN2 g)) (sig1 hr) (sig1 hc) x.
  Definition prop (g : grid) (p x : img) : img :=
    propagate cf0 cfadd cfmul (gN1 g) (T1 g) (fNinv (gN1 g)) (gN2 g) (T2 g) (fNinv (gN2 g)) p x.
  Definition overlap (g : grid) (objs props : list img) (probe : img) : img :=
    overlap_projection cf0 cfadd cfmul (gN1 g) (T1 g) (fNinv (gN1 g)) (gN2 g) (T2 g) (fNinv (gN2 g)) objs props probe.
  Definition detector (g : grid) (psis : list img) : img :=
    detector_forward cf0 cfadd cfmul cfconj (gN1 g) (T1 g) (gN2 g) (T2 g) (frs g) psis.
  Definition fproj (g : grid) (a psi : img) : img :=
    fourier_projection cf0 cfadd cfmul (gN1 g) (T1 g) (fNinv (gN1 g)) (gN2 g) (T2 g) (fNinv (gN2 g))
                       (frs g) (frsi g) fph a psi.
  Definition fproj_mixed (g : grid) (a : img) (psis : list img) : list img :=
    fourier_projection_mixed cf0 cfadd cfmul cfconj (gN1 g) (T1 g) (fNinv (gN1 g)) (gN2 g) (T2 g) (fNinv (gN2 g))
                       (frs g) (frsi g) fisq feps a psis.
  Definition grad (g : grid) (a psi : img) : img :=
    gradient_step cf0 cfadd cfmul cfsub (gN1 g) (T1 g) (fNinv (gN1 g)) (gN2 g) (T2 g) (fNinv (gN2 g))
                       (frs g) (frsi g) fph a psi.
  Definition fscatter (size : nat) (idx : list nat) (vals : list cf) : list cf :=
    map (scatter cf0 cfadd idx vals) (seq 0 size).
  Definition fgather (obj : list cf) (idx : list nat) : list cf := gather (sig1 obj) idx.

  (* (max |got - want|, max |want|) printed exactly *)
  Definition cmp2 (g : grid) (got : img) (want : list (list cf)) : (Z * Z) * (Z * Z) :=
    (fZZ (maxerr2 (glst2 g got) want), fZZ (maxabs2 want)).
  Definition cmp1 (got want : list cf) : (Z * Z) * (Z * Z) := (fZZ (maxerr1 got want), fZZ (maxabs1 want)).
  Fixpoint cmp2s (g : grid) (gots : list img) (wants : list (list (list cf))) : list ((Z * Z) * (Z * Z)) :=
    match gots, wants with
    | a :: r1, b :: r2 => cmp2 g a b :: cmp2s g r1 r2
    | [], [] => []
    | _, _ => [((1, 99999), (0, 0))%Z]
    end.
End C16F.
