(* C08 — extension of model/C08_Model.v (definitions only; proofs in proof/C08_Proofs_Ext.v).

   (A) PATH RESOLUTION.  `AutoSerialize.save(path, mode, store)` first turns its arguments into
       the store it will write and the path it will write to:
           path = str(path)
           if store == "auto": store = "zip" if path.endswith(".zip") else "dir"
           if store == "zip" and not path.endswith(".zip"): path += ".zip"
           if os.path.exists(path) and mode != "o": raise FileExistsError          (CheckTarget)
           if store not in ("zip", "dir"): raise ValueError
           if store == "dir" and os.path.splitext(path)[1]: raise ValueError
       `resolve` is the first three lines, `validate` the last two, `has_ext` is
       `bool(os.path.splitext(p)[1])` of posixpath.  `call_prog` is the effect program of a CALL of
       save: every site that names the target (existence check, staging parent, removal, rename)
       is fed with the location of the RESOLVED name.  `save_prog_sites` is the same protocol
       with the three target sites as separate parameters (what a refactoring can get wrong).

   (B) FAULTS INSIDE CLEAN-UP HANDLERS AND INSIDE NON-ATOMIC PRIMITIVES.  `run_x E` is `run`
       with an environment E: `hrun E h` is what clean-up handler h does (it may fail part-way,
       leave the staging area behind, ...), `inside E e` is what effect e leaves behind when it
       is interrupted part-way (shutil.rmtree of a directory target is not atomic).  The
       standard environment `std_env` is the behaviour of C08_Model.run.

   (C) EXCEPTION CLASSES.  `run_exc` makes the class of the propagating exception explicit: a
       handler runs iff it `catches` that class.  `with` statements (what save() uses) catch
       every class, `except Exception:` clean-up would not catch KeyboardInterrupt/SystemExit. *)
From Coq Require Import String Ascii.
From QV.lib Require Import Prelude.
From QV.model Require Import C08_Model.
Local Open Scope string_scope.

(* ================================================================ (A) path resolution *)
Inductive store_arg := AAuto | AZip | ADir | AOther.      (* the `store` argument; AOther: any other value *)

(* s.endswith(suf): some suffix of s equals suf *)
Fixpoint ends_with (suf s : string) : bool :=
  if String.eqb s suf then true
  else match s with EmptyString => false | String _ s' => ends_with suf s' end.

Definition zipsuf : string := ".zip".

Definition infer (a : store_arg) (s : string) : store_arg :=
  match a with
  | AAuto => if ends_with zipsuf s then AZip else ADir
  | x => x
  end.

Definition resolve (a : store_arg) (s : string) : store_arg * string :=
  let st := infer a s in
  (st, match st with
       | AZip => if ends_with zipsuf s then s else s ++ zipsuf
       | _ => s
       end).

(* bool(posixpath.splitext(p)[1]): the last component has a dot after a non-dot character *)
Inductive ext_state := XLead | XBody | XDot.
Definition ext_step (x : ext_state) (c : ascii) : ext_state :=
  if Ascii.eqb c "/"%char then XLead
  else if Ascii.eqb c "."%char then match x with XLead => XLead | _ => XDot end
  else match x with XLead => XBody | y => y end.
Fixpoint ext_scan (x : ext_state) (s : string) : ext_state :=
  match s with EmptyString => x | String c s' => ext_scan (ext_step x c) s' end.
Definition has_ext (s : string) : bool :=
  match ext_scan XLead s with XDot => true | _ => false end.

Inductive verdict := VStore (st : store) | VBadStore | VBadDirName.
Definition validate (st : store_arg) (r : string) : verdict :=
  match st with
  | AZip => VStore SZip
  | ADir => if has_ext r then VBadDirName else VStore SDir
  | _ => VBadStore
  end.

(* the protocol with the three sites that name the target kept apart: pc = existence check,
   pr = removal of the old target, pn = destination of the final rename *)
Definition save_prog_sites (st : store) (m : mode) (pc pr pn ts tz : path) (ws zs : list item) : list effect :=
  CheckTarget m pc :: MkTemp ts tz ::
  map (WriteItem ts) ws
  ++ match st with SZip => zip_phase tz zs | SDir => [] end
  ++ [RemoveTarget pr; Rename (staged st ts tz) pn].

(* sites of an effect that name the target / the staging area *)
Definition target_sites (e : effect) : list path :=
  match e with
  | CheckTarget _ q => [q] | RemoveTarget q => [q] | Rename _ d => [d] | MkDir q => [q]
  | _ => []
  end.
Definition staging_sites (e : effect) : list path :=
  match e with
  | MkTemp ts tz => [ts; tz] | WriteItem d _ => [d] | ZipOpen z => [z] | ZipAdd z _ => [z]
  | ZipClose z => [z] | Rename s _ => [s]
  | _ => []
  end.

Inductive outcome_c := CDone | CExists | CValue | COther | CFaulted.
Definition lift_outcome (o : outcome) : outcome_c :=
  match o with Done => CDone | ErrExists => CExists | ErrOther => COther | Faulted => CFaulted end.

Section Call.
  Variable loc : string -> path.            (* os.path.abspath: the location a name denotes *)
  Variable tmp : path -> path * path.       (* staging paths of TemporaryDirectory(dir = parent of the target) *)

  Definition call_target (a : store_arg) (s : string) : path := loc (snd (resolve a s)).

  (* effects of the call save(s, mode = m, store = a) of an object with item writes ws / members zs *)
  Definition call_prog (a : store_arg) (s : string) (m : mode) (ws zs : list item) : list effect :=
    let p := call_target a s in
    match validate (fst (resolve a s)) (snd (resolve a s)) with
    | VStore st => save_prog st m p (fst (tmp p)) (snd (tmp p)) ws zs
    | _ => [CheckTarget m p]                (* ... then ValueError: see run_call *)
    end.

  Definition run_call (k : nat) (a : store_arg) (s : string) (m : mode) (ws zs : list item) (fs : fsys)
    : fsys * outcome_c :=
    let r := run k (call_prog a s m ws zs) fs in
    match validate (fst (resolve a s)) (snd (resolve a s)) with
    | VStore _ => (fst r, lift_outcome (snd r))
    | _ => (fst r, match snd r with Done => CValue | o => lift_outcome o end)
    end.
End Call.

(* ================================================================ (B) faults inside handlers / effects *)
Record env := { hrun : handler -> fsys -> fsys;
                inside : effect -> fsys -> fsys }.

Definition std_env : env := {| hrun := run_handler; inside := fun _ fs => fs |}.

Fixpoint unwind_x (E : env) (hs : list handler) (fs : fsys) : fsys :=
  match hs with
  | [] => fs
  | h :: r => unwind_x E r (hrun E h fs)
  end.

Fixpoint run_prefix_x (E : env) (k : nat) (prog : list effect) (hs : list handler) (fs : fsys) {struct prog} : res :=
  match prog with
  | [] => Continue k hs fs
  | e :: rest =>
      match k with
      | O => Stopped (unwind_x E (fault_handlers e hs) (inside E e fs)) Faulted
      | S k' =>
          match step e fs with
          | inl err => Stopped (unwind_x E hs fs) err
          | inr fs1 => run_prefix_x E k' rest (handlers_after e hs) fs1
          end
      end
  end.

Definition run_x (E : env) (k : nat) (prog : list effect) (fs : fsys) : fsys * outcome :=
  match run_prefix_x E k prog [] fs with
  | Stopped fs' o => (fs', o)
  | Continue _ hs fs' => (unwind_x E hs fs', Done)
  end.

(* the state in which the run stops, before any handler has run *)
Inductive midres :=
| MFault (e : effect) (hs : list handler) (fs : fsys)     (* exception raised at e; hs = handlers that will run *)
| MErr (o : outcome) (hs : list handler) (fs : fsys)      (* an effect failed by itself *)
| MEnd (k : nat) (hs : list handler) (fs : fsys).         (* program finished *)

Fixpoint mid (k : nat) (prog : list effect) (hs : list handler) (fs : fsys) {struct prog} : midres :=
  match prog with
  | [] => MEnd k hs fs
  | e :: rest =>
      match k with
      | O => MFault e (fault_handlers e hs) fs
      | S k' =>
          match step e fs with
          | inl err => MErr err hs fs
          | inr fs1 => mid k' rest (handlers_after e hs) fs1
          end
      end
  end.

Definition finish_x (E : env) (r : midres) : fsys * outcome :=
  match r with
  | MFault e hs fs => (unwind_x E hs (inside E e fs), Faulted)
  | MErr o hs fs => (unwind_x E hs fs, o)
  | MEnd _ hs fs => (unwind_x E hs fs, Done)
  end.

(* sub-store: what shutil.rmtree of a directory store can leave when it stops part-way *)
Fixpoint sublist (a b : list item) : bool :=
  match a, b with
  | [], _ => true
  | _ :: _, [] => false
  | x :: a', y :: b' => if Z.eqb x y then sublist a' b' else sublist a b'
  end.

(* environment with an interruptible removal: the directory target keeps the items `keep` selects *)
Definition rm_env (keep : list item -> list item) (p : path) : env :=
  {| hrun := run_handler;
     inside := fun e fs => match e with
                           | RemoveTarget q =>
                               if Nat.eqb q p then match fs p with Dir c => upd fs p (Dir (keep c)) | _ => fs end
                               else fs
                           | _ => fs
                           end |}.

(* environment whose TemporaryDirectory clean-up fails: the staging area stays *)
Definition stuck_env : env :=
  {| hrun := fun h fs => match h with HRmTemp _ _ => fs | _ => run_handler h fs end;
     inside := fun _ fs => fs |}.

(* ================================================================ (C) exception classes *)
Inductive exc_class := XException | XKeyboardInterrupt | XSystemExit | XGeneratorExit | XBase (tag : Z).

Definition is_exception (x : exc_class) : bool := match x with XException => true | _ => false end.

(* how a clean-up site is written: a `with` statement / try-finally runs for every class, an
   `except Exception:` clause only for subclasses of Exception *)
Inductive guard := GWith | GExceptException.
Definition catches (g : guard) (x : exc_class) : bool :=
  match g with GWith => true | GExceptException => is_exception x end.

Fixpoint unwind_exc (g : handler -> guard) (x : exc_class) (hs : list handler) (fs : fsys) : fsys :=
  match hs with
  | [] => fs
  | h :: r => unwind_exc g x r (if catches (g h) x then run_handler h fs else fs)
  end.

(* a fault of class x at effect k (k >= length prog: normal exit, where every handler runs) *)
Definition run_exc (g : handler -> guard) (x : exc_class) (k : nat) (prog : list effect) (fs : fsys) : fsys * outcome :=
  match mid k prog [] fs with
  | MFault e hs f => (unwind_exc g x hs f, Faulted)
  | MErr o hs f => (unwind_exc g XException hs f, o)        (* the effect's own error is an OSError *)
  | MEnd _ hs f => (unwind hs f, Done)
  end.

Definition with_guards : handler -> guard := fun _ => GWith.

(* ================================================================ observation (harness glue) *)
Definition codes_of (s : string) : list Z :=
  map (fun c => Z.of_nat (nat_of_ascii c)) (list_ascii_of_string s).
Definition str_of (l : list Z) : string :=
  string_of_list_ascii (map (fun z => ascii_of_nat (Z.to_nat z)) l).

Definition store_arg_code (a : store_arg) : Z :=
  match a with AAuto => 0 | AZip => 1 | ADir => 2 | AOther => 3 end%Z.
Definition verdict_code (v : verdict) : Z :=
  match v with VStore SZip => 1 | VStore SDir => 2 | VBadStore => 3 | VBadDirName => 4 end%Z.
Definition outcome_c_code (o : outcome_c) : Z :=
  match o with CDone => 0 | CExists => 1 | COther => 2 | CFaulted => 3 | CValue => 4 end%Z.

(* (resolved store, resolved name, verdict) of a call *)
Definition resolve_obs (a : store_arg) (name : list Z) : Z * list Z * Z :=
  let r := resolve a (str_of name) in
  (store_arg_code (fst r), codes_of (snd r), verdict_code (validate (fst r) (snd r))).

(* a call on the scenario file system (resolved target = path 0, staging 1/2, siblings 3/4):
   per fault index k: (class of the target, target unmodified, call outcome, other paths unchanged) *)
Definition call_scen (a : store_arg) (name : list Z) (m : mode) (pre : entry) (n nz : nat)
  : (Z * list Z * Z) * list (Z * bool * Z * bool) :=
  let s := str_of name in
  let ws := zseq 0 n in
  let zs := zseq 500 nz in
  let fs0 := scen_fs pre in
  let prog := call_prog (fun _ => 0) (fun _ => (1, 2)) a s m ws zs in
  let final := match validate (fst (resolve a s)) (snd (resolve a s)) with
               | VStore st => final_entry st ws zs | _ => Absent end in
  (resolve_obs a name,
   map (fun k =>
          let r := run_call (fun _ => 0) (fun _ => (1, 2)) k a s m ws zs fs0 in
          (classify scen_markers fs0 (fst r) 0 final,
           entry_eqb (fst r 0) pre,
           outcome_c_code (snd r),
           forallb (fun q => entry_eqb (fst r q) (fs0 q)) [1; 2; 3; 4; 5]))
       (seq 0 (S (length prog)))).

(* what load() returns for a target holding entry e: 0 error | 1 an object *)
Definition load_obs (e : entry) : Z :=
  match load_model scen_markers (fun _ => e) 0%nat with LErr => 0%Z | LObj _ => 1%Z end.

(* clean-up failure / interrupted removal on the scenario file system, fault index k:
   (class of the target, target unmodified, outcome, siblings 3/4/5 unchanged, staging 1/2 unchanged) *)
Definition observe_x (E : env) (prog : list effect) (pre final : entry) : list (Z * bool * Z * bool * bool) :=
  let fs0 := scen_fs pre in
  map (fun k =>
         let r := run_x E k prog fs0 in
         (classify scen_markers fs0 (fst r) 0 final,
          entry_eqb (fst r 0) pre,
          outcome_code (snd r),
          forallb (fun q => entry_eqb (fst r q) (fs0 q)) [3; 4; 5],
          forallb (fun q => entry_eqb (fst r q) (fs0 q)) [1; 2]))
      (seq 0 (S (length prog))).

Definition scen_stuck (st : store) (m : mode) (pre : entry) (n nz : nat) :=
  let ws := zseq 0 n in
  let zs := zseq 500 nz in
  observe_x stuck_env (save_prog st m 0 1 2 ws zs) pre (final_entry st ws zs).

(* interrupted removal keeping the first j items of the old directory store *)
Definition scen_rm (st : store) (pre : entry) (n nz j : nat) :=
  let ws := zseq 0 n in
  let zs := zseq 500 nz in
  observe_x (rm_env (firstn j) 0) (save_prog st MO 0 1 2 ws zs) pre (final_entry st ws zs).
