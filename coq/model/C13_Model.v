(* C13 — image registration (cross-correlation shift estimators).  Executable model of
     quantem.core.utils.imaging_utils.cross_correlation_shift  + dft_upsample        (NumPy)
     quantem.core.utils.imaging_utils.cross_correlation_shift_torch
       + align_images_fourier_torch + upsampled_correlation_torch + dftUpsample_torch (torch)
   as exact arithmetic on Q, parameterised by
     cc  : nat -> nat -> Q                  the real correlation array  real(ifft2(F_ref * conj F_im))
     ups : Q -> Q -> nat -> nat -> Q        the upsampled local window: `ups x y a b` is entry [a,b] of
                                            dft_upsample(cc, up, (x, y))   (NumPy; x,y = refined peak)
                                            dftUpsample_torch(conj cc, up, (x, y)) (torch; x,y = upsampleCenter)
   The NumPy model is the REPAIRED behaviour (fixes/C13-numpy-dft-upsample.diff, committed in /repo:
   the window is centred on index du and its samples are taken at x0 + (a - du)/up; the two lines
   of the shipped code that differ are kept as [np_offset_shipped] / [np_kern_phase_shipped] for
   the record; fixes/C13-max-shift-parabola.diff: see [np_stage1]; and
   fixes/C13-zero-frequency-term.diff: both estimators set the zero-frequency bin of the cross
   spectrum to 0 before the inverse transform, so `cc` is the correlation MINUS ITS MEAN
   ([zero_dc]; proof/C13_Proofs_DC.v: every quantity below is unchanged by that constant), the
   max_shift mask is filled with -inf ([maskedo], None = -inf) and the NumPy parabola returns 0 on
   a zero denominator ([gparab]) as the torch code already did).
   Definitions only; proofs are in proof/C13_Proofs.v. *)
From QV.lib Require Import Prelude.
From Coq Require Import QArith Qround.
Local Close Scope Q_scope.

(* ---------------------------------------------------------------- Q helpers *)
Definition Qltb (x y : Q) : bool := negb (Qle_bool y x).
Definition qN (n : nat) : Q := inject_Z (Z.of_nat n).

(* python / numpy float `x % n` for a positive divisor: x - n * floor(x / n) *)
Definition qmod (x : Q) (n : nat) : Q := (x - qN n * inject_Z (Qfloor (x / qN n)))%Q.

(* torch.round: half to even *)
Definition round_he (x : Q) : Z :=
  let f := Qfloor x in
  let r := (x - inject_Z f)%Q in
  if Qltb r (1 # 2) then f
  else if Qltb (1 # 2) r then (f + 1)%Z
  else if Z.even f then f else (f + 1)%Z.

(* ---------------------------------------------------------------- argmax *)
(* xp.argmax / torch.argmax on the flattened array: index of the FIRST maximum *)
Fixpoint argmax (f : nat -> Q) (n : nat) : nat :=
  match n with
  | O => O
  | S k => let b := argmax f k in if Qltb (f b) (f k) then k else b
  end.

(* the same on arrays that may hold -inf (None): -inf < every number, -inf is not < -inf *)
Definition oltb (a b : option Q) : bool :=
  match a, b with
  | _, None => false
  | None, Some _ => true
  | Some x, Some y => Qltb x y
  end.

Fixpoint argmaxo (f : nat -> option Q) (n : nat) : nat :=
  match n with
  | O => O
  | S k => let b := argmaxo f k in if oltb (f b) (f k) then k else b
  end.

(* row-major flattening of an (_ x ncols) array; unravel_index i = (i / ncols, i mod ncols) *)
Definition flat (ncols : nat) (c : nat -> nat -> Q) (i : nat) : Q := c (i / ncols) (i mod ncols).

Definition argmax2 (nrows ncols : nat) (c : nat -> nat -> Q) : nat * nat :=
  let i := argmax (flat ncols c) (nrows * ncols) in (i / ncols, i mod ncols).

Definition flato (ncols : nat) (c : nat -> nat -> option Q) (i : nat) : option Q := c (i / ncols) (i mod ncols).
Definition argmax2o (nrows ncols : nat) (c : nat -> nat -> option Q) : nat * nat :=
  let i := argmaxo (flato ncols c) (nrows * ncols) in (i / ncols, i mod ncols).

(* (x0 + d) mod n on indices, d = -1, +1 *)
Definition wrapi (n : nat) (z : Z) : nat := Z.to_nat (z mod Z.of_nat n).
Definition prv (n i : nat) : nat := wrapi n (Z.of_nat i - 1).
Definition nxt (n i : nat) : nat := wrapi n (Z.of_nat i + 1).

(* ---------------------------------------------------------------- frequencies, mask *)
(* np.fft.fftfreq(n, 1/n)[k]: the signed integer frequency / pixel offset of index k *)
Definition fz (n : nat) (k : nat) : Z :=
  if (2 * Z.of_nat k <? Z.of_nat n)%Z then Z.of_nat k else (Z.of_nat k - Z.of_nat n)%Z.

(* (ifftshift(arange(n)) - n // 2)[k]   as coded in dft_upsample / dftUpsample_torch *)
Definition np_freq (n : nat) (k : nat) : Z :=
  ((Z.of_nat k + Z.of_nat n / 2) mod Z.of_nat n - Z.of_nat n / 2)%Z.

(* cc_search[x^2 + y^2 >= max_shift^2] = -inf   (repaired; None = -inf).  Without max_shift the
   search array is the correlation itself *)
Definition maskedo (M N : nat) (ms : option Q) (cc : nat -> nat -> Q) (k l : nat) : option Q :=
  match ms with
  | None => Some (cc k l)
  | Some m =>
    if Qle_bool (m * m) (inject_Z (fz M k * fz M k + fz N l * fz N l)) then None else Some (cc k l)
  end.

(* as shipped (before fixes/C13-zero-frequency-term.diff): cc_real[x^2 + y^2 >= max_shift^2] = 0 *)
Definition masked (M N : nat) (ms : option Q) (cc : nat -> nat -> Q) (k l : nat) : Q :=
  match ms with
  | None => cc k l
  | Some m =>
    if Qle_bool (m * m) (inject_Z (fz M k * fz M k + fz N l * fz N l)) then 0%Q else cc k l
  end.

(* ---------------------------------------------------------------- parabolas *)
(* NumPy parabolic_peak: (v2 - v0) / (4 v1 - 2 v2 - 2 v0); a zero denominator gives nan/inf,
   modelled as None (the returned shift is then not a finite number) *)
Definition parab (v0 v1 v2 : Q) : option Q :=
  let d := (4 * v1 - 2 * v2 - 2 * v0)%Q in
  if Qeq_bool d 0 then None else Some ((v2 - v0) / d)%Q.

(* torch coarse refinement: `... / denom if denom != 0 else 0` *)
Definition tparab (v0 v1 v2 : Q) : Q :=
  let d := (4 * v1 - 2 * v2 - 2 * v0)%Q in
  if Qeq_bool d 0 then 0%Q else ((v2 - v0) / d)%Q.

(* NumPy parabolic_peak as REPAIRED (fixes/C13-zero-frequency-term.diff): a zero denominator (flat
   3-point neighbourhood) gives 0.0; it is always a finite number *)
Definition gparab (v0 v1 v2 : Q) : option Q :=
  match parab v0 v1 v2 with Some d => Some d | None => Some 0%Q end.

(* the parabola of the second refinement: guarded in cross_correlation_shift (g = true), the
   plain quotient in upsampled_correlation_torch (g = false) *)
Definition par (g : bool) : Q -> Q -> Q -> option Q := if g then gparab else parab.

(* ---------------------------------------------------------------- zero-frequency bin *)
(* cc[0, 0] = 0 before ifft2: the correlation array minus its mean (proof/C13_Proofs_DC.v) *)
Fixpoint msum (f : nat -> Q) (n : nat) : Q :=
  match n with O => 0%Q | S k => (msum f k + f k)%Q end.
Definition mean2 (M N : nat) (c : nat -> nat -> Q) : Q :=
  (msum (fun k => msum (fun l => c k l) N) M / (qN M * qN N))%Q.
Definition zero_dc (M N : nat) (c : nat -> nat -> Q) (k l : nat) : Q := (c k l - mean2 M N c)%Q.

(* ---------------------------------------------------------------- centring *)
(* (t + 0.5 n) % n - 0.5 n      (NumPy);   ((t + n / 2) % n) - n / 2      (torch) *)
Definition centre (n : nat) (t : Q) : Q := (qmod (t + qN n / 2) n - qN n / 2)%Q.

(* the centred representative of an integer peak index *)
Definition centre_int (n : nat) (p : nat) : Z := fz n p.

(* ---------------------------------------------------------------- NumPy, stage 1 *)
(* coarse peak (p, q) and the parabolically refined (x0, y0) = ((p + dx) % M, (q + dy) % N) *)
(* REPAIRED behaviour (fixes/C13-max-shift-parabola.diff): the max_shift mask restricts only the
   search for the coarse peak; the parabola reads the unmasked correlation.  (As shipped the
   parabola read the masked array: [np_stage1_shipped].)  fixes/C13-zero-frequency-term.diff: the
   mask holds -inf, the parabola is guarded (the result is always Some: C13_numpy_always_finite) *)
Definition np_stage1 (M N : nat) (ms : option Q) (cc : nat -> nat -> Q)
  : option ((nat * nat) * (Q * Q)) :=
  let '(p, q) := argmax2o M N (maskedo M N ms cc) in
  let c := cc in
  match gparab (c (prv M p) q) (c p q) (c (nxt M p) q),
        gparab (c p (prv N q)) (c p q) (c p (nxt N q)) with
  | Some dx, Some dy => Some ((p, q), (qmod (qN p + dx) M, qmod (qN q + dy) N))
  | _, _ => None
  end.

Definition np_stage1_shipped (M N : nat) (ms : option Q) (cc : nat -> nat -> Q)
  : option ((nat * nat) * (Q * Q)) :=
  let c := masked M N ms cc in
  let '(p, q) := argmax2 M N c in
  match parab (c (prv M p) q) (c p q) (c (nxt M p) q),
        parab (c p (prv N q)) (c p q) (c p (nxt N q)) with
  | Some dx, Some dy => Some ((p, q), (qmod (qN p + dx) M, qmod (qN q + dy) N))
  | _, _ => None
  end.

(* ---------------------------------------------------------------- NumPy, upsampled window *)
(* du = ceil(1.5 * up); the window has 2 du + 1 samples per axis, row = arange(-du, du + 1) *)
Definition du (up : nat) : nat := (3 * up + 1) / 2.
Definition np_win (up : nat) : nat := 2 * du up + 1.
Definition np_row (up : nat) (a : nat) : Z := (Z.of_nat a - Z.of_nat (du up))%Z.

(* position (in pixels of the correlation array) of window sample a *)
Definition np_coord (up : nat) (x0 : Q) (a : nat) : Q := (x0 + inject_Z (np_row up a) / qN up)%Q.

(* the argument of exp(2 pi i * _) in entry [a, k] of the repaired kernel
     exp(2j pi / (n up) * outer(row + up * shift, ifftshift(arange n) - n // 2)) *)
Definition np_kern_phase (n up : nat) (x0 : Q) (a k : nat) : Q :=
  (1 / (qN n * qN up) * ((inject_Z (np_row up a) + qN up * x0) * inject_Z (np_freq n k)))%Q.

(* ... and of the kernel as shipped:
     exp(-2j pi / (n up) * outer(row, ifftshift(arange n) - n // 2 + (shift - n // 2))) *)
Definition np_kern_phase_shipped (n up : nat) (x0 : Q) (a k : nat) : Q :=
  (- (1 / (qN n * qN up)) *
   (inject_Z (np_row up a) * (inject_Z (np_freq n k) + (x0 - inject_Z (Z.of_nat n / 2)))))%Q.

(* local argmax (lx, ly) and the second parabola; `icc.shape != (3,3)` (peak on the border of
   the window) falls back to dxf = dyf = 0 *)
Definition win_refine (g : bool) (W : nat) (loc : nat -> nat -> Q) : option ((nat * nat) * (Q * Q)) :=
  let '(lx, ly) := argmax2 W W loc in
  if ((lx =? 0) || (W <=? lx + 1) || (ly =? 0) || (W <=? ly + 1))%bool
  then Some ((lx, ly), (0%Q, 0%Q))
  else match par g (loc (lx - 1) ly) (loc lx ly) (loc (lx + 1) ly),
             par g (loc lx (ly - 1)) (loc lx ly) (loc lx (ly + 1)) with
       | Some dxf, Some dyf => Some ((lx, ly), (dxf, dyf))
       | _, _ => None
       end.

(* shifts = x0 + (peak - du) / up + dxf / up           (repaired: the window centre is du) *)
Definition np_offset (up : nat) (x0 : Q) (lx : nat) (dxf : Q) : Q :=
  (x0 + inject_Z (Z.of_nat lx - Z.of_nat (du up)) / qN up + dxf / qN up)%Q.

(* as shipped: (peak - upsample_factor) / upsample_factor *)
Definition np_offset_shipped (up : nat) (x0 : Q) (lx : nat) (dxf : Q) : Q :=
  (x0 + inject_Z (Z.of_nat lx - Z.of_nat up) / qN up + dxf / qN up)%Q.

(* ---------------------------------------------------------------- NumPy estimator *)
Definition np_shift (M N : nat) (ms : option Q) (up : nat)
           (cc : nat -> nat -> Q) (ups : Q -> Q -> nat -> nat -> Q) : option (Q * Q) :=
  match np_stage1 M N ms cc with
  | None => None
  | Some (_, (x0, y0)) =>
    if (up <=? 1) then Some (centre M x0, centre N y0)
    else match win_refine true (np_win up) (ups x0 y0) with
         | None => None
         | Some ((lx, ly), (dxf, dyf)) =>
           Some (centre M (np_offset up x0 lx dxf), centre N (np_offset up y0 ly dyf))
         end
  end.

(* ---------------------------------------------------------------- torch estimator *)
(* align_images_fourier_torch up to the half-pixel rounding *)
Definition torch_half (M N : nat) (cc : nat -> nat -> Q) : (nat * nat) * (Q * Q) :=
  let '(p, q) := argmax2 M N cc in
  let dx := tparab (cc (prv M p) q) (cc p q) (cc (nxt M p) q) in
  let dy := tparab (cc p (prv N q)) (cc p q) (cc p (nxt N q)) in
  ((p, q), (inject_Z (round_he ((qN p + dx) * 2)) / 2, inject_Z (round_he ((qN q + dy) * 2)) / 2)%Q).

(* upsampled_correlation_torch: numRow = ceil(1.5 up), globalShift = floor(numRow / 2) *)
Definition t_win (up : nat) : nat := du up.
Definition t_gs (up : nat) : nat := du up / 2.
(* xyShift rounded to the upsampled grid *)
Definition t_round (up : nat) (x : Q) : Q := (inject_Z (round_he (x * qN up)) / qN up)%Q.
(* upsampleCenter = globalShift - up * xyShift : the argument handed to dftUpsample_torch *)
Definition t_center (up : nat) (xs : Q) : Q := (qN (t_gs up) - qN up * xs)%Q.
(* row_coords[a] = a - upsampleCenter, in upsampled pixels; position in pixels: / up *)
Definition t_coord (up : nat) (ctr : Q) (a : nat) : Q := ((qN a - ctr) / qN up)%Q.
(* the argument of exp(2 pi i * _) in entry [a, k] of rowKern (applied to conj(cc), result conj'd) *)
Definition t_kern_phase (n up : nat) (ctr : Q) (a k : nat) : Q :=
  (- (1 / (qN n * qN up)) * ((qN a - ctr) * inject_Z (np_freq n k)))%Q.

Definition t_offset (up : nat) (xs : Q) (r : nat) (dx : Q) : Q :=
  (xs + (inject_Z (Z.of_nat r - Z.of_nat (t_gs up)) + dx) / qN up)%Q.

Definition torch_align (M N up : nat) (cc : nat -> nat -> Q) (ups : Q -> Q -> nat -> nat -> Q)
  : option (Q * Q) :=
  let '(_, (x0, y0)) := torch_half M N cc in
  if (up <=? 2) then Some (x0, y0)
  else
    let xs := t_round up x0 in
    let ys := t_round up y0 in
    match win_refine false (t_win up) (ups (t_center up xs) (t_center up ys)) with
    | None => None
    | Some ((r, c), (dx, dy)) => Some (t_offset up xs r dx, t_offset up ys c dy)
    end.

Definition torch_shift (M N up : nat) (cc : nat -> nat -> Q) (ups : Q -> Q -> nat -> nat -> Q)
  : option (Q * Q) :=
  match torch_align M N up cc ups with
  | None => None
  | Some (x, y) => Some (centre M x, centre N y)
  end.

(* ---------------------------------------------------------------- harness glue *)
(* arrays cross the boundary as flat row-major lists of integers z, meaning z / scale *)
Definition arr (ncols : nat) (scale : positive) (l : list Z) (i j : nat) : Q :=
  Qmake (nth (i * ncols + j) l 0%Z) scale.
(* results are printed as lists [num; den] (nested pairs print ambiguously) *)
Definition showq (x : Q) : list Z := let y := Qred x in [Qnum y; Zpos (Qden y)].
Definition showqq (r : option (Q * Q)) : option (list (list Z)) :=
  match r with None => None | Some (x, y) => Some [showq x; showq y] end.
