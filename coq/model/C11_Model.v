(* C11 — ragged Vector.  Executable model of quantem.core.datastructures.vector
     Vector.from_shape / from_data (with validators.validate_shape / validate_fields /
     validate_num_fields / validate_vector_units / validate_vector_data_for_inference /
     validate_vector_data), get_data, set_data, __getitem__, __setitem__, add_fields,
     remove_fields, copy, flatten, _FieldView.{__iadd__ ...,flatten,set_flattened}
     the attribute setters fields / units / shape / data / name, _FieldView.__getitem__, save + load
   as written in /repo WITH the proposed repairs fixes/C11-*.diff applied
     (fresh metadata dict per vector; N-D traversal in get_data/__getitem__; one value per
      addressed cell in set_data; index-count check in __setitem__; ndim check in the validators;
      count / layout / nesting checks in the fields / shape / data setters).
   State = a heap of cell arrays (id = position, allocation appends) + the live Vector objects.
   Object identity of numpy arrays is the heap id; the nested Python lists are `tree`s
   (C11_Heap).  Field names / units are integers (harness: z >= 0 <-> "field_z", z < 0 <-> "g|z|";
   unit 0 <-> "none").  Errors are values; an op that raises half-way leaves the partially
   mutated state, as the Python does.
   Definitions only; proofs are in proof/C11_Proofs.v. *)
From QV.lib Require Import Prelude C11_Heap.
From Coq Require Import QArith Qround.
Local Close Scope Q_scope.

(* ---------------------------------------------------------------- data *)
(* a 2-D float array: `ncols` is kept explicitly because an array may have zero rows *)
Record cell := mkCell { ncols : nat; rows : list (list Q) }.
Definition wf_cellb (c : cell) : bool := forallb (fun r => length r =? ncols c) (rows c).

Record vec := mkVec {
  vshape : list nat;      (* _shape *)
  vfields : list Z;       (* _fields *)
  vunits : list Z;        (* _units *)
  vdata : tree;           (* _data: nested lists, leaves None | array id *)
  vmeta : nat             (* identity of the _metadata dict *)
}.

Record state := mkState { heap : list cell; vecs : list vec; nmeta : nat }.
Definition init : state := mkState [] [] 0.

Inductive err := EType | EValue | EIndex | EKey.

Inductive res :=
| RErr (e : err)
| RSkip                              (* call shape outside the modelled API surface (never generated) *)
| RNone                              (* returned None *)
| RCell (c : leaf)                   (* one cell (array or None) *)
| RCells (l : list leaf)             (* list of cells *)
| RNew                               (* a new Vector, appended to `vecs` *)
| RFlat (nc : nat) (r : list (list Q))   (* Vector.flatten(): shape (len r, nc) *)
| RCol (l : list Q).                 (* _FieldView.flatten() *)

(* ---------------------------------------------------------------- small helpers *)
Definition memz (x : Z) (l : list Z) : bool := existsb (Z.eqb x) l.
Fixpoint nodupb (l : list Z) : bool :=
  match l with [] => true | x :: r => negb (memz x r) && nodupb r end.
Fixpoint index_of (x : Z) (l : list Z) : option nat :=
  match l with
  | [] => None
  | y :: r => if Z.eqb x y then Some 0 else option_map S (index_of x r)
  end.

Fixpoint mapM {A B : Type} (f : A -> option B) (l : list A) : option (list B) :=
  match l with
  | [] => Some []
  | x :: r => match f x with
              | Some y => match mapM f r with Some ys => Some (y :: ys) | None => None end
              | None => None
              end
  end.

Definition ncols_at (h : list cell) (id : nat) : option nat := option_map ncols (nth_error h id).

(* ---------------------------------------------------------------- schema validation (from_shape) *)
(* validate_shape, validate_fields / validate_num_fields, validate_vector_units: every failure
   is a ValueError, so one `None` suffices *)
Definition mk_schema (shape : list Z) (nf : option Z) (fields units : option (list Z))
  : option (list nat * list Z * list Z) :=
  if existsb (fun d => (d <=? 0)%Z) shape then None else
  match (match fields with
         | Some fs =>
             if nodupb fs then
               match nf with
               | Some k => if (k =? Z.of_nat (length fs))%Z then Some fs else None
               | None => Some fs
               end
             else None
         | None =>
             match nf with
             | Some k => if (k <=? 0)%Z then None else Some (map Z.of_nat (seq 0 (Z.to_nat k)))
             | None => None
             end
         end) with
  | None => None
  | Some fs =>
      match units with
      | None => Some (map Z.to_nat shape, fs, repeat 0%Z (length fs))
      | Some us => if length us =? length fs then Some (map Z.to_nat shape, fs, us) else None
      end
  end.

(* cls(...): _data = nested_list(shape, None) is overwritten by the callers that pass `t`;
   metadata: a fresh dict per vector (repaired default argument) *)
Definition push_vec (s : state) (h : list cell) (sh : list nat) (fs us : list Z) (t : tree) : state :=
  mkState h (vecs s ++ [mkVec sh fs us t (nmeta s)]) (S (nmeta s)).

Definition set_vec (s : state) (h : list cell) (vi : nat) (v : vec) : state :=
  mkState h (upd_nth vi v (vecs s)) (nmeta s).

Definition with_data (v : vec) (t : tree) : vec :=
  mkVec (vshape v) (vfields v) (vunits v) t (vmeta v).

Definition op_from_shape (s : state) (shape : list Z) (nf : option Z) (fields units : option (list Z))
  : state * res :=
  match mk_schema shape nf fields units with
  | None => (s, RErr EValue)
  | Some (sh, fs, us) => (push_vec s (heap s) sh fs us (tfill sh None), RNew)
  end.

(* ---------------------------------------------------------------- array arguments *)
Inductive aval :=
| ANew (c : cell)            (* a fresh 2-D ndarray (or a list of rows, converted by np.array) *)
| AOld (vi pos : nat)        (* the object currently stored at leaf `pos` of live vector `vi` (may be None) *)
| ABadDim                    (* an ndarray whose ndim is not 2 *)
| ANotArr.                   (* not an ndarray *)

Inductive rval := VNot | VBad | VId (id : nat).

Definition eval_aval (vs : list vec) (h : list cell) (a : aval) : list cell * rval :=
  match a with
  | ANew c => if wf_cellb c then (h ++ [c], VId (length h)) else (h, VNot)
  | AOld vi pos =>
      match nth_error vs vi with
      | Some v => match nth_error (leaves (vdata v)) pos with
                  | Some (Some id) => (h, VId id)
                  | _ => (h, VNot)
                  end
      | None => (h, VNot)
      end
  | ABadDim => (h, VBad)
  | ANotArr => (h, VNot)
  end.

Fixpoint eval_avals (vs : list vec) (h : list cell) (l : list aval) : list cell * list rval :=
  match l with
  | [] => (h, [])
  | a :: r => let '(h1, v) := eval_aval vs h a in
              let '(h2, vs') := eval_avals vs h1 r in (h2, v :: vs')
  end.

(* isinstance(value, np.ndarray) / value.ndim != 2 or value.shape[1] != num_fields *)
Definition check_val (h : list cell) (nf : nat) (v : rval) : err + nat :=
  match v with
  | VNot => inl EType
  | VBad => inl EValue
  | VId id => match ncols_at h id with
              | Some k => if k =? nf then inr id else inl EValue
              | None => inl EType
              end
  end.

(* ---------------------------------------------------------------- from_data *)
Definition leaf_of_rval (v : rval) : tree := match v with VId id => Leaf (Some id) | _ => Leaf None end.

Definition op_from_data (s : state) (data : option (list aval)) (nf : option Z)
           (fields units : option (list Z)) : state * res :=
  match data with
  | None => (s, RErr EType)                        (* not a list *)
  | Some items =>
      let '(h, vals) := eval_avals (vecs s) (heap s) items in
      match vals with
      | [] => (s, RErr EValue)                     (* empty list *)
      | VNot :: _ => (s, RErr EType)
      | VBad :: _ => (s, RErr EValue)
      | VId id0 :: _ =>
          match ncols_at h id0 with
          | None => (s, RErr EType)
          | Some k =>
              if forallb (fun v => match check_val h k v with inr _ => true | inl _ => false end) vals then
                if (match nf with Some z => negb (z =? Z.of_nat k)%Z | None => false end)
                then (s, RErr EValue)
                else
                  match mk_schema [Z.of_nat (length vals)] (Some (Z.of_nat k)) fields units with
                  | None => (s, RErr EValue)
                  | Some (sh, fs, us) => (push_vec s h sh fs us (Node (map leaf_of_rval vals)), RNew)
                  end
              else (s, RErr EValue)
          end
      end
  end.

(* ---------------------------------------------------------------- index expressions *)
Inductive ix := IInt (i : Z) | ISlice (a b st : option Z) | IList (l : list Z).

Definition inb (n : nat) (i : Z) : bool := ((0 <=? i) && (i <? Z.of_nat n))%Z.

(* Python list indexing with an int: negative indices wrap once *)
Definition pyidx (n : nat) (i : Z) : option nat :=
  if inb n i then Some (Z.to_nat i)
  else if ((- Z.of_nat n <=? i) && (i <? 0))%Z then Some (Z.to_nat (i + Z.of_nat n))
  else None.

(* slice(a, b, st).indices(n) followed by np.arange(start, stop, step); None = step 0 (ValueError) *)
Definition clampi (len lower upper x : Z) : Z :=
  if (x <? 0)%Z then Z.max (x + len) lower else Z.min x upper.

Definition slice_list (n : nat) (a b st : option Z) : option (list Z) :=
  let len := Z.of_nat n in
  let step := match st with Some z => z | None => 1%Z end in
  if (step =? 0)%Z then None else
  let neg := (step <? 0)%Z in
  let lower := if neg then (-1)%Z else 0%Z in
  let upper := if neg then (len - 1)%Z else len in
  let start := match a with Some x => clampi len lower upper x | None => if neg then upper else lower end in
  let stop := match b with Some x => clampi len lower upper x | None => if neg then lower else upper end in
  let cnt := if neg then ((start - stop - step - 1) / (- step))%Z else ((stop - start + step - 1) / step)%Z in
  Some (map (fun k => (start + Z.of_nat k * step)%Z) (seq 0 (Z.to_nat cnt))).

(* get_indices WITH bounds check: get_data, set_data, the multi-cell branch of __setitem__ *)
Definition res_checked (n : nat) (x : ix) : err + list nat :=
  match x with
  | IInt i => if inb n i then inr [Z.to_nat i] else inl EIndex
  | IList l => if forallb (inb n) l then inr (map Z.to_nat l) else inl EIndex
  | ISlice a b st => match slice_list n a b st with
                     | Some l => inr (map Z.to_nat l)
                     | None => inl EValue
                     end
  end.

(* [get_indices(i, s) for i, s in zip(indices, shape)]: first failure wins *)
Fixpoint resolve_checked (sh : list nat) (idx : list ix) : err + list (list nat) :=
  match sh, idx with
  | n :: sh', x :: rest =>
      match res_checked n x with
      | inl e => inl e
      | inr l => match resolve_checked sh' rest with inl e => inl e | inr r => inr (l :: r) end
      end
  | _, _ => inr []
  end.

(* get_indices WITHOUT bounds check (__getitem__): None = slice step 0 *)
Definition res_raw (n : nat) (x : ix) : option (list Z) :=
  match x with
  | IInt i => Some [i]
  | IList l => Some l
  | ISlice a b st => slice_list n a b st
  end.

Fixpoint resolve_raw (sh : list nat) (idx : list ix) : option (list (list Z)) :=
  match sh, idx with
  | n :: sh', x :: rest =>
      match res_raw n x with
      | None => None
      | Some l => match resolve_raw sh' rest with None => None | Some r => Some (l :: r) end
      end
  | _, _ => Some []
  end.

(* what `take(self._data, indices)` followed by from_shape(new_shape) raises:
   data[i] with i out of [-n, n) is an IndexError; an empty axis visits nothing below it and
   then from_shape rejects the zero dimension (ValueError) *)
Fixpoint resolve_take (sh : list nat) (idxs : list (list Z)) : err + list (list nat) :=
  match sh, idxs with
  | n :: sh', js :: rest =>
      match mapM (pyidx n) js with
      | None => inl EIndex
      | Some [] => inl EValue
      | Some ks => match resolve_take sh' rest with inl e => inl e | inr r => inr (ks :: r) end
      end
  | [], [] => inr []
  | _, _ => inl EValue
  end.

(* ref = data; for i in idx: ref = ref[i]   with integer indices on Python lists;
   a numpy array used as a list index is a TypeError *)
Fixpoint int_path (sh : list nat) (idx : list ix) : err + list nat :=
  match sh, idx with
  | n :: sh', IInt i :: rest =>
      match pyidx n i with
      | None => inl EIndex
      | Some k => match int_path sh' rest with inl e => inl e | inr p => inr (k :: p) end
      end
  | _ :: _, _ :: _ => inl EType
  | [], [] => inr []
  | _, _ => inl EIndex
  end.

Definition is_int (x : ix) : bool := match x with IInt _ => true | _ => false end.

(* ---------------------------------------------------------------- get_data *)
Definition op_get_data (s : state) (vi : nat) (idx : list ix) : state * res :=
  match nth_error (vecs s) vi with
  | None => (s, RSkip)
  | Some v =>
      if negb (length idx =? length (vshape v)) then (s, RErr EValue) else
      match resolve_checked (vshape v) idx with
      | inl e => (s, RErr e)
      | inr idxs =>
          if forallb (fun l => length l =? 1) idxs then
            match tget (vdata v) (map (fun l => hd 0 l) idxs) with
            | Some lf => (s, RCell lf)
            | None => (s, RErr EIndex)
            end
          else
            (* for idx in np.ndindex(...): ref = self._data; for ...: ref = ref[ind[i]]; result.append(ref) *)
            match mapM (tget (vdata v)) (cart idxs) with
            | Some ls => (s, RCells ls)
            | None => (s, RErr EIndex)
            end
      end
  end.

(* ---------------------------------------------------------------- set_data / __setitem__ *)
Inductive sval :=
| SArr (a : aval)            (* one array-like argument *)
| SList (l : list aval)      (* a Python list *)
| SVec (vi : nat)            (* a live Vector *)
| SOther.                    (* anything else *)

(* the validate-and-assign loop; stops at the first bad value, keeping what was already assigned *)
Fixpoint set_loop (h : list cell) (nf : nat) (t : tree) (paths : list (list nat)) (vals : list rval)
  : tree * option err :=
  match paths, vals with
  | p :: ps, v :: vs =>
      match check_val h nf v with
      | inl e => (t, Some e)
      | inr id => match tset p (Some id) t with
                  | Some t' => set_loop h nf t' ps vs
                  | None => (t, Some EIndex)
                  end
      end
  | _, _ => (t, None)
  end.

Definition res_of_err (e : option err) : res := match e with Some e => RErr e | None => RNone end.

Definition op_set_data (s : state) (vi : nat) (value : sval) (idx : list ix) : state * res :=
  match nth_error (vecs s) vi with
  | None => (s, RSkip)
  | Some v =>
      let nf := length (vfields v) in
      if negb (length idx =? length (vshape v)) then (s, RErr EValue) else
      match resolve_checked (vshape v) idx with
      | inl e => (s, RErr e)
      | inr idxs =>
          if forallb (fun l => length l =? 1) idxs then
            match value with
            | SArr a =>
                let '(h, rv) := eval_aval (vecs s) (heap s) a in
                match check_val h nf rv with
                | inl e => (s, RErr e)
                | inr id => match tset (map (fun l => hd 0 l) idxs) (Some id) (vdata v) with
                            | Some t' => (set_vec s h vi (with_data v t'), RNone)
                            | None => (s, RErr EIndex)
                            end
                end
            | _ => (s, RErr EType)
            end
          else
            match value with
            | SList l =>
                let '(h, vals) := eval_avals (vecs s) (heap s) l in
                let paths := cart idxs in
                if negb (length vals =? length paths) then (s, RErr EValue) else
                let '(t', e) := set_loop h nf (vdata v) paths vals in
                (set_vec s h vi (with_data v t'), res_of_err e)
            | _ => (s, RErr EType)
            end
      end
  end.

Definition has_fancy (idx : list ix) : bool :=
  existsb (fun x => match x with ISlice _ _ _ => true | IList l => 1 <? length l | IInt _ => false end) idx.

Definition op_setitem (s : state) (vi : nat) (idx : list ix) (value : sval) : state * res :=
  match nth_error (vecs s) vi with
  | None => (s, RSkip)
  | Some v =>
      let nf := length (vfields v) in
      if negb (length idx =? length (vshape v)) then (s, RErr EValue) else
      if has_fancy idx then
        match (match value with
               | SVec wi =>
                   match nth_error (vecs s) wi with
                   | Some w => match mapM (fun lf : leaf => lf) (leaves (vdata w)) with
                               | Some ids => inr (heap s, map VId ids)
                               | None => inl EType          (* _flatten_cells(None) *)
                               end
                   | None => inl EType
                   end
               | SList l => inr (eval_avals (vecs s) (heap s) l)
               | _ => inl EType
               end) with
        | inl e => (s, RErr e)
        | inr (h, vals) =>
            match resolve_checked (vshape v) idx with
            | inl e => (s, RErr e)
            | inr idxs =>
                let paths := cart idxs in
                if negb (length vals =? length paths) then (s, RErr EValue) else
                let '(t', e) := set_loop h nf (vdata v) paths vals in
                (set_vec s h vi (with_data v t'), res_of_err e)
            end
        end
      else
        match value with
        | SArr a =>
            let '(h, rv) := eval_aval (vecs s) (heap s) a in
            match check_val h nf rv with
            | inl e => (s, RErr e)
            | inr id =>
                match int_path (vshape v) idx with
                | inl e => (s, RErr e)
                | inr p => match tset p (Some id) (vdata v) with
                           | Some t' => (set_vec s h vi (with_data v t'), RNone)
                           | None => (s, RErr EIndex)
                           end
                end
            end
        | _ => (s, RErr EType)
        end
  end.

(* ---------------------------------------------------------------- __getitem__ (non-string index) *)
Definition op_getitem (s : state) (vi : nat) (idx : list ix) : state * res :=
  match nth_error (vecs s) vi with
  | None => (s, RSkip)
  | Some v =>
      let d := length (vshape v) in
      if (length idx =? d) && forallb is_int idx then
        match int_path (vshape v) idx with
        | inl e => (s, RErr e)
        | inr p => match tget (vdata v) p with
                   | Some lf => (s, RCell lf)
                   | None => (s, RErr EIndex)
                   end
        end
      else if (d <? length idx) && forallb is_int (firstn d idx) then
        (* more indices than fixed dimensions, integers on all fixed dimensions (return_np): the loop
           `for i in idx: view = view[i]` goes on INTO the cell array with the remaining indices.
           Modelled for one remaining integer (a row of the cell); other shapes are never generated. *)
        match int_path (vshape v) (firstn d idx) with
        | inl e => (s, RErr e)
        | inr p =>
            match tget (vdata v) p, skipn d idx with
            | Some (Some id), [IInt r] =>
                match nth_error (heap s) id with
                | Some c => match pyidx (length (rows c)) r with
                            | Some k => (s, RCol (nth k (rows c) []))
                            | None => (s, RErr EIndex)
                            end
                | None => (s, RSkip)
                end
            | Some None, _ :: _ => (s, RErr EType)       (* None[r]: 'NoneType' object is not subscriptable *)
            | _, _ => (s, RSkip)
            end
        end
      else
        (* slices / lists: indices beyond the fixed dimensions are dropped by zip(full_idx, shape) *)
        let full := idx ++ repeat (ISlice None None None) (d - length idx) in
        match resolve_raw (vshape v) full with
        | None => (s, RErr EValue)
        | Some raw =>
            match resolve_take (vshape v) raw with
            | inl e => (s, RErr e)
            | inr idxs =>
                match mk_schema (map (fun l => Z.of_nat (length l)) idxs)
                                (Some (Z.of_nat (length (vfields v)))) (Some (vfields v)) (Some (vunits v)) with
                | None => (s, RErr EValue)
                | Some (sh, fs, us) => (push_vec s (heap s) sh fs us (take idxs (vdata v)), RNew)
                end
            end
        end
  end.

(* ---------------------------------------------------------------- field views *)
Inductive arith :=
| AAdd (q : Q) | ASub (q : Q) | AMul (q : Q) | ADiv (q : Q) | AFloorDiv (q : Q) | AMod (q : Q) | APow (n : nat).

Definition arith_fun (a : arith) (x : Q) : Q :=
  Qred (match a with
        | AAdd q => x + q
        | ASub q => x - q
        | AMul q => x * q
        | ADiv q => x / q
        | AFloorDiv q => inject_Z (Qfloor (x / q))
        | AMod q => x - q * inject_Z (Qfloor (x / q))
        | APow n => Qpower x (Z.of_nat n)
        end)%Q.

(* arr[:, k] = op(arr[:, k]) — in place *)
Definition map_col (k : nat) (f : Q -> Q) (c : cell) : cell :=
  mkCell (ncols c) (map (fun r => upd_nth k (f (nth k r 0%Q)) r) (rows c)).

Definition apply_leaf (k : nat) (f : Q -> Q) (h : list cell) (lf : leaf) : list cell :=
  match lf with
  | Some id => match nth_error h id with Some c => upd_nth id (map_col k f c) h | None => h end
  | None => h
  end.

Definition field_apply (k : nat) (f : Q -> Q) (h : list cell) (ls : list leaf) : list cell :=
  fold_left (apply_leaf k f) ls h.

Definition col (k : nat) (c : cell) : list Q := map (fun r => nth k r 0%Q) (rows c).

(* _FieldView.flatten: np.concatenate([arr[:, k] for every populated cell, in traversal order]) *)
Definition flat_field (k : nat) (h : list cell) (ls : list leaf) : list Q :=
  flat_map (fun lf : leaf => match lf with
                      | Some id => match nth_error h id with Some c => col k c | None => [] end
                      | None => []
                      end) ls.

Fixpoint set_col (k : nat) (vals : list Q) (rs : list (list Q)) {struct rs} : list (list Q) :=
  match rs with
  | [] => []
  | r :: rs' => match vals with
                | v :: vs => upd_nth k v r :: set_col k vs rs'
                | [] => r :: rs'
                end
  end.

(* fill(arr, values, cursor): arr[:, k] = values[cursor : cursor + n]; the remaining values
   play the role of the cursor *)
Definition fill_leaf (k : nat) (st : list cell * list Q) (lf : leaf) : list cell * list Q :=
  let '(h, vals) := st in
  match lf with
  | Some id =>
      match nth_error h id with
      | Some c => let n := length (rows c) in
                  (upd_nth id (mkCell (ncols c) (set_col k (firstn n vals) (rows c))) h, skipn n vals)
      | None => st
      end
  | None => st
  end.

Definition fill (k : nat) (h : list cell) (ls : list leaf) (vals : list Q) : list cell :=
  fst (fold_left (fill_leaf k) ls (h, vals)).

(* v[name] op= c   ==   fv = v[name]; fv.__iop__(c); v[name] = fv  (-> set_flattened(fv.flatten())) *)
Definition op_field_op (s : state) (vi : nat) (name : Z) (a : arith) : state * res :=
  match nth_error (vecs s) vi with
  | None => (s, RSkip)
  | Some v =>
      match index_of name (vfields v) with
      | None => (s, RErr EKey)
      | Some k =>
          let ls := leaves (vdata v) in
          let h1 := field_apply k (arith_fun a) (heap s) ls in
          let h2 := fill k h1 ls (flat_field k h1 ls) in
          (mkState h2 (vecs s) (nmeta s), RNone)
      end
  end.

Definition op_field_flatten (s : state) (vi : nat) (name : Z) : state * res :=
  match nth_error (vecs s) vi with
  | None => (s, RSkip)
  | Some v =>
      match index_of name (vfields v) with
      | None => (s, RErr EKey)
      | Some k => (s, RCol (flat_field k (heap s) (leaves (vdata v))))
      end
  end.

(* v[name].set_flattened(values)  /  v[name] = values;  None = an array that is not 1-D *)
Definition op_set_flattened (s : state) (vi : nat) (name : Z) (vals : option (list Q)) : state * res :=
  match nth_error (vecs s) vi with
  | None => (s, RSkip)
  | Some v =>
      match index_of name (vfields v) with
      | None => (s, RErr EKey)
      | Some k =>
          match vals with
          | None => (s, RErr EValue)
          | Some xs =>
              let ls := leaves (vdata v) in
              if negb (length xs =? length (flat_field k (heap s) ls)) then (s, RErr EValue)
              else (mkState (fill k (heap s) ls xs) (vecs s) (nmeta s), RNone)
          end
      end
  end.

(* Vector.flatten: np.vstack of the populated cells, np.empty((0, num_fields)) when there are none *)
Definition flat_rows (h : list cell) (ls : list leaf) : list (list Q) :=
  flat_map (fun lf : leaf => match lf with
                      | Some id => match nth_error h id with Some c => rows c | None => [] end
                      | None => []
                      end) ls.

Definition op_flatten (s : state) (vi : nat) : state * res :=
  match nth_error (vecs s) vi with
  | None => (s, RSkip)
  | Some v => (s, RFlat (length (vfields v)) (flat_rows (heap s) (leaves (vdata v))))
  end.

(* ---------------------------------------------------------------- add_fields / remove_fields *)
(* np.hstack([arr, np.zeros((n, k))]) — a new array *)
Definition pad_cell (k : nat) (c : cell) : cell :=
  mkCell (ncols c + k) (map (fun r => r ++ repeat 0%Q k) (rows c)).

Definition realloc (g : cell -> cell) (h : list cell) (lf : leaf) : list cell * leaf :=
  match lf with
  | Some id => match nth_error h id with
               | Some c => (h ++ [g c], Some (length h))
               | None => (h, None)
               end
  | None => (h, None)
  end.

Definition op_add_fields (s : state) (vi : nat) (names : list Z) : state * res :=
  match nth_error (vecs s) vi with
  | None => (s, RSkip)
  | Some v =>
      if existsb (fun x => memz x (vfields v)) names then (s, RErr EValue)
      else if negb (nodupb names) then (s, RErr EValue)
      else
        let k := length names in
        let '(h, t) := tmapfold (realloc (pad_cell k)) (heap s) (vdata v) in
        (set_vec s h vi (mkVec (vshape v) (vfields v ++ names) (vunits v ++ repeat 0%Z k) t (vmeta v)), RNone)
  end.

Definition select {A : Type} (d : A) (keep : list nat) (l : list A) : list A := map (fun i => nth i l d) keep.

(* arr[:, keep_indices] — a new array *)
Definition prune_cell (keep : list nat) (c : cell) : cell :=
  mkCell (length keep) (map (select 0%Q keep) (rows c)).

Fixpoint filter_map {A B : Type} (f : A -> option B) (l : list A) : list B :=
  match l with
  | [] => []
  | x :: r => match f x with Some y => y :: filter_map f r | None => filter_map f r end
  end.

Definition op_remove_fields (s : state) (vi : nat) (names : list Z) : state * res :=
  match nth_error (vecs s) vi with
  | None => (s, RSkip)
  | Some v =>
      let rm := filter_map (fun x => index_of x (vfields v)) names in
      match rm with
      | [] => (s, RNone)                      (* nothing found: warning only *)
      | _ =>
          let keep := filter (fun i => negb (memb i rm)) (seq 0 (length (vfields v))) in
          let '(h, t) := tmapfold (realloc (prune_cell keep)) (heap s) (vdata v) in
          (set_vec s h vi (mkVec (vshape v) (select 0%Z keep (vfields v)) (select 0%Z keep (vunits v)) t (vmeta v)),
           RNone)
      end
  end.

(* ---------------------------------------------------------------- copy *)
Fixpoint assoc (x : nat) (m : list (nat * nat)) : option nat :=
  match m with [] => None | (a, b) :: r => if a =? x then Some b else assoc x r end.

(* copy.deepcopy(self._data): one new array per distinct array object (memo) *)
Definition copy_leaf (st : list cell * list (nat * nat)) (lf : leaf) : (list cell * list (nat * nat)) * leaf :=
  let '(h, memo) := st in
  match lf with
  | None => (st, None)
  | Some id =>
      match assoc id memo with
      | Some id' => (st, Some id')
      | None => match nth_error h id with
                | Some c => ((h ++ [c], (id, length h) :: memo), Some (length h))
                | None => (st, None)
                end
      end
  end.

Definition op_copy (s : state) (vi : nat) : state * res :=
  match nth_error (vecs s) vi with
  | None => (s, RSkip)
  | Some v =>
      match mk_schema (map Z.of_nat (vshape v)) None (Some (vfields v)) (Some (vunits v)) with
      | None => (s, RErr EValue)
      | Some (sh, fs, us) =>
          let '((h, _), t) := tmapfold copy_leaf (heap s, []) (vdata v) in
          (push_vec s h sh fs us t, RNew)
      end
  end.

(* ---------------------------------------------------------------- public attribute setters *)
(* As written in /repo WITH fixes/C11-attribute-setters.diff applied: `fields` must keep the number of
   fields, `shape` must be the shape the nested lists are laid out for, `data` is validated one
   nesting level per fixed dimension.  `units` and `name` are as in the unrepaired code. *)
Inductive names_arg :=
| NBad                       (* neither None nor a list / tuple *)
| NNone                      (* None *)
| NList (l : list Z).        (* a list or tuple of names *)

(* v.fields = value: validate_fields (TypeError unless list/tuple; ValueError on duplicates), then the count *)
Definition op_set_fields (s : state) (vi : nat) (a : names_arg) : state * res :=
  match nth_error (vecs s) vi with
  | None => (s, RSkip)
  | Some v =>
      match a with
      | NList l =>
          if nodupb l && (length l =? length (vfields v))
          then (set_vec s (heap s) vi (mkVec (vshape v) l (vunits v) (vdata v) (vmeta v)), RNone)
          else (s, RErr EValue)
      | _ => (s, RErr EType)
      end
  end.

(* v.units = value: validate_vector_units(value, num_fields); None means the default units *)
Definition op_set_units (s : state) (vi : nat) (a : names_arg) : state * res :=
  match nth_error (vecs s) vi with
  | None => (s, RSkip)
  | Some v =>
      match a with
      | NBad => (s, RErr EType)
      | NNone => (set_vec s (heap s) vi
                    (mkVec (vshape v) (vfields v) (repeat 0%Z (length (vfields v))) (vdata v) (vmeta v)), RNone)
      | NList l =>
          if length l =? length (vfields v)
          then (set_vec s (heap s) vi (mkVec (vshape v) (vfields v) l (vdata v) (vmeta v)), RNone)
          else (s, RErr EValue)
      end
  end.

(* v.shape = value: validate_shape (None = not a tuple), then it must be the current shape; the state
   never changes *)
Definition op_set_shape (s : state) (vi : nat) (shape : option (list Z)) : state * res :=
  match nth_error (vecs s) vi with
  | None => (s, RSkip)
  | Some v =>
      match shape with
      | None => (s, RErr EType)
      | Some sh =>
          if existsb (fun d => (d <=? 0)%Z) sh then (s, RErr EValue)
          else if list_eq_dec Nat.eq_dec (map Z.to_nat sh) (vshape v) then (s, RNone)
          else (s, RErr EValue)
      end
  end.

(* first failure of a list of checks, in order *)
Fixpoint mapE {A B : Type} (f : A -> err + B) (l : list A) : err + list B :=
  match l with
  | [] => inr []
  | x :: r => match f x with
              | inl e => inl e
              | inr y => match mapE f r with inl e => inl e | inr ys => inr (y :: ys) end
              end
  end.

(* validate_vector_data(data, shape, num_fields) on an argument given as a skeleton `t` (the nesting of
   Python lists; a leaf `Some i` stands for the i-th item, `None` for a Python None) and the evaluated
   items `rv`: one list level per fixed dimension (TypeError if not a list, ValueError on a wrong
   length), at the innermost level every element must be a 2-D array with one column per field.
   A list where an array is expected is converted by np.array and is then not 2-D (the harness only
   passes lists of arrays there). *)
Fixpoint vcheck (rv : list rval) (h : list cell) (nf : nat) (sh : list nat) (t : tree) {struct sh}
  : err + tree :=
  match sh with
  | [] =>
      match t with
      | Leaf (Some i) =>
          match nth_error rv i with
          | Some x => match check_val h nf x with inl e => inl e | inr id => inr (Leaf (Some id)) end
          | None => inl EType
          end
      | Leaf None => inl EType
      | Node _ => inl EValue
      end
  | n :: sh' =>
      match t with
      | Leaf _ => inl EType
      | Node l =>
          if length l =? n
          then match mapE (vcheck rv h nf sh') l with inl e => inl e | inr l' => inr (Node l') end
          else inl EValue
      end
  end.

(* v.data = value *)
Definition op_set_data_attr (s : state) (vi : nat) (skel : tree) (items : list aval) : state * res :=
  match nth_error (vecs s) vi with
  | None => (s, RSkip)
  | Some v =>
      match vshape v with
      | [] => (s, RSkip)                     (* shape (): shape[0] raises; never generated *)
      | _ :: _ =>
          let '(h, rv) := eval_avals (vecs s) (heap s) items in
          match vcheck rv h (length (vfields v)) (vshape v) skel with
          | inl e => (s, RErr e)
          | inr t => (set_vec s h vi (with_data v t), RNone)
          end
      end
  end.

(* v.name = value and v.metadata[key] = value: neither the name nor the contents of the metadata dict
   are part of the model state (only the identity of the dict is) *)
Definition op_touch (s : state) (vi : nat) : state * res :=
  match nth_error (vecs s) vi with
  | None => (s, RSkip)
  | Some _ => (s, RNone)
  end.

(* ---------------------------------------------------------------- _FieldView.__getitem__ *)
(* v[name][idx]:  sub = v[idx]; a Vector -> the field view of the new Vector (which is kept alive by the
   view); an array -> its column; None (unset cell) -> None; a row (too many indices) -> row[:, k] raises *)
Definition op_field_get (s : state) (vi : nat) (name : Z) (idx : list ix) : state * res :=
  match nth_error (vecs s) vi with
  | None => (s, RSkip)
  | Some v =>
      match index_of name (vfields v) with
      | None => (s, RErr EKey)
      | Some k =>
          match op_getitem s vi idx with
          | (s', RCell (Some id)) =>
              match nth_error (heap s') id with
              | Some c => (s', RCol (col k c))
              | None => (s', RSkip)
              end
          | (s', RCell None) => (s', RNone)
          | (s', RCol _) => (s', RErr EIndex)
          | other => other
          end
      end
  end.

(* ---------------------------------------------------------------- save + load (AutoSerialize) *)
(* load(v.save(path)): a new Vector with the same shape / fields / units, one NEW array per populated
   cell (aliasing between cells is not preserved), its own metadata dict *)
Definition op_reload (s : state) (vi : nat) : state * res :=
  match nth_error (vecs s) vi with
  | None => (s, RSkip)
  | Some v =>
      let '(h, t) := tmapfold (realloc (fun c => c)) (heap s) (vdata v) in
      (push_vec s h (vshape v) (vfields v) (vunits v) t, RNew)
  end.

(* ---------------------------------------------------------------- operations, histories *)
Inductive op :=
| OFromShape (shape : list Z) (nf : option Z) (fields units : option (list Z))
| OFromData (data : option (list aval)) (nf : option Z) (fields units : option (list Z))
| OGetData (vi : nat) (idx : list ix)
| OSetData (vi : nat) (value : sval) (idx : list ix)
| OGetItem (vi : nat) (idx : list ix)
| OSetItem (vi : nat) (idx : list ix) (value : sval)
| OFieldOp (vi : nat) (name : Z) (a : arith)
| OFieldFlatten (vi : nat) (name : Z)
| OSetFlattened (vi : nat) (name : Z) (vals : option (list Q))
| OFlatten (vi : nat)
| OAddFields (vi : nat) (names : list Z)
| ORemoveFields (vi : nat) (names : list Z)
| OCopy (vi : nat)
| OSetFields (vi : nat) (a : names_arg)
| OSetUnits (vi : nat) (a : names_arg)
| OSetShape (vi : nat) (shape : option (list Z))
| OSetDataAttr (vi : nat) (skel : tree) (items : list aval)
| OTouch (vi : nat)
| OFieldGet (vi : nat) (name : Z) (idx : list ix)
| OReload (vi : nat).

Definition step (s : state) (o : op) : state * res :=
  match o with
  | OFromShape sh nf f u => op_from_shape s sh nf f u
  | OFromData d nf f u => op_from_data s d nf f u
  | OGetData vi idx => op_get_data s vi idx
  | OSetData vi value idx => op_set_data s vi value idx
  | OGetItem vi idx => op_getitem s vi idx
  | OSetItem vi idx value => op_setitem s vi idx value
  | OFieldOp vi name a => op_field_op s vi name a
  | OFieldFlatten vi name => op_field_flatten s vi name
  | OSetFlattened vi name vals => op_set_flattened s vi name vals
  | OFlatten vi => op_flatten s vi
  | OAddFields vi names => op_add_fields s vi names
  | ORemoveFields vi names => op_remove_fields s vi names
  | OCopy vi => op_copy s vi
  | OSetFields vi a => op_set_fields s vi a
  | OSetUnits vi a => op_set_units s vi a
  | OSetShape vi sh => op_set_shape s vi sh
  | OSetDataAttr vi skel items => op_set_data_attr s vi skel items
  | OTouch vi => op_touch s vi
  | OFieldGet vi name idx => op_field_get s vi name idx
  | OReload vi => op_reload s vi
  end.

Definition run (ops : list op) (s : state) : state := fold_left (fun s o => fst (step s o)) ops s.

(* ---------------------------------------------------------------- notions used by the property statements *)
(* the mutable array objects reachable from a vector (its metadata dict is `vmeta`) *)
Definition reach (v : vec) : list nat :=
  flat_map (fun lf : leaf => match lf with Some i => [i] | None => [] end) (leaves (vdata v)).

(* the array stored behind a leaf (None for an unset cell) *)
Definition leaf_val (h : list cell) (lf : leaf) : option cell :=
  match lf with Some id => nth_error h id | None => None end.

(* column k / all rows of the cell found at an address (nothing for an unset cell) *)
Definition cell_col (k : nat) (h : list cell) (x : option leaf) : list Q :=
  match x with
  | Some (Some id) => match nth_error h id with Some c => col k c | None => [] end
  | _ => []
  end.

Definition cell_rows (h : list cell) (x : option leaf) : list (list Q) :=
  match x with
  | Some (Some id) => match nth_error h id with Some c => rows c | None => [] end
  | _ => []
  end.

(* ---------------------------------------------------------------- observation (harness glue) *)
(* Everything the property speaks about, serialised to integers.  Array identity is reported
   canonically: arrays are numbered in order of first appearance when the live vectors are
   traversed in order (the harness numbers the Python objects the same way with `is`). *)
Definition pop_ids (t : tree) : list nat :=
  flat_map (fun lf : leaf => match lf with Some i => [i] | None => [] end) (leaves t).

Fixpoint dedup (seen l : list nat) : list nat :=
  match l with
  | [] => []
  | x :: r => if memb x seen then dedup seen r else x :: dedup (x :: seen) r
  end.

Fixpoint pos_of (x : nat) (l : list nat) : Z :=
  match l with [] => (-2)%Z | y :: r => if x =? y then 0%Z else (1 + pos_of x r)%Z end.

Definition all_ids (s : state) : list nat := dedup [] (flat_map (fun v => pop_ids (vdata v)) (vecs s)).
Definition all_metas (s : state) : list nat := dedup [] (map vmeta (vecs s)).

Definition zlen {A : Type} (l : list A) : Z := Z.of_nat (length l).
Definition ser_q (q : Q) : list Z := let r := Qred q in [Qnum r; Zpos (Qden r)].
Definition ser_leaf (ids : list nat) (lf : leaf) : Z := match lf with Some i => pos_of i ids | None => (-1)%Z end.
Definition ser_rows (r : list (list Q)) : list Z := flat_map (fun row => flat_map ser_q row) r.

Definition ser_vec (ids metas : list nat) (v : vec) : list Z :=
  [zlen (vshape v)] ++ map Z.of_nat (vshape v) ++ [zlen (vfields v)] ++ vfields v ++ [zlen (vunits v)] ++ vunits v
  ++ [pos_of (vmeta v) metas] ++ [zlen (leaves (vdata v))] ++ map (ser_leaf ids) (leaves (vdata v)).

Definition ser_cell (h : list cell) (id : nat) : list Z :=
  match nth_error h id with
  | Some c => [Z.of_nat (ncols c); zlen (rows c)] ++ ser_rows (rows c)
  | None => [(-9)%Z]
  end.

Definition obs (s : state) : list Z :=
  let ids := all_ids s in
  [zlen (vecs s)] ++ flat_map (ser_vec ids (all_metas s)) (vecs s)
  ++ [zlen ids] ++ flat_map (ser_cell (heap s)) ids.

Definition err_code (e : err) : Z := match e with EType => 1 | EValue => 2 | EIndex => 3 | EKey => 4 end%Z.

Definition ser_res (s : state) (r : res) : list Z :=
  let ids := all_ids s in
  match r with
  | RErr e => [(-1)%Z; err_code e]
  | RSkip => [(-7)%Z]
  | RNone => [0%Z]
  | RCell lf => [1%Z; ser_leaf ids lf]
  | RCells l => [2%Z; zlen l] ++ map (ser_leaf ids) l
  | RNew => [3%Z]
  | RFlat nc r => [4%Z; Z.of_nat nc; zlen r] ++ ser_rows r
  | RCol l => [5%Z; zlen l] ++ flat_map ser_q l
  end.

(* 61-bit fingerprint of a serialisation (Mersenne prime modulus) *)
Definition fp (l : list Z) : Z :=
  fold_left (fun a x => ((a * 1000003 + x + 7) mod 2305843009213693951)%Z) l 0%Z.

(* per step: the returned value / error and the full observation of the state after the step *)
Fixpoint trace (s : state) (ops : list op) : list (list Z) :=
  match ops with
  | [] => []
  | o :: r => let '(s', x) := step s o in (ser_res s' x ++ obs s') :: trace s' r
  end.

(* compact form: result serialisation in clear, state observation as a fingerprint; the full
   observation of the final state is appended *)
Fixpoint trace_fp (s : state) (ops : list op) : list (list Z) * list Z :=
  match ops with
  | [] => ([], obs s)
  | o :: r => let '(s', x) := step s o in
              let '(t, fin) := trace_fp s' r in
              ((fp (obs s') :: ser_res s' x) :: t, fin)
  end.

(* like trace_fp, but at every step whose number k satisfies k mod m = r the state observation is
   given in clear instead of as a fingerprint: per step (result serialisation, [fp] | obs) *)
Fixpoint trace_smp (m r k : nat) (s : state) (ops : list op) : list (list Z * list Z) * list Z :=
  match ops with
  | [] => ([], obs s)
  | o :: rest => let '(s', x) := step s o in
                 let '(t, fin) := trace_smp m r (S k) s' rest in
                 ((ser_res s' x, if Nat.eqb (Nat.modulo k m) r then obs s' else [fp (obs s')]) :: t, fin)
  end.
