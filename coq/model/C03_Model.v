(* C03 — Dataset containers.  Executable model of
     quantem.core.datastructures.dataset.Dataset
        (__init__/from_array, property setters, copy, pad, crop, bin, fourier_resample, __getitem__)
     Dataset2d/3d/4d/4dstem.from_array (ensure_valid_array(array, ndim=k)) and the _registry
     quantem.core.utils.validators.ensure_valid_array / validate_ndinfo / validate_units
   and, as the SPECIFICATION side, a model of NumPy's own indexing (np_index).
   Definitions only; proofs are in proof/C03_Proofs.v.

   State = append-only typed heaps (ndarray objects, 1-D calibration arrays, unit lists) plus the
   list of live Dataset objects, each holding four references and its class.  An ndarray cell
   records the cell that owns its buffer (a_root): views share the root of their base.

   Array elements are integers (Z).  The two data transforms whose values are not integer
   arithmetic are section parameters: the Fourier resampling kernel `FR` and the division of
   the "mean" reducer `divf`; every theorem holds for arbitrary such functions. *)
From Coq Require Import QArith Qround String.
From QV.lib Require Import Prelude C03_Slice.
From Coq Require Import List.
Import ListNotations.
Local Close Scope Q_scope.
Local Open Scope list_scope.

(* ------------------------------------------------------------------ errors as values *)
Inductive err := TypeErr | ValueErr | IndexErr | OtherErr.
Inductive res (A : Type) := Ok (a : A) | Err (e : err).
Arguments Ok {A} a.
Arguments Err {A} e.
Definition bind {A B : Type} (r : res A) (f : A -> res B) : res B :=
  match r with Ok a => f a | Err e => Err e end.
Notation "'do' x <- r ; k" := (bind r (fun x => k))
  (at level 200, x name, r at level 100, k at level 200, right associativity).

Fixpoint mapM {A B : Type} (f : A -> res B) (l : list A) : res (list B) :=
  match l with
  | [] => Ok []
  | x :: r => do y <- f x; do ys <- mapM f r; Ok (y :: ys)
  end.

(* ------------------------------------------------------------------ small list helpers *)
Definition indexed {A : Type} (l : list A) : list (nat * A) := combine (seq 0 (length l)) l.

Definition set_nth {A : Type} (i : nat) (v : A) (l : list A) : list A :=
  if i <? length l then firstn i l ++ v :: skipn (S i) l else l.

Fixpoint index_of (x : nat) (l : list nat) : nat :=
  match l with [] => 0 | y :: r => if x =? y then 0 else S (index_of x r) end.

(* python sequence index: negative counts from the end *)
Definition pyidx (k : Z) (n : nat) : option nat :=
  if ((0 <=? k) && (k <? Z.of_nat n))%Z then Some (Z.to_nat k)
  else if ((- Z.of_nat n <=? k) && (k <? 0))%Z then Some (Z.to_nat (k + Z.of_nat n))
  else None.

(* dict(zip(keys, values)): insertion-ordered, a repeated key keeps its place and takes the
   last value *)
Fixpoint dict_set {V : Type} (k : Z) (v : V) (d : list (Z * V)) : list (Z * V) :=
  match d with
  | [] => [(k, v)]
  | (k', v') :: r => if (k =? k')%Z then (k, v) :: r else (k', v') :: dict_set k v r
  end.
Definition dict_of {V : Type} (l : list (Z * V)) : list (Z * V) :=
  fold_left (fun d kv => dict_set (fst kv) (snd kv) d) l [].
Fixpoint dict_get {V : Type} (k : Z) (d : list (Z * V)) : option V :=
  match d with
  | [] => None
  | (k', v) :: r => if (k =? k')%Z then Some v else dict_get k r
  end.

(* ------------------------------------------------------------------ classes *)
Inductive tag := Generic | D2 | D3 | D4 | D4stem.

Definition tag_ndim (c : tag) : option nat :=
  match c with Generic => None | D2 => Some 2 | D3 => Some 3 | D4 => Some 4 | D4stem => Some 4 end.

(* Dataset._registry : ndim -> subclass, KeyError -> Dataset *)
Definition registry (n : nat) : tag :=
  match n with 2 => D2 | 3 => D3 | 4 => D4 | _ => Generic end.

Definition default_units (c : tag) (n : nat) : list string :=
  match c with
  | D3 => ["index"; "pixels"; "pixels"]
  | D4 => ["index"; "index"; "pixels"; "pixels"]
  | _ => repeat "pixels" n
  end%string.

(* ------------------------------------------------------------------ heap and datasets *)
Record arr := mkArr { a_root : nat; a_shape : list nat; a_flat : list Z }.
Record ds := mkDs { d_arr : nat; d_origin : nat; d_sampling : nat; d_units : nat; d_cls : tag }.
Record state := mkState {
  arrs : list arr;             (* ndarray objects; index = identity *)
  nums : list (list Q);        (* origin / sampling arrays *)
  strs : list (list string);   (* units lists *)
  dss : list ds                (* live Dataset objects; index = handle *)
}.

Definition empty_state : state := mkState [] [] [] [].
Definition empty_arr : arr := mkArr 0 [] [].
Definition empty_ds : ds := mkDs 0 0 0 0 Generic.

Definition get_arr (s : state) (i : nat) : arr := nth i (arrs s) empty_arr.
Definition get_num (s : state) (i : nat) : list Q := nth i (nums s) [].
Definition get_str (s : state) (i : nat) : list string := nth i (strs s) [].
Definition get_ds (s : state) (i : nat) : ds := nth i (dss s) empty_ds.
Definition ndim (a : arr) : nat := length (a_shape a).

(* allocation = append; existing cells are never overwritten *)
Definition alloc_arr (s : state) (a : arr) : state * nat :=
  (mkState (arrs s ++ [a]) (nums s) (strs s) (dss s), length (arrs s)).
Definition alloc_fresh (s : state) (sh : list nat) (fl : list Z) : state * nat :=
  alloc_arr s (mkArr (length (arrs s)) sh fl).
Definition alloc_view (s : state) (base : nat) (sh : list nat) (fl : list Z) : state * nat :=
  alloc_arr s (mkArr (a_root (get_arr s base)) sh fl).
Definition alloc_num (s : state) (l : list Q) : state * nat :=
  (mkState (arrs s) (nums s ++ [l]) (strs s) (dss s), length (nums s)).
Definition alloc_str (s : state) (l : list string) : state * nat :=
  (mkState (arrs s) (nums s) (strs s ++ [l]) (dss s), length (strs s)).
Definition add_ds (s : state) (d : ds) : state :=
  mkState (arrs s) (nums s) (strs s) (dss s ++ [d]).
Definition put_ds (s : state) (t : nat) (d : ds) : state :=
  mkState (arrs s) (nums s) (strs s) (set_nth t d (dss s)).

(* ------------------------------------------------------------------ validators.py *)
(* the Python value handed to an origin / sampling setter (or from_array keyword) *)
Inductive numarg :=
| NScalar (q : Q)                 (* int / float / NumPy scalar *)
| NList (l : list Q)              (* list / tuple / 1-D ndarray of numbers *)
| NNone                           (* None (setter only; as a keyword None means "default") *)
| NOther                          (* dict, set, range, ...: neither scalar nor ndarray/tuple/list *)
| NStr                            (* a str: np.isscalar, np.full(ndim, 'x') is not numeric *)
| NBool                           (* a bool: np.full has dtype bool, which is not np.number *)
| NNonNum (n : nat)               (* list of n strings / bools / None: never numeric *)
| NNested (ll : list (list Q)).   (* list of lists: ragged -> np.array raises; else flattened *)
Inductive unitsarg :=
| UStr (u : string)
| UList (l : list string)         (* list / tuple; entries pass through str() *)
| UOther.                         (* None, int, ndarray, dict, bytes ...: not str/list/tuple *)

Definition rectangular (ll : list (list Q)) : bool :=
  match ll with [] => true | r :: rest => forallb (fun x => length x =? length r) rest end.

(* validate_ndinfo: scalar -> np.full(ndim, value); sequence -> np.array(value).flatten(), whose
   length must equal ndim (checked BEFORE the numeric-dtype test).  The result is always a NEW
   array.  Errors: not scalar/ndarray/tuple/list -> TypeError; np.array fails (ragged nesting) ->
   TypeError; wrong length or non-numeric dtype -> ValueError *)
Definition validate_ndinfo (v : numarg) (n : nat) : res (list Q) :=
  match v with
  | NScalar q => Ok (repeat q n)
  | NList l => if length l =? n then Ok l else Err ValueErr
  | NNone | NOther => Err TypeErr
  | NStr | NBool | NNonNum _ => Err ValueErr
  | NNested ll =>
    if rectangular ll then
      (if length (concat ll) =? n then Ok (concat ll) else Err ValueErr)
    else Err TypeErr
  end.

Definition validate_units (v : unitsarg) (n : nat) : res (list string) :=
  match v with
  | UStr u => Ok (repeat u n)
  | UList l => if length l =? n then Ok l else Err ValueErr
  | UOther => Err TypeErr
  end.

(* ensure_valid_array(array, ndim=k) for an ndarray: fewer dims -> np.expand_dims(axis=0)
   repeatedly (a view), more -> ValueError, equal -> the same object *)
Definition ensure_ndim (s : state) (aid : nat) (k : nat) : res (state * nat) :=
  let a := get_arr s aid in
  if ndim a <? k then Ok (alloc_view s aid (repeat 1 (k - ndim a) ++ a_shape a) (a_flat a))
  else if k <? ndim a then Err ValueErr
  else Ok (s, aid).

(* Dataset.__init__ after the array has been validated: the three calibration setters run in
   the order origin, sampling, units *)
Definition construct (s : state) (c : tag) (aid : nat) (o sa : numarg) (u : unitsarg)
  : res state :=
  let n := ndim (get_arr s aid) in
  do ov <- validate_ndinfo o n;
  do sv <- validate_ndinfo sa n;
  do uv <- validate_units u n;
  let (s1, oid) := alloc_num s ov in
  let (s2, sid) := alloc_num s1 sv in
  let (s3, uid) := alloc_str s2 uv in
  Ok (add_ds s3 (mkDs aid oid sid uid c)).

(* cls.from_array(array, origin=, sampling=, units=) *)
Definition from_array (s : state) (c : tag) (aid : nat)
  (o sa : option numarg) (u : option unitsarg) : res state :=
  do sa1 <- match tag_ndim c with
            | None => Ok (s, aid)
            | Some k => ensure_ndim s aid k
            end;
  let (s1, aid1) := (sa1 : state * nat) in
  let n := ndim (get_arr s1 aid1) in
  construct s1 c aid1
    (match o with Some v => v | None => NScalar 0%Q end)
    (match sa with Some v => v | None => NScalar 1%Q end)
    (match u with Some v => v | None => UList (default_units c n) end).

(* property setters *)
Definition set_origin (s : state) (t : nat) (v : numarg) : res state :=
  let d := get_ds s t in
  do l <- validate_ndinfo v (ndim (get_arr s (d_arr d)));
  let (s1, i) := alloc_num s l in
  Ok (put_ds s1 t (mkDs (d_arr d) i (d_sampling d) (d_units d) (d_cls d))).

Definition set_sampling (s : state) (t : nat) (v : numarg) : res state :=
  let d := get_ds s t in
  do l <- validate_ndinfo v (ndim (get_arr s (d_arr d)));
  let (s1, i) := alloc_num s l in
  Ok (put_ds s1 t (mkDs (d_arr d) (d_origin d) i (d_units d) (d_cls d))).

Definition set_units (s : state) (t : nat) (v : unitsarg) : res state :=
  let d := get_ds s t in
  do l <- validate_units v (ndim (get_arr s (d_arr d)));
  let (s1, i) := alloc_str s l in
  Ok (put_ds s1 t (mkDs (d_arr d) (d_origin d) (d_sampling d) i (d_cls d))).

(* array setter: ensure_valid_array(value, ndim=self.ndim) *)
Definition set_array (s : state) (t : nat) (aid : nat) : res state :=
  let d := get_ds s t in
  do sa1 <- ensure_ndim s aid (ndim (get_arr s (d_arr d)));
  let (s1, aid1) := (sa1 : state * nat) in
  Ok (put_ds s1 t (mkDs aid1 (d_origin d) (d_sampling d) (d_units d) (d_cls d))).

(* direct attribute assignment used by the in-place variants (no validation) *)
Definition assign_array (s : state) (t : nat) (aid : nat) : state :=
  let d := get_ds s t in
  put_ds s t (mkDs aid (d_origin d) (d_sampling d) (d_units d) (d_cls d)).
Definition assign_sampling (s : state) (t : nat) (l : list Q) : state :=
  let d := get_ds s t in
  let (s1, i) := alloc_num s l in
  put_ds s1 t (mkDs (d_arr d) (d_origin d) i (d_units d) (d_cls d)).
Definition assign_origin (s : state) (t : nat) (l : list Q) : state :=
  let d := get_ds s t in
  let (s1, i) := alloc_num s l in
  put_ds s1 t (mkDs (d_arr d) i (d_sampling d) (d_units d) (d_cls d)).

(* Dataset.copy(): type(self).from_array(array.copy(), origin.copy(), sampling.copy(), units[:]) *)
Definition copy_ds (s : state) (t : nat) : res state :=
  let d := get_ds s t in
  let a := get_arr s (d_arr d) in
  let (s1, aid) := alloc_fresh s (a_shape a) (a_flat a) in
  from_array s1 (d_cls d) aid
    (Some (NList (get_num s (d_origin d))))
    (Some (NList (get_num s (d_sampling d))))
    (Some (UList (get_str s (d_units d)))).

(* ================================================================== NumPy indexing (SPEC) *)
Inductive index :=
| IInt (k : Z)                     (* ds[k] *)
| ISlice (a b c : option Z)        (* ds[a:b:c], None = omitted *)
| IList (l : list Z)               (* ds[[k0, k1, ...]] *)
| IEll.                            (* ds[...] *)

Definition full : index := ISlice None None None.

Definition is_ell (i : index) : bool := match i with IEll => true | _ => false end.
Definition is_int (i : index) : bool := match i with IInt _ => true | _ => false end.
Definition is_list (i : index) : bool := match i with IList _ => true | _ => false end.
Definition is_slice (i : index) : bool := match i with ISlice _ _ _ => true | _ => false end.
(* integers take part in the broadcast as 0-d index arrays *)
Definition is_adv (i : index) : bool := match i with IInt _ | IList _ => true | _ => false end.

Definition count_ell (idx : list index) : nat := length (filter is_ell idx).

Fixpoint expand_ell (idx : list index) (k : nat) : list index :=
  match idx with
  | [] => []
  | IEll :: r => repeat full k ++ r
  | x :: r => x :: expand_ell r k
  end.

(* one index item per axis; IndexError: two Ellipsis, or more items than axes *)
Definition np_expand (n : nat) (idx : list index) : res (list index) :=
  let ne := count_ell idx in
  if 1 <? ne then Err IndexErr
  else
    let m := length idx - ne in
    if n <? m then Err IndexErr
    else Ok (if ne =? 1 then expand_ell idx (n - m) else idx ++ repeat full (n - m)).

(* per-axis index after normalisation against the axis length *)
Inductive nidx :=
| NI (k : nat)                          (* integer, 0 <= k < n *)
| NS (start step : Z) (len : nat)       (* range(start, stop, step) *)
| NL (l : list Z).                      (* list, not yet bounds-checked *)

Definition is_NI (x : nidx) : bool := match x with NI _ => true | _ => false end.
Definition is_NS (x : nidx) : bool := match x with NS _ _ _ => true | _ => false end.
Definition is_NL (x : nidx) : bool := match x with NL _ => true | _ => false end.

Definition norm_int (k : Z) (n : nat) : res nat :=
  match pyidx k n with Some i => Ok i | None => Err IndexErr end.

(* integers and slices are resolved in positional order (first error wins) *)
Definition norm_one (xn : index * nat) : res nidx :=
  let (x, n) := xn in
  match x with
  | IInt k => do i <- norm_int k n; Ok (NI i)
  | ISlice a b c =>
    match slice_indices a b c (Z.of_nat n) with
    | None => Err ValueErr
    | Some (st, sp, stp) => Ok (NS st stp (Z.to_nat (slice_len st sp stp)))
    end
  | IList l => Ok (NL l)
  | IEll => Ok (NS 0 1 n)
  end.

(* broadcast of the index arrays' lengths *)
Definition bc2 (a b : nat) : option nat :=
  if a =? b then Some a else if a =? 1 then Some b else if b =? 1 then Some a else None.
Fixpoint bcast (ls : list nat) : option nat :=
  match ls with
  | [] => Some 1
  | x :: r => match bcast r with Some m => bc2 x m | None => None end
  end.

Definition list_lens (nix : list nidx) : list nat :=
  flat_map (fun x => match x with NL l => [length l] | _ => [] end) nix.

(* bounds check of the list entries (skipped by NumPy when the broadcast is empty) *)
Definition check_lists (m : nat) (nix : list nidx) (sh : list nat) : res (list nidx) :=
  mapM (fun xn : nidx * nat =>
          let (x, n) := xn in
          match x with
          | NL l => if m =? 0 then Ok (NL (map (fun _ => 0%Z) l))
                    else do l' <- mapM (fun k => norm_int k n) l; Ok (NL (map Z.of_nat l'))
          | _ => Ok x
          end) (combine nix sh).

(* advanced indices are "separated" when a slice or an Ellipsis ITEM (even one that expands
   to no axis) stands between two of them *)
Fixpoint drop_nonadv (idx : list index) : list index :=
  match idx with
  | [] => []
  | x :: r => if is_adv x then idx else drop_nonadv r
  end.
Definition separated (idx : list index) : bool :=
  negb (forallb is_adv (rev (drop_nonadv (rev (drop_nonadv idx))))).

(* an axis of the result, named by the source axis it runs along *)
Inductive oaxis :=
| OSlice (ax : nat) (start step : Z) (len : nat)
| OBcast (ax : nat) (len : nat).      (* the merged index-array axis; ax = first list-indexed axis *)

Definition olen (a : oaxis) : nat := match a with OSlice _ _ _ n => n | OBcast _ n => n end.
Definition oax_src (a : oaxis) : nat := match a with OSlice i _ _ _ => i | OBcast i _ => i end.
Definition oax_step (a : oaxis) : Z := match a with OSlice _ _ sp _ => sp | OBcast _ _ => 1%Z end.

Definition slice_axes (ix : list (nat * nidx)) : list oaxis :=
  flat_map (fun p : nat * nidx =>
              match snd p with NS st sp n => [OSlice (fst p) st sp n] | _ => [] end) ix.

Fixpoint first_pos {A : Type} (p : A -> bool) (l : list A) : nat :=
  match l with [] => 0 | x :: r => if p x then 0 else S (first_pos p r) end.

(* NumPy's layout of the result: without index arrays, the sliced axes in order; with index
   arrays, ONE broadcast axis which replaces the advanced indices where they stood if they are
   all next to each other, and goes FIRST otherwise *)
Definition np_out_axes (sep : bool) (nix : list nidx) (m : nat) : list oaxis :=
  let ix := indexed nix in
  if existsb is_NL nix then
    let b := OBcast (first_pos is_NL nix) m in
    if sep then b :: slice_axes ix
    else
      let fa := first_pos (fun x => negb (is_NS x)) nix in
      slice_axes (firstn fa ix) ++ b :: slice_axes (skipn fa ix)
  else slice_axes ix.

Definition is_obcast (a : oaxis) : bool := match a with OBcast _ _ => true | _ => false end.
Definition is_oslice_of (i : nat) (a : oaxis) : bool :=
  match a with OSlice j _ _ _ => i =? j | _ => false end.

(* source coordinate read by the result coordinate o *)
Definition src_coord (nix : list nidx) (oax : list oaxis) (o : list nat) : list nat :=
  map (fun p : nat * nidx =>
         match snd p with
         | NI k => k
         | NS st sp _ => Z.to_nat (st + sp * Z.of_nat (nth (first_pos (is_oslice_of (fst p)) oax) o 0))
         | NL l => Z.to_nat (nth (if length l =? 1 then 0 else nth (first_pos is_obcast oax) o 0) l 0%Z)
         end) (indexed nix).

Record npres := mkNp {
  np_shape : list nat;
  np_flat : list Z;
  np_copy : bool;      (* advanced indexing copies, basic indexing returns a view *)
  np_scalar : bool;    (* integers only, no Ellipsis: a NumPy scalar, not an ndarray *)
  np_axes : list oaxis
}.

Definition np_index (sh : list nat) (flat : list Z) (idx : list index) : res npres :=
  do ex <- np_expand (length sh) idx;
  do nix0 <- mapM norm_one (combine ex sh);
  match bcast (list_lens nix0) with
  | None => Err IndexErr
  | Some m =>
    do nix <- check_lists m nix0 sh;
    let oax := np_out_axes (separated idx) nix m in
    let osh := map olen oax in
    Ok (mkNp osh
             (map (fun o => nth (ravel sh (src_coord nix oax o)) flat 0%Z) (coords osh))
             (existsb is_NL nix)
             (forallb is_NI nix && (count_ell idx =? 0))
             oax)
  end.

(* ================================================================== Dataset.__getitem__ *)
(* the code's own index normalisation (after self.array[index] succeeded) *)
Definition code_expand (n : nat) (idx : list index) : list index :=
  let idx1 :=
    if existsb is_ell idx then
      let pos := first_pos is_ell idx in
      let num_missing := (Z.of_nat n - (Z.of_nat (length idx) - 1))%Z in
      firstn pos idx ++ repeat full (Z.to_nat num_missing) ++ skipn (pos + 1) idx
    else idx in
  if length idx1 <? n then idx1 ++ repeat full (n - length idx1) else idx1.

Definition positions {A : Type} (p : A -> bool) (l : list A) : list nat :=
  map fst (filter (fun q : nat * A => p (snd q)) (indexed l)).

(* kept axes in the order NumPy lays out the result (behaviour with
   fixes/C03-advanced-index-axis-order.diff applied):
     advanced  = positions in the index AS WRITTEN that are neither slice nor Ellipsis
     separated = they are not consecutive
     kept_axes = non-integer positions of the expanded index
     with a list index: sliced = kept minus lists; the merged axis (labelled by the first
     list-indexed axis) goes where the first advanced index stood, or first if separated *)
Definition code_separated (raw : list index) : bool :=
  let advanced := positions (fun i => negb (is_slice i) && negb (is_ell i)) raw in
  match advanced with
  | [] => false
  | a0 :: _ => negb (last advanced 0 - a0 + 1 =? length advanced)
  end.

Definition code_kept_axes (raw ix : list index) : list nat :=
  let kept := positions (fun i => negb (is_int i)) ix in
  if existsb is_list ix then
    let sliced := filter (fun i => negb (is_list (nth i ix full))) kept in
    let first_adv := first_pos (fun i => negb (is_slice i)) ix in
    let n_before := if code_separated raw then 0
                    else length (filter (fun i => i <? first_adv) sliced) in
    firstn n_before sliced ++ first_pos is_list ix :: skipn n_before sliced
  else kept.

(* new_sampling[j] *= idx.step for every slice with a step other than None / 1 *)
Definition scale_steps (ix : list index) (kept : list nat) (samp : list Q) : list Q :=
  fold_left (fun (sa : list Q) (p : nat * index) =>
               match snd p with
               | ISlice _ _ (Some c) =>
                 if (c =? 1)%Z then sa
                 else if existsb (Nat.eqb (fst p)) kept
                      then let j := index_of (fst p) kept in
                           set_nth j (nth j sa 0%Q * inject_Z c)%Q sa
                      else sa
               | _ => sa
               end) (indexed ix) samp.

Definition getitem (s : state) (t : nat) (idx : list index) : res state :=
  let d := get_ds s t in
  let a := get_arr s (d_arr d) in
  do v <- np_index (a_shape a) (a_flat a) idx;          (* array_view = self.array[index] *)
  let ix := code_expand (ndim a) idx in
  let kept := code_kept_axes idx ix in
  let origin := get_num s (d_origin d) in
  let sampling := get_num s (d_sampling d) in
  let units := get_str s (d_units d) in
  let new_origin := map (fun i => nth i origin 0%Q) kept in
  let new_sampling := scale_steps ix kept (map (fun i => nth i sampling 1%Q) kept) in
  let new_units := map (fun i => nth i units ""%string) kept in
  let out_ndim := length (np_shape v) in
  let cls := if out_ndim =? ndim a then d_cls d else registry out_ndim in
  if np_scalar v then Err TypeErr                        (* ensure_valid_array: "at least 1D" *)
  else
    let (s1, aid) := if np_copy v then alloc_fresh s (np_shape v) (np_flat v)
                     else alloc_view s (d_arr d) (np_shape v) (np_flat v) in
    from_array s1 cls aid (Some (NList new_origin)) (Some (NList new_sampling))
               (Some (UList new_units)).

(* ================================================================== pad / crop / bin / resample *)
Inductive padspec :=
| PadInt (w : Z)
| PadPair (b a : Z)
| PadPairs (l : list (Z * Z))
| PadShape (out : list Z)
| PadNone
| PadBoth.

Definition neg_pair (p : Z * Z) : bool := ((fst p <? 0) || (snd p <? 0))%Z.
Definition nat_pair (p : Z * Z) : nat * nat := (Z.to_nat (fst p), Z.to_nat (snd p)).

Definition pad_widths (sh : list nat) (p : padspec) : res (list (nat * nat)) :=
  let n := length sh in
  match p with
  | PadInt w => if (w <? 0)%Z then Err ValueErr else Ok (repeat (Z.to_nat w, Z.to_nat w) n)
  | PadPair b a => if neg_pair (b, a) then Err ValueErr else Ok (repeat (nat_pair (b, a)) n)
  | PadPairs l =>
    if (length l =? n) || (length l =? 1) then
      if existsb neg_pair l then Err ValueErr
      else Ok (if length l =? n then map nat_pair l else repeat (nat_pair (hd (0, 0)%Z l)) n)
    else Err ValueErr
  | PadShape out =>
    if length out =? n then
      Ok (map (fun p : Z * nat =>
                 let dlt := (fst p - Z.of_nat (snd p))%Z in
                 (Z.to_nat (Z.max 0 (dlt / 2)), Z.to_nat (Z.max 0 (- ((- dlt) / 2)))))
              (combine out sh))
    else Err ValueErr
  | PadNone | PadBoth => Err ValueErr
  end.

(* np.pad(..., mode="constant"): zeros around the block *)
Definition pad_data (sh : list nat) (flat : list Z) (w : list (nat * nat)) : list nat * list Z :=
  let osh := map (fun p : nat * (nat * nat) => fst (snd p) + fst p + snd (snd p)) (combine sh w) in
  (osh,
   map (fun o =>
          if forallb (fun q : nat * (nat * (nat * nat)) =>
                        let x := fst q in let n := fst (snd q) in let b := fst (snd (snd q)) in
                        (b <=? x) && (x <? b + n)) (combine o (combine sh w))
          then nth (ravel sh (map (fun q : nat * (nat * nat) => fst q - fst (snd q)) (combine o w)))
                   flat 0%Z
          else 0%Z) (coords osh)).

Inductive axesarg := AxNone | AxInt (k : Z) | AxList (l : list Z).

(* crop: slices (before, after or None when after = 0) on the axes named in the dict; other
   axes are left whole *)
Definition crop_slices (n : nat) (crop_dict : list (Z * (Z * Z))) : list index :=
  map (fun ax => match dict_get (Z.of_nat ax) crop_dict with
                 | Some (before, after) =>
                   ISlice (Some before) (if (after =? 0)%Z then None else Some after) None
                 | None => full
                 end) (seq 0 n).

(* Dataset._normalize_axes: every axis through numpy's normalize_axis_index — negative axes count
   from the last one, out-of-range axes raise AxisError (a ValueError AND an IndexError; reported
   as IndexErr) *)
Definition norm_axis (n : nat) (k : Z) : res Z :=
  match pyidx k n with Some i => Ok (Z.of_nat i) | None => Err IndexErr end.
Definition norm_axes (n : nat) (ax : list Z) : res (list Z) := mapM (norm_axis n) ax.

Definition crop_index (n : nat) (widths : list (Z * Z)) (axes : axesarg) : res (list index) :=
  do aw <- match axes with
           | AxNone => if length widths =? n then Ok (map Z.of_nat (seq 0 n), widths)
                       else Err ValueErr
           | AxInt k => match widths with [] => Err IndexErr | w :: _ => Ok ([k], [w]) end
           | AxList l => Ok (l, widths)
           end;
  let (ax0, w) := (aw : list Z * list (Z * Z)) in
  do ax <- norm_axes n ax0;
  if length w =? length ax then Ok (crop_slices n (dict_of (combine ax w)))
  else Err ValueErr.

Inductive factorarg := FInt (k : Z) | FList (l : list Z) | FBad.

Definition axes_list (n : nat) (axes : axesarg) : list Z :=
  match axes with AxNone => map Z.of_nat (seq 0 n) | AxInt k => [k] | AxList l => l end.

(* block sum along one axis *)
Definition bin_axis (sh : list nat) (flat : list Z) (i fac : nat) : list nat * list Z :=
  let osh := set_nth i (nth i sh 0 / fac) sh in
  (osh,
   map (fun o =>
          sum_Z (map (fun k => nth (ravel sh (set_nth i (nth i o 0 * fac + k) o)) flat 0%Z)
                     (seq 0 fac))) (coords osh)).

(* metadata updates run over the dict items; a key indexes the calibration arrays the Python
   way (negative from the end, IndexError when out of range) *)
Fixpoint bin_meta (items : list (Z * Z)) (o sa : list Q) : res (list Q * list Q) :=
  match items with
  | [] => Ok (o, sa)
  | (ax, fac) :: r =>
    match pyidx ax (length sa) with
    | None => Err IndexErr
    | Some i =>
      let old := nth i sa 0%Q in
      bin_meta r (set_nth i (nth i o 0%Q + (1 # 2) * (inject_Z fac - 1) * old)%Q o)
                 (set_nth i (old * inject_Z fac)%Q sa)
    end
  end.

Inductive frspec := FROut (l : list Z) | FRFac (q : Q) | FRFacs (l : list Q).

(* Python round(): half to even *)
Definition round_half_even (x : Q) : Z :=
  let f := Qfloor x in
  let r := (x - inject_Z f)%Q in
  match Qcompare r (1 # 2) with
  | Lt => f
  | Gt => (f + 1)%Z
  | Eq => if Z.even f then f else (f + 1)%Z
  end.

(* ================================================================== Dataset4dstem reductions *)
(* get_dp_mean / get_dp_max / get_dp_median (reduce over the scan axes (0, 1)) and
   get_virtual_image (sum of array * mask over the detector axes (2, 3)) *)
Inductive reducer := RMean | RMax | RMedian.

Inductive detector :=
| DMask (sh : list nat) (bits : list bool)   (* mask = boolean ndarray of this shape *)
| DCircle (cy cx r : Q)                      (* mode="circle", geometry=((cy, cx), r) *)
| DAnnular (cy cx ri ro : Q)                 (* mode="annular", geometry=((cy, cx), (ri, ro)) *)
| DBad.                                      (* nothing given / unknown mode / malformed geometry *)

Fixpoint insert_Z (x : Z) (l : list Z) : list Z :=
  match l with [] => [x] | y :: r => if (x <=? y)%Z then x :: l else y :: insert_Z x r end.
Definition sort_Z (l : list Z) : list Z := fold_right insert_Z [] l.

Definition lastn {A : Type} (k : nat) (l : list A) : list A := skipn (length l - k) l.

Definition dist2 (cy cx : Q) (k l : nat) : Q :=
  ((inject_Z (Z.of_nat k) - cy) * (inject_Z (Z.of_nat k) - cy)
   + (inject_Z (Z.of_nat l) - cx) * (inject_Z (Z.of_nat l) - cx))%Q.
(* distance <= r  (distance >= 0) *)
Definition within (d2 r : Q) : bool := Qle_bool 0 r && Qle_bool d2 (r * r)%Q.
(* distance >= r *)
Definition beyond (d2 r : Q) : bool := Qle_bool r 0 || Qle_bool (r * r)%Q d2.

Definition detector_mask (n2 n3 : nat) (dt : detector) : res (list bool) :=
  let grid := flat_map (fun k => map (fun l => (k, l)) (seq 0 n3)) (seq 0 n2) in
  match dt with
  | DMask sh bits =>
    match sh with
    | [m2; m3] => if (m2 =? n2) && (m3 =? n3) then Ok bits else Err ValueErr
    | _ => Err ValueErr
    end
  | DCircle cy cx r => Ok (map (fun p : nat * nat => within (dist2 cy cx (fst p) (snd p)) r) grid)
  | DAnnular cy cx ri ro =>
    Ok (map (fun p : nat * nat => let d2 := dist2 cy cx (fst p) (snd p) in beyond d2 ri && within d2 ro) grid)
  | DBad => Err ValueErr
  end.

Section Model.
  (* Fourier resampling of the data: axes, output lengths, input shape, input data -> output
     data (values are outside this model, see C06) *)
  Variable FR : list Z -> list Z -> list nat -> list Z -> list Z.
  (* array_binned / block_volume *)
  Variable divf : Z -> Z -> Z.

  (* ---------------------------------------------------------------- pad *)
  Definition pad (s : state) (t : nat) (p : padspec) (in_place : bool) : res state :=
    let d := get_ds s t in
    let a := get_arr s (d_arr d) in
    do w <- pad_widths (a_shape a) p;
    let (osh, ofl) := pad_data (a_shape a) (a_flat a) w in
    if in_place then
      let (s1, aid) := alloc_fresh s osh ofl in
      Ok (assign_array s1 t aid)                      (* self._array = padded_array *)
    else
      do s1 <- copy_ds s t;                           (* new_dataset = self.copy() *)
      let (s2, aid) := alloc_fresh s1 osh ofl in
      set_array s2 (length (dss s)) aid.              (* new_dataset.array = padded_array *)

  (* ---------------------------------------------------------------- crop *)
  Definition crop (s : state) (t : nat) (widths : list (Z * Z)) (axes : axesarg)
    (in_place : bool) : res state :=
    let d := get_ds s t in
    let a := get_arr s (d_arr d) in
    do sl <- crop_index (ndim a) widths axes;
    if in_place then
      do v <- np_index (a_shape a) (a_flat a) sl;
      let (s1, aid) := alloc_view s (d_arr d) (np_shape v) (np_flat v) in
      set_array s1 t aid                              (* self.array = self.array[slices] *)
    else
      do s1 <- copy_ds s t;                           (* dataset = self.copy() *)
      let t' := length (dss s) in
      let d' := get_ds s1 t' in
      let a' := get_arr s1 (d_arr d') in
      do v <- np_index (a_shape a') (a_flat a') sl;
      let (s2, aid) := alloc_view s1 (d_arr d') (np_shape v) (np_flat v) in
      set_array s2 t' aid.                            (* dataset.array = dataset.array[slices] *)

  (* ---------------------------------------------------------------- bin *)
  Definition bin_factors (fa : factorarg) (naxes : nat) : res (list Z) :=
    match fa with
    | FInt k => Ok (repeat k naxes)
    | FList l => if length l =? naxes then Ok l else Err ValueErr
    | FBad => Err TypeErr
    end.

  Definition bin_data (sh : list nat) (flat : list Z) (dict : list (Z * Z)) : list nat * list Z :=
    fold_left (fun (acc : list nat * list Z) ax =>
                 match dict_get (Z.of_nat ax) dict with
                 | Some fac => bin_axis (fst acc) (snd acc) ax (Z.to_nat fac)
                 | None => acc
                 end) (seq 0 (length sh)) (sh, flat).

  Definition bin (s : state) (t : nat) (fa : factorarg) (axes : axesarg) (mean in_place : bool)
    : res state :=
    let d := get_ds s t in
    let a := get_arr s (d_arr d) in
    do ax <- norm_axes (ndim a) (axes_list (ndim a) axes);
    do facs <- bin_factors fa (length ax);
    if existsb (fun f => (f <=? 0)%Z) facs then Err ValueErr
    else
      let dict := dict_of (combine ax facs) in
      let (osh, summed) := bin_data (a_shape a) (a_flat a) dict in
      let vol := fold_left Z.mul (map snd dict) 1%Z in
      let ofl := if mean then map (divf vol) summed else summed in
      do os <- bin_meta dict (get_num s (d_origin d)) (get_num s (d_sampling d));
      let (new_origin, new_sampling) := (os : list Q * list Q) in
      if in_place then
        let (s1, aid) := alloc_fresh s osh ofl in
        Ok (assign_origin (assign_sampling (assign_array s1 t aid) t new_sampling) t new_origin)
      else
        do s1 <- copy_ds s t;
        let t' := length (dss s) in
        let (s2, aid) := alloc_fresh s1 osh ofl in
        do s3 <- set_array s2 t' aid;
        do s4 <- set_sampling s3 t' (NList new_sampling);
        set_origin s4 t' (NList new_origin).

  (* ---------------------------------------------------------------- fourier_resample *)
  (* self.shape[a] with Python tuple indexing *)
  Definition shape_at (sh : list nat) (ax : Z) : res Z :=
    match pyidx ax (length sh) with Some i => Ok (Z.of_nat (nth i sh 0)) | None => Err IndexErr end.

  Definition fr_out_shape (sh : list nat) (ax : list Z) (spec : frspec) : res (list Z) :=
    match spec with
    | FROut l =>
      if length l =? length ax then
        (* factors = out_len / self.shape[a]: IndexError / ZeroDivisionError *)
        do _chk <- mapM (fun a => do n <- shape_at sh a;
                                  if (n =? 0)%Z then Err OtherErr else Ok n) ax;
        Ok l
      else Err ValueErr
    | FRFac q =>
      mapM (fun a => do n <- shape_at sh a;
                     Ok (Z.max 1 (round_half_even (inject_Z n * q)%Q))) ax
    | FRFacs l =>
      if length l =? length ax then
        mapM (fun af : Z * Q => do n <- shape_at sh (fst af);
                                Ok (Z.max 1 (round_half_even (inject_Z n * snd af)%Q)))
             (combine ax l)
      else Err ValueErr
    end.

  (* new_sampling[a] /= out_len / shape[a], over zip(axes, out_shape) *)
  Fixpoint fr_sampling (sh : list nat) (items : list (Z * Z)) (sa : list Q) : list Q :=
    match items with
    | [] => sa
    | (ax, out) :: r =>
      match pyidx ax (length sa) with
      | None => sa
      | Some i =>
        fr_sampling sh r
          (set_nth i (nth i sa 0%Q / (inject_Z out / inject_Z (Z.of_nat (nth i sh 0%nat))))%Q sa)
      end
    end.

  (* new_origin[a] = origin[a] + (old_len-1)/2 * sampling[a] - (out_len-1)/2 * new_sampling[a] *)
  Fixpoint fr_origin (sh : list nat) (items : list (Z * Z)) (o0 sa0 nsa : list Q) (o : list Q)
    : list Q :=
    match items with
    | [] => o
    | (ax, out) :: r =>
      match pyidx ax (length o) with
      | None => o
      | Some i =>
        fr_origin sh r o0 sa0 nsa
          (set_nth i (nth i o0 0%Q
                      + (inject_Z (Z.of_nat (nth i sh 0%nat)) - 1) / 2 * nth i sa0 0%Q
                      - (inject_Z out - 1) / 2 * nth i nsa 0%Q)%Q o)
      end
    end.

  Definition fourier (s : state) (t : nat) (spec : frspec) (axes : axesarg) (in_place : bool)
    : res state :=
    let d := get_ds s t in
    let a := get_arr s (d_arr d) in
    let sh := a_shape a in
    do ax <- norm_axes (ndim a) (axes_list (ndim a) axes);
    do outs <- fr_out_shape sh ax spec;
    if existsb (fun n => (n <? 1)%Z) outs then Err ValueErr
    else if existsb (fun a0 => match shape_at sh a0 with Ok 0%Z => true | _ => false end) ax
    then Err ValueErr                                  (* np.fft.fftn: no data points *)
    else
      let dict := dict_of (combine ax outs) in
      let osh := map (fun i => match dict_get (Z.of_nat i) dict with
                               | Some n => Z.to_nat n
                               | None => nth i sh 0
                               end) (seq 0 (length sh)) in
      let ofl := FR ax outs sh (a_flat a) in
      let origin := get_num s (d_origin d) in
      let sampling := get_num s (d_sampling d) in
      let items := combine ax outs in
      let new_sampling := fr_sampling sh items sampling in
      let new_origin := fr_origin sh items origin sampling new_sampling origin in
      if in_place then
        let (s1, aid) := alloc_fresh s osh ofl in
        Ok (assign_origin (assign_sampling (assign_array s1 t aid) t new_sampling) t new_origin)
      else
        do s1 <- copy_ds s t;
        let t' := length (dss s) in
        let (s2, aid) := alloc_fresh s1 osh ofl in
        do s3 <- set_array s2 t' aid;
        do s4 <- set_sampling s3 t' (NList new_sampling);
        set_origin s4 t' (NList new_origin).

  (* ---------------------------------------------------------------- Dataset4dstem.get_dp_* *)
  (* Dataset2d.from_array(reduce(self.array, axis=(0, 1)), origin=self.origin[-2:],
     sampling=self.sampling[-2:], units=self.units[-2:]); the methods exist on Dataset4dstem only
     (AttributeError elsewhere) *)
  Definition reduce_list (r : reducer) (xs : list Z) : res Z :=
    match r with
    | RMean => Ok (divf (Z.of_nat (length xs)) (sum_Z xs))
    | RMax => match xs with [] => Err ValueErr | x :: rest => Ok (fold_left Z.max rest x) end
    | RMedian =>
      let srt := sort_Z xs in
      let n := length xs in
      Ok (if Nat.even n then divf 2 (nth (n / 2 - 1) srt 0 + nth (n / 2) srt 0)%Z
          else nth (n / 2) srt 0%Z)
    end.

  Definition reduce_dp (s : state) (t : nat) (r : reducer) : res state :=
    let d := get_ds s t in
    let a := get_arr s (d_arr d) in
    match d_cls d, a_shape a with
    | D4stem, [n0; n1; n2; n3] =>
      (* np.median over axes (0, 1) of an array with an EMPTY detector (n2 * n3 = 0) raises
         ValueError ("cannot reshape array of size 0"), np.mean / np.max return the empty array *)
      if (match r with RMedian => true | _ => false end) && (n2 * n3 =? 0) then Err ValueErr else
      do data <- mapM (fun o : list nat =>
                         reduce_list r (flat_map (fun i => map (fun j =>
                             nth (ravel (a_shape a) (i :: j :: o)) (a_flat a) 0%Z) (seq 0 n1)) (seq 0 n0)))
                      (coords [n2; n3]);
      let (s1, aid) := alloc_fresh s [n2; n3] data in
      from_array s1 D2 aid
        (Some (NList (lastn 2 (get_num s (d_origin d)))))
        (Some (NList (lastn 2 (get_num s (d_sampling d)))))
        (Some (UList (lastn 2 (get_str s (d_units d)))))
    | _, _ => Err OtherErr
    end.

  (* Dataset4dstem.get_virtual_image: Dataset2d.from_array(np.sum(array * mask, axis=(-1, -2)),
     origin=self.origin[0:2], sampling=self.sampling[0:2], units=self.units[0:2]) *)
  Definition virtual_image (s : state) (t : nat) (dt : detector) : res state :=
    let d := get_ds s t in
    let a := get_arr s (d_arr d) in
    match d_cls d, a_shape a with
    | D4stem, [n0; n1; n2; n3] =>
      do mask <- detector_mask n2 n3 dt;
      let data := map (fun o : list nat =>
                         sum_Z (map (fun p : list nat * bool =>
                                       if snd p then nth (ravel (a_shape a) (o ++ fst p)) (a_flat a) 0%Z
                                       else 0%Z) (combine (coords [n2; n3]) mask)))
                      (coords [n0; n1]) in
      let (s1, aid) := alloc_fresh s [n0; n1] data in
      from_array s1 D2 aid
        (Some (NList (firstn 2 (get_num s (d_origin d)))))
        (Some (NList (firstn 2 (get_num s (d_sampling d)))))
        (Some (UList (firstn 2 (get_str s (d_units d)))))
    | _, _ => Err OtherErr
    end.

  (* ---------------------------------------------------------------- operations *)
  Inductive op :=
  | OFromArray (c : tag) (sh : list nat) (data : list Z)
               (o sa : option numarg) (u : option unitsarg)     (* cls.from_array(new ndarray) *)
  | OFromDs (c : tag) (src : nat)                               (* cls.from_array(src.array) *)
  | OCopy (t : nat)
  | OSetOrigin (t : nat) (v : numarg)
  | OSetSampling (t : nat) (v : numarg)
  | OSetUnits (t : nat) (v : unitsarg)
  | OSetArray (t : nat) (sh : list nat) (data : list Z)         (* t.array = new ndarray *)
  | OSetArrayFrom (t src : nat)                                 (* t.array = src.array *)
  | OSetName (t : nat)
  | OPad (t : nat) (p : padspec) (in_place : bool)
  | OCrop (t : nat) (w : list (Z * Z)) (axes : axesarg) (in_place : bool)
  | OBin (t : nat) (f : factorarg) (axes : axesarg) (mean in_place : bool)
  | OFourier (t : nat) (spec : frspec) (axes : axesarg) (in_place : bool)
  | OGetitem (t : nat) (idx : list index)
  | OReduceDP (t : nat) (r : reducer)                           (* t.get_dp_mean/max/median() *)
  | OVirtual (t : nat) (dt : detector).                         (* t.get_virtual_image(...) *)

  Definition op_target (o : op) : option nat :=
    match o with
    | OFromArray _ _ _ _ _ _ => None
    | OFromDs _ t | OCopy t | OSetOrigin t _ | OSetSampling t _ | OSetUnits t _
    | OSetArray t _ _ | OSetArrayFrom t _ | OSetName t | OPad t _ _ | OCrop t _ _ _
    | OBin t _ _ _ _ | OFourier t _ _ _ | OGetitem t _ | OReduceDP t _ | OVirtual t _ => Some t
    end.

  Definition op_src2 (o : op) : option nat :=
    match o with OSetArrayFrom _ src => Some src | _ => None end.

  Definition live (s : state) (o : op) : bool :=
    match op_target o with Some t => t <? length (dss s) | None => true end
    && match op_src2 o with Some t => t <? length (dss s) | None => true end.

  Definition step (s : state) (o : op) : res state :=
    if negb (live s o) then Err OtherErr
    else
      match o with
      | OFromArray c sh data og sa u =>
        let (s1, aid) := alloc_fresh s sh data in from_array s1 c aid og sa u
      | OFromDs c src => from_array s c (d_arr (get_ds s src)) None None None
      | OCopy t => copy_ds s t
      | OSetOrigin t v => set_origin s t v
      | OSetSampling t v => set_sampling s t v
      | OSetUnits t v => set_units s t v
      | OSetArray t sh data => let (s1, aid) := alloc_fresh s sh data in set_array s1 t aid
      | OSetArrayFrom t src => set_array s t (d_arr (get_ds s src))
      | OSetName t => Ok s
      | OPad t p ip => pad s t p ip
      | OCrop t w ax ip => crop s t w ax ip
      | OBin t f ax mean ip => bin s t f ax mean ip
      | OFourier t spec ax ip => fourier s t spec ax ip
      | OGetitem t idx => getitem s t idx
      | OReduceDP t r => reduce_dp s t r
      | OVirtual t dt => virtual_image s t dt
      end.

  (* an exception leaves every object as it was *)
  Definition exec (s : state) (o : op) : state :=
    match step s o with Ok s' => s' | Err _ => s end.

  Definition run (s : state) (ops : list op) : state := fold_left exec ops s.

  (* the in-place flag of an operation, and the same operation with the flag set *)
  Definition with_flag (o : op) (b : bool) : op :=
    match o with
    | OPad t p _ => OPad t p b
    | OCrop t w ax _ => OCrop t w ax b
    | OBin t f ax mean _ => OBin t f ax mean b
    | OFourier t spec ax _ => OFourier t spec ax b
    | _ => o
    end.
  Definition has_flag (o : op) : bool :=
    match o with OPad _ _ _ | OCrop _ _ _ _ | OBin _ _ _ _ _ | OFourier _ _ _ _ => true | _ => false end.

  (* operations that return a new dataset *)
  Definition returns_new (o : op) : bool :=
    match o with
    | OFromArray _ _ _ _ _ _ | OFromDs _ _ | OCopy _ | OGetitem _ _ | OReduceDP _ _ | OVirtual _ _ => true
    | OPad _ _ ip | OCrop _ _ _ ip | OBin _ _ _ _ ip | OFourier _ _ _ ip => negb ip
    | _ => false
    end.
End Model.

(* ------------------------------------------------------------------ observables *)
Record obs := mkObs {
  o_cls : tag; o_shape : list nat; o_flat : list Z;
  o_origin : list Q; o_sampling : list Q; o_units : list string
}.

Definition observe (s : state) (t : nat) : obs :=
  let d := get_ds s t in
  let a := get_arr s (d_arr d) in
  mkObs (d_cls d) (a_shape a) (a_flat a)
        (get_num s (d_origin d)) (get_num s (d_sampling d)) (get_str s (d_units d)).

(* class consistent with dimensionality *)
Definition cls_ok (c : tag) (n : nat) : Prop :=
  match tag_ndim c with None => True | Some k => n = k end.
