(* C08 — Failed saves leave no loadable partial object; write-once never overwrites.
   Executable model of the file-system protocol of
     quantem.core.io.serialize.AutoSerialize.save   (existence check / mode handling, staging,
                                                     zip assembly, final move)
     quantem.core.io.serialize.load                 (what it accepts)
   The encoder is abstracted: the save of an object performs an arbitrary finite list of write
   effects  ws = w_1..w_n  (one item each: root group, attribute, array, chunk data, subgroup)
   into the store under construction, and — for the zip store — adds an arbitrary finite list
   of members  zs = z_1..z_m  to the archive.  A store is complete iff it holds all its items.
   Every theorem quantifies over ws and zs, hence over every object graph.

   `save_prog`          the protocol after fixes/C08-atomic-save.diff (stage under a temporary
                        sibling, move onto the target after the last write)
   `save_prog_unfixed`  the protocol of the pinned commit (directory store written in place,
                        archive assembled directly at the target)
   Definitions only; proofs are in proof/C08_Proofs.v. *)
From QV.lib Require Import Prelude.

Definition path := nat.
Definition item := Z.

(* what a path holds *)
Inductive entry :=
| Absent
| Dir (c : list item)                  (* zarr directory store: the items written so far *)
| Zip (closed : bool) (c : list item)  (* archive: members added so far; closed = end record written,
                                          only then can it be opened for reading *)
| Other (tag : Z).                     (* any other file *)

Definition fsys := path -> entry.
Definition upd (fs : fsys) (q : path) (e : entry) : fsys :=
  fun r => if Nat.eqb r q then e else fs r.
Definition present (e : entry) : bool := match e with Absent => false | _ => true end.
Definition is_file (e : entry) : bool := match e with Zip _ _ | Other _ => true | _ => false end.

Inductive mode := MW | MO.             (* 'w' write-once, 'o' overwrite *)
Inductive store := SZip | SDir.

Inductive effect :=
| CheckTarget (m : mode) (p : path)    (* os.path.exists(path); FileExistsError unless mode 'o' *)
| RemoveTarget (p : path)              (* shutil.rmtree / os.remove of an existing target (no-op if absent) *)
| MkTemp (ts tz : path)                (* tempfile.TemporaryDirectory(): staging area ts (store) / tz (archive) *)
| MkDir (p : path)                     (* os.makedirs(path, exist_ok=True) *)
| WriteItem (d : path) (i : item)      (* one value/array/bytes/group write into the store at d *)
| ZipOpen (z : path)                   (* ZipFile(z, "w"): creates or truncates z *)
| ZipAdd (z : path) (i : item)         (* zf.write(member) *)
| ZipClose (z : path)                  (* leaving the with-block normally: end record written *)
| Rename (s d : path).                 (* os.replace(s, d) *)

(* clean-up code the implementation has registered: `with TemporaryDirectory()` and
   `with ZipFile(...)`; they run when an exception propagates (and at normal exit) *)
Inductive handler :=
| HRmTemp (ts tz : path)               (* TemporaryDirectory.__exit__: the staging area disappears *)
| HZipClose (z : path).                (* ZipFile.__exit__ -> close(): a well-formed archive of the
                                          members added so far *)

Inductive outcome := Done | ErrExists | ErrOther | Faulted.

Definition step (e : effect) (fs : fsys) : outcome + fsys :=
  match e with
  | CheckTarget m p =>
      match m with
      | MW => if present (fs p) then inl ErrExists else inr fs
      | MO => inr fs
      end
  | RemoveTarget p => inr (upd fs p Absent)
  | MkTemp ts tz => inr (upd fs ts (Dir []))
  | MkDir p =>
      match fs p with
      | Absent => inr (upd fs p (Dir []))
      | Dir _ => inr fs
      | _ => inl ErrExists
      end
  | WriteItem d i =>
      match fs d with
      | Dir c => inr (upd fs d (Dir (c ++ [i])))
      | _ => inl ErrOther
      end
  | ZipOpen z =>
      match fs z with
      | Dir _ => inl ErrOther
      | _ => inr (upd fs z (Zip false []))
      end
  | ZipAdd z i =>
      match fs z with
      | Zip false c => inr (upd fs z (Zip false (c ++ [i])))
      | _ => inl ErrOther
      end
  | ZipClose z =>
      match fs z with
      | Zip false c => inr (upd fs z (Zip true c))
      | _ => inl ErrOther
      end
  | Rename s d =>
      match fs s with
      | Absent => inl ErrOther
      | e =>
          match fs d with
          | Absent => inr (upd (upd fs d e) s Absent)
          | Dir _ => inl ErrOther                        (* cannot replace a non-empty directory *)
          | _ => if is_file e then inr (upd (upd fs d e) s Absent) else inl ErrOther
          end
      end
  end.

Definition run_handler (h : handler) (fs : fsys) : fsys :=
  match h with
  | HRmTemp ts tz => upd (upd fs ts Absent) tz Absent
  | HZipClose z => match fs z with Zip false c => upd fs z (Zip true c) | _ => fs end
  end.

(* innermost handler first *)
Fixpoint unwind (hs : list handler) (fs : fsys) : fsys :=
  match hs with
  | [] => fs
  | h :: r => unwind r (run_handler h fs)
  end.

(* handlers in force after an effect has been executed *)
Definition handlers_after (e : effect) (hs : list handler) : list handler :=
  match e with
  | MkTemp ts tz => HRmTemp ts tz :: hs
  | ZipOpen z => HZipClose z :: hs
  | ZipClose z => tl hs                 (* the with-block has been left *)
  | _ => hs
  end.

(* handlers that run when the exception is raised *at* effect e (instead of executing it): a
   failure of the closing write itself leaves the file without end record — close() releases
   the file in a `finally` and there is no second attempt *)
Definition fault_handlers (e : effect) (hs : list handler) : list handler :=
  match e with
  | ZipClose z => tl hs
  | _ => hs
  end.

Inductive res :=
| Stopped (fs : fsys) (o : outcome)
| Continue (k : nat) (hs : list handler) (fs : fsys).

(* execute the first k effects of prog, then raise; an effect may also fail by itself *)
Fixpoint run_prefix (k : nat) (prog : list effect) (hs : list handler) (fs : fsys) {struct prog} : res :=
  match prog with
  | [] => Continue k hs fs
  | e :: rest =>
      match k with
      | O => Stopped (unwind (fault_handlers e hs) fs) Faulted
      | S k' =>
          match step e fs with
          | inl err => Stopped (unwind hs fs) err
          | inr fs1 => run_prefix k' rest (handlers_after e hs) fs1
          end
      end
  end.

(* run k prog fs: the state save() leaves behind when an exception is injected at effect
   number k (0-based; k >= length prog: no injection), and how save() ended *)
Definition run (k : nat) (prog : list effect) (fs : fsys) : fsys * outcome :=
  match run_prefix k prog [] fs with
  | Stopped fs' o => (fs', o)
  | Continue _ hs fs' => (unwind hs fs', Done)
  end.

(* ---------------------------------------------------------------- the two protocols *)
Definition zip_phase (z : path) (zs : list item) : list effect :=
  ZipOpen z :: map (ZipAdd z) zs ++ [ZipClose z].

Definition staged (st : store) (ts tz : path) : path := match st with SZip => tz | SDir => ts end.

(* repaired protocol *)
Definition save_prog (st : store) (m : mode) (p ts tz : path) (ws zs : list item) : list effect :=
  CheckTarget m p :: MkTemp ts tz ::
  map (WriteItem ts) ws
  ++ match st with SZip => zip_phase tz zs | SDir => [] end
  ++ [RemoveTarget p; Rename (staged st ts tz) p].

(* protocol of the pinned commit *)
Definition save_prog_unfixed (st : store) (m : mode) (p ts tz : path) (ws zs : list item) : list effect :=
  CheckTarget m p ::
  match m with MO => [RemoveTarget p] | MW => [] end
  ++ match st with
     | SZip => MkTemp ts tz :: map (WriteItem ts) ws ++ zip_phase p zs
     | SDir => MkDir p :: map (WriteItem p) ws
     end.

Definition final_entry (st : store) (ws zs : list item) : entry :=
  match st with SZip => Zip true zs | SDir => Dir ws end.
Definition final_content (st : store) (ws zs : list item) : list item :=
  match st with SZip => zs | SDir => ws end.

(* ---------------------------------------------------------------- load *)
(* load(path) accepts a directory, or an archive it can open, whose root metadata carries
   `_autoserialize`: `markers` are the items that put this key in place (the write of the
   root attribute; the archive member holding the root metadata).  The object it builds is
   determined by the items present. *)
Inductive loaded := LErr | LObj (c : list item).

Definition memz (i : item) (l : list item) : bool := existsb (Z.eqb i) l.
Definition has_marker (markers c : list item) : bool := existsb (fun i => memz i markers) c.

Definition load_model (markers : list item) (fs : fsys) (p : path) : loaded :=
  match fs p with
  | Dir c => if has_marker markers c then LObj c else LErr
  | Zip true c => if has_marker markers c then LObj c else LErr
  | _ => LErr
  end.

(* ---------------------------------------------------------------- observation (harness glue) *)
Fixpoint list_eqb (a b : list item) : bool :=
  match a, b with
  | [], [] => true
  | x :: a', y :: b' => Z.eqb x y && list_eqb a' b'
  | _, _ => false
  end.

Definition entry_eqb (a b : entry) : bool :=
  match a, b with
  | Absent, Absent => true
  | Dir c, Dir d => list_eqb c d
  | Zip x c, Zip y d => Bool.eqb x y && list_eqb c d
  | Other s, Other t => Z.eqb s t
  | _, _ => false
  end.

(* 0 absent | 1 unreadable | 2 loads what it loaded before | 3 loads the complete new object | 4 loads a partial object *)
Definition classify (markers : list item) (fs0 fs' : fsys) (p : path) (final : entry) : Z :=
  match fs' p with
  | Absent => 0
  | e => match load_model markers fs' p with
         | LErr => 1
         | LObj _ => if entry_eqb e (fs0 p) then 2 else if entry_eqb e final then 3 else 4
         end
  end%Z.

Definition outcome_code (o : outcome) : Z :=
  match o with Done => 0 | ErrExists => 1 | ErrOther => 2 | Faulted => 3 end%Z.

Definition effect_kind (e : effect) : Z :=
  match e with
  | CheckTarget _ _ => 0 | RemoveTarget _ => 1 | MkTemp _ _ => 2 | MkDir _ => 3 | WriteItem _ _ => 4
  | ZipOpen _ => 5 | ZipAdd _ _ => 6 | ZipClose _ => 7 | Rename _ _ => 8
  end%Z.

Definition zseq (a : Z) (n : nat) : list item := map (fun i => (a + Z.of_nat i)%Z) (seq 0 n).

(* the scenario the harness builds on disk: target p = 0, staging paths 1 and 2, two siblings 3
   and 4; `pre` is what the target holds beforehand *)
Definition scen_fs (pre : entry) : fsys :=
  fun q => match q with 0 => pre | 3 => Other 33 | 4 => Dir [77%Z] | _ => Absent end.

Definition scen_markers : list item := [1; 500; 1001; 1500]%Z.

(* for every fault index k = 0 .. length prog:
   (class of the target, target entry unchanged, outcome, all other paths unchanged) *)
Definition observe (prog : list effect) (pre final : entry) : list Z * list (Z * bool * Z * bool) :=
  let fs0 := scen_fs pre in
  (map effect_kind prog,
   map (fun k =>
          let r := run k prog fs0 in
          (classify scen_markers fs0 (fst r) 0 final,
           entry_eqb (fst r 0) pre,
           outcome_code (snd r),
           forallb (fun q => entry_eqb (fst r q) (fs0 q)) [1; 2; 3; 4; 5]))
       (seq 0 (S (length prog)))).

Definition scen (fixed : bool) (st : store) (m : mode) (pre : entry) (n nz : nat) :=
  let ws := zseq 0 n in
  let zs := zseq 500 nz in
  observe ((if fixed then save_prog else save_prog_unfixed) st m 0 1 2 ws zs) pre (final_entry st ws zs).
