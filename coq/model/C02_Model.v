(* C02 — ptychography forward pipeline: executable definitions ONLY (no proofs).

   Part 1 (Z / Q): index conventions, transcribed from
     dataset_models.py  PtychographyDatasetBase._set_patch_indices            (patch indices)
     dataset_models.py  PtychographyDatasetRaster.forward                     (round / fractional split)
     dataset_models.py  _normalize_diffraction_intensities  (shift_array by -com_fit, then fftshift)
     detector_models.py DetectorPixelated.forward                             (fftshift: DC position)
     ptychography_base.py PtychographyBase.error_estimate                     (losses, batch fraction)
   Part 2 (abstract commutative ring of lib/DFT.v): the forward pipeline as the code runs it
   ([forward_code]) and the reference composition of physical operators ([forward_ref]). *)
From QV.lib Require Import Prelude FinSum DFT DFT2.
From Coq Require Import QArith Qround Qabs.
Local Close Scope Q_scope.
Local Open Scope Z_scope.

(* ------------------------------------------------------------------ fftfreq ordering *)
(* torch.fft.fftfreq(n, d = 1/n) = [0, 1, .., (n-1)//2, -(n//2), .., -1] (as integers) *)
Definition fftfreq_list (n : Z) : list Z :=
  map Z.of_nat (seq 0 (Z.to_nat ((n + 1) / 2)))
  ++ map (fun k => Z.of_nat k - n / 2) (seq 0 (Z.to_nat (n / 2))).

(* closed form of its i-th entry *)
Definition fftfreq_index (i n : Z) : Z := if i <? (n + 1) / 2 then i else i - n.

(* ------------------------------------------------------------------ patch indices *)
(* row_chunk = (r0 + x_ind) % H ; col_chunk = (c0 + y_ind) % W ; patch = row * W + col *)
Definition patch_rows (H n r0 : Z) : list Z := map (fun x => (r0 + x) mod H) (fftfreq_list n).

Definition patch_indices (H W n m r0 c0 : Z) : list (list Z) :=
  map (fun row => map (fun col => row * W + col) (patch_rows W m c0)) (patch_rows H n r0).

Definition patch_index (H W n m r0 c0 i j : Z) : Z :=
  ((r0 + fftfreq_index i n) mod H) * W + ((c0 + fftfreq_index j m) mod W).

(* ------------------------------------------------------------------ integer / sub-pixel split *)
(* torch.round: round half to even *)
Definition round_half_even (q : Q) : Z :=
  let f := Qfloor q in
  match Qcompare (q - inject_Z f) (1 # 2) with
  | Lt => f
  | Gt => f + 1
  | Eq => if Z.even f then f else f + 1
  end.

(* positions_px_fractional = positions_px - round(positions_px) *)
Definition frac_part (q : Q) : Q := (q - inject_Z (round_half_even q))%Q.

(* ------------------------------------------------------------------ detector centring *)
(* np.roll(x, s)[i] = x[(i - s) mod n] *)
Definition roll_index (n s i : Z) : Z := (i - s) mod n.

(* fftshift(shift_array(x, -s))[i] = x[centre_index n s i] for an integer shift s
   (shift_array with an integer shift is np.roll: theorem centre_then_fftshift_id) *)
Definition centre_index (n s i : Z) : Z := roll_index n (- s) (roll_index n (n / 2) i).

(* twice the `no_shift` origin: com_fit = roi / 2 *)
Definition no_shift_origin_twice (n : Z) : Z := n.

(* index of the zero-frequency pixel after fftshift *)
Definition dc_position (n : Z) : Z := n / 2.

(* ------------------------------------------------------------------ losses *)
Local Open Scope Q_scope.

Fixpoint qsum (l : list Q) : Q := match l with [] => 0 | x :: r => x + qsum r end.

Definition err_l1 (p t : list Q) : Q := qsum (map (fun ab => Qabs (fst ab - snd ab)) (combine p t)).
Definition err_l2 (p t : list Q) : Q := qsum (map (fun ab => (fst ab - snd ab) * (fst ab - snd ab)) (combine p t)).

(* error / (batch / num_gpts) / mean_diffraction_intensity *)
Definition scaled (err : Q) (batch n : positive) (mean_i : Q) : Q :=
  err / (inject_Z (Zpos batch) / inject_Z (Zpos n)) / mean_i.

Definition sq (a : Q) : Q := a * a.

(* the four losses on predicted / measured AMPLITUDES a, b >= 0 (intensities are their squares;
   the 1e-9 inside the square root of the code is not modelled) *)
Definition loss_l1_amplitude a b batch n mi := scaled (err_l1 a b) batch n mi.
Definition loss_l2_amplitude a b batch n mi := scaled (err_l2 a b) batch n mi.
Definition loss_l1_intensity a b batch n mi := scaled (err_l1 (map sq a) (map sq b)) batch n mi.
Definition loss_l2_intensity a b batch n mi := scaled (err_l2 (map sq a) (map sq b)) batch n mi.

(* per-pattern error terms e_k grouped into batches *)
Definition batch_loss (n : positive) (mean_i : Q) (b : list Q) : Q :=
  qsum b / (inject_Z (Z.of_nat (length b)) / inject_Z (Zpos n)) / mean_i.
Definition batch_fraction (n : positive) (b : list Q) : Q :=
  inject_Z (Z.of_nat (length b)) / inject_Z (Zpos n).
Definition weighted_batch_sum (n : positive) (mean_i : Q) (bs : list (list Q)) : Q :=
  qsum (map (fun b => batch_fraction n b * batch_loss n mean_i b) bs).
Definition full_loss (mean_i : Q) (bs : list (list Q)) : Q := qsum (concat bs) / mean_i.

Local Close Scope Q_scope.

(* ------------------------------------------------------------------ forward model *)
Section Forward.
  Variable R : Type.
  Variables (rO rI : R) (radd rmul : R -> R -> R).
  Variable conj : R -> R.
  Variables (N1 : nat) (w1 : Z -> R) (Ninv1 : R) (N2 : nat) (w2 : Z -> R) (Ninv2 : R).
  Variable sN : R.                       (* 1 / sqrt(N1 N2): the norm="ortho" factor *)

  Definition img := nat -> nat -> R.

  Definition pmul (a b : img) : img := fun i j => rmul (a i j) (b i j).
  Definition propagate (p x : img) : img := fmul2 rO radd rmul N1 w1 Ninv1 N2 w2 Ninv2 p x.

  (* object gather as the code does it: flat object indexed by patch indices *)
  Definition gather_flat (objf : Z -> R) (H W r0 c0 : Z) : img :=
    fun i j => objf (patch_index H W (Z.of_nat N1) (Z.of_nat N2) r0 c0 (Z.of_nat i) (Z.of_nat j)).

  (* reference: periodic window of the 2-D object around the rounded position *)
  Definition gather_window (obj2 : Z -> Z -> R) (H W r0 c0 : Z) : img :=
    fun i j => obj2 ((r0 + fftfreq_index (Z.of_nat i) (Z.of_nat N1)) mod H)
                    ((c0 + fftfreq_index (Z.of_nat j) (Z.of_nat N2)) mod W).

  Definition flatten (obj2 : Z -> Z -> R) (W : Z) : Z -> R := fun idx => obj2 (idx / W) (idx mod W).

  (* sub-pixel probe placement: ifft2 (fft2 probe * ramp) *)
  Definition subpixel_shift (rr rc : nat -> R) (probe : img) : img :=
    propagate (fun k1 k2 => rmul (rr k1) (rc k2)) probe.

  (* overlap_projection, as the loop runs: overlap = patch_0 * probe;
     for s >= 1: overlap = patch_s * propagate(overlap, propagator_{s-1}) *)
  Definition overlap_loop (patches props : list img) (probe : img) : img :=
    match patches with
    | [] => probe
    | t0 :: ts => fold_left (fun ov tp => pmul (fst tp) (propagate (snd tp) ov)) (combine ts props) (pmul t0 probe)
    end.

  (* reference multislice: the wave INCIDENT on slice s+1 is P_s (T_s psi_s); exit = T_S psi_S *)
  Fixpoint exit_wave (patches props : list img) (psi : img) : img :=
    match patches with
    | [] => psi
    | t :: ts =>
        match ts, props with
        | [], _ => pmul t psi
        | _ :: _, [] => pmul t psi
        | _ :: _, p :: ps => exit_wave ts ps (propagate p (pmul t psi))
        end
    end.

  (* |fft2(exit, norm="ortho")|^2 *)
  Definition farfield_intensity (x : img) : img :=
    fun k1 k2 => let a := rmul sN (dft2 rO radd rmul N1 w1 N2 w2 x k1 k2) in rmul a (conj a).

  Definition mode_sum (f : img -> img) (modes : list img) : img :=
    fun k1 k2 => suml rO radd (map (fun x => f x k1 k2) modes).

  (* the pipeline as the code runs it for one probe position *)
  Definition forward_code (objf : list (Z -> R)) (H W r0 c0 : Z) (rr rc : nat -> R)
             (props : list img) (probes : list img) : img :=
    fftshift2 N1 N2
      (mode_sum farfield_intensity
         (map (fun pr => overlap_loop (map (fun o => gather_flat o H W r0 c0) objf) props (subpixel_shift rr rc pr))
              probes)).

  (* reference composition: gather o shift o multislice o ortho-DFT o mode sum o fftshift *)
  Definition forward_ref (obj2 : list (Z -> Z -> R)) (H W r0 c0 : Z) (rr rc : nat -> R)
             (props : list img) (probes : list img) : img :=
    fftshift2 N1 N2
      (mode_sum farfield_intensity
         (map (fun pr => exit_wave (map (fun o => gather_window o H W r0 c0) obj2) props (subpixel_shift rr rc pr))
              probes)).

  (* _apply_weights: one common factor c on every mode *)
  Definition scale_modes (c : R) (probes : list img) : list img :=
    map (fun pr => (fun i j => rmul c (pr i j)) : img) probes.

  Definition total_probe_intensity (probes : list img) : R :=
    suml rO radd (map (fun pr => energy2 rO radd rmul conj N1 N2 pr) probes).
End Forward.

Arguments img R : clear implicits.
Arguments pmul {R} rmul a b _ _.
Arguments propagate {R} rO radd rmul N1 w1 Ninv1 N2 w2 Ninv2 p x _ _.
Arguments gather_flat {R} N1 N2 objf H W r0 c0 _ _.
Arguments gather_window {R} N1 N2 obj2 H W r0 c0 _ _.
Arguments flatten {R} obj2 W _.
Arguments subpixel_shift {R} rO radd rmul N1 w1 Ninv1 N2 w2 Ninv2 rr rc probe _ _.
Arguments overlap_loop {R} rO radd rmul N1 w1 Ninv1 N2 w2 Ninv2 patches props probe.
Arguments exit_wave {R} rO radd rmul N1 w1 Ninv1 N2 w2 Ninv2 patches props psi.
Arguments farfield_intensity {R} rO radd rmul conj N1 w1 N2 w2 sN x _ _.
Arguments mode_sum {R} rO radd f modes _ _.
Arguments forward_code {R} rO radd rmul conj N1 w1 Ninv1 N2 w2 Ninv2 sN objf H W r0 c0 rr rc props probes _ _.
Arguments forward_ref {R} rO radd rmul conj N1 w1 Ninv1 N2 w2 Ninv2 sN obj2 H W r0 c0 rr rc props probes _ _.
Arguments scale_modes {R} rmul c probes.
Arguments total_probe_intensity {R} rO radd rmul conj N1 N2 probes.

(* ================================================================== round-3 additions *)
(* `no_shift` origin of the repaired preprocessing: com_fit = roi // 2, the zero-frequency pixel of
   the fftshift convention, for even AND odd detector sizes (fixes/C02-no-shift-odd-roi.diff) *)
Definition no_shift_origin (n : Z) : Z := n / 2.

Section ForwardExt.
  Variable R : Type.
  Variable rmul : R -> R -> R.

  (* second step of _apply_weights: mode m is multiplied by its own factor d_m *)
  Fixpoint scale_modes_w (ds : list R) (probes : list (img R)) : list (img R) :=
    match ds, probes with
    | d :: ds', p :: ps' => ((fun i j => rmul d (p i j)) : img R) :: scale_modes_w ds' ps'
    | _, _ => []
    end.

  (* _apply_weights as the code runs it: the common factor first, then the per-mode factors *)
  Definition apply_weights_code (c : R) (ds : list R) (probes : list (img R)) : list (img R) :=
    scale_modes_w ds (scale_modes rmul c probes).

  (* potential object (_get_obj_patches on a real array): transmission e (V r c), e = exp(i .);
     P is the type of phases *)
  Variable P : Type.
  Definition pot_obj (e : P -> R) (V : Z -> Z -> P) : Z -> Z -> R := fun r c => e (V r c).
  Definition phase_img (e : P -> R) (kappa : nat -> nat -> P) : img R := fun k1 k2 => e (kappa k1 k2).
  Definition phase_ramp (e : P -> R) (phi : nat -> P) : nat -> R := fun k => e (phi k).
End ForwardExt.

Arguments scale_modes_w {R} rmul ds probes.
Arguments apply_weights_code {R} rmul c ds probes.
Arguments pot_obj {R P} e V _ _.
Arguments phase_img {R P} e kappa _ _.
Arguments phase_ramp {R P} e phi _.

(* ================================================================== round-4 additions
   Integer / index / dispatch logic of the forward pipeline whose SOURCE is re-read and translated on every run
   (harness/c02_tie.py -> build/C02/Gen_C02.v) and proved equal to these definitions for all arguments
   (coq/gen_proofs/C02_GenProofs.v, C02_GenProperties.v). *)

(* _set_patch_indices for the whole scan: one block of patch indices per scan position *)
Definition round_pos (p : Q * Q) : Z * Z := (round_half_even (fst p), round_half_even (snd p)).
Definition patch_indices_all (H W n m : Z) (pos : list (Q * Q)) : list (list (list Z)) :=
  map (fun p => patch_indices H W n m (fst (round_pos p)) (snd (round_pos p))) pos.

(* patch_indices_need_update: the rounded positions differ from the ones the cache was computed for *)
Definition zz_eqb (a b : Z * Z) : bool := (fst a =? fst b) && (snd a =? snd b).
Fixpoint list_eqb {A} (eqb : A -> A -> bool) (a b : list A) : bool :=
  match a, b with
  | [], [] => true
  | x :: a', y :: b' => eqb x y && list_eqb eqb a' b'
  | _, _ => false
  end.
Definition need_update (cached current : list (Q * Q)) : bool :=
  negb (list_eqb zz_eqb (map round_pos cached) (map round_pos current)).

(* PtychographyDatasetRaster.forward, index part: refresh the cache when needed, then gather the batch *)
Definition forward_indices (H W n m : Z) (cached_pos : list (Q * Q)) (cache : list (list (list Z)))
           (pos : list (Q * Q)) (batch : list Z)
  : list (list (list Z)) * list (Q * Q) * list (Q * Q) :=
  let cache' := if need_update cached_pos pos then patch_indices_all H W n m pos else cache in
  (map (fun b => nth (Z.to_nat b) cache' []) batch,
   map (fun b => nth (Z.to_nat b) pos (0 # 1, 0 # 1)%Q) batch,
   map (fun b => let p := nth (Z.to_nat b) pos (0 # 1, 0 # 1)%Q in (frac_part (fst p), frac_part (snd p))) batch).

(* object shape: F = floor(fov / sampling) per axis (float part, not translated) *)
Definition obj_shape_crop (F : Z) : Z := let s := F + 2 in s + s mod 2.
Definition obj_shape_full (rshape pad : Z) : Z := rshape + 2 * pad.
(* adjust_padding_power2 on one axis: None = raises ValueError *)
Definition adjust_pad_axis (div shape pad : Z) : Z :=
  let rem := (shape + 2 * pad) mod div in if rem =? 0 then pad else pad + (div - rem) / 2.
Definition adjust_pad (level s0 s1 p0 p1 : Z) : option (Z * Z) :=
  let div := 2 ^ level in
  let q0 := adjust_pad_axis div s0 p0 in
  let q1 := adjust_pad_axis div s1 p1 in
  if ((s0 + 2 * q0) mod div =? 0) && ((s1 + 2 * q1) mod div =? 0) then Some (q0, q1) else None.

(* _set_targets: which stored array the loss is compared against *)
Inductive loss_type := L2_amplitude | L1_amplitude | L2_intensity | L1_intensity | Poisson.
Inductive tsource := Amplitudes | CenteredAmplitudes | Intensities | CenteredIntensities.
Definition target_source (lt : loss_type) (descan_learned : bool) : tsource :=
  match lt with
  | L2_amplitude | L1_amplitude => if descan_learned then Amplitudes else CenteredAmplitudes
  | _ => if descan_learned then Intensities else CenteredIntensities
  end.

(* history of a dataset object: the arrays are identified by the index of the preprocessing that wrote them;
   preprocess writes all four arrays and then selects the l2_amplitude targets *)
Inductive dop := Preprocess (descan_learned : bool) | SetTargets (lt : loss_type) (descan_learned : bool).
Record dstate := { d_version : nat; d_targets : option (tsource * nat) }.
Definition set_targets (lt : loss_type) (learned : bool) (st : dstate) : dstate :=
  {| d_version := d_version st; d_targets := Some (target_source lt learned, d_version st) |}.
Definition dstep (st : dstate) (op : dop) : dstate :=
  match op with
  | Preprocess learned => set_targets L2_amplitude learned {| d_version := S (d_version st); d_targets := d_targets st |}
  | SetTargets lt learned => set_targets lt learned st
  end.
Definition drun (ops : list dop) (st : dstate) : dstate := fold_left dstep ops st.
